package main

// C05 — decoding terminates with work and memory bounded by the frame size.

import (
	"fmt"
	"go/token"
	"go/types"
	"math"
	"strings"

	"golang.org/x/tools/go/ssa"
)

func init() {
	register(&PropertyCheck{ID: "C05", Level: "other", Run: checkC05, Canaries: []Canary{
		{Name: "adv6-C-open-tail-converted-in-a-helper", Rule: "R5.2", Where: "text#convert", Edits: []Edit{{"wiretypes.go", "\tv[0] = string(key)\n\n\ti := len(v[0]) + 2\n\tvar val wstring\n\tif err := val.UnmarshalBinary(data[i:]); err != nil {\n\t\treturn unmarshalErr(v, \"value\", err.(*Malformed))\n\t}\n\tv[1] = string(val)\n\treturn nil\n}\nfunc (v UserProp) String() string {\n\treturn fmt.Sprintf(\"%s:%s\", v[0], v[1])\n}\nfunc (v UserProp) width() int {\n\treturn wstring(v[0]).width() + wstring(v[1]).width()\n}\n\n// https://docs.oasis-open.org/mqtt/mqtt/v5.0/os/mqtt-v5.0-os.html#_Toc3901010\ntype wstring = bindata\n\n// https://docs.oasis-open.org/mqtt/mqtt/v5.0/os/mqtt-v5.0-os.html#_Toc3901012\ntype bindata []byte\n\nfunc (v bindata) fillProp(data []byte, i int, id Ident) int {\n\tif len(v) == 0 {\n\t\treturn 0\n\t}\n\tn := i\n\ti += id.fill(data, i)\n\ti += v.fill(data, i)\n\treturn i - n\n}\nfunc (v bindata) fill(data []byte, i int) int {\n\tif len(data) >= i+v.width() {\n\t\ti += wuint16(len(v)).fill(data, i)\n\t\tcopy(data[i:], []byte(v))\n\t}\n\treturn v.width()\n}\n\nfunc (v *bindata) UnmarshalBinary(data []byte) error {\n\tif len(data) < 2 {\n\t\treturn unmarshalErr(v, \"\", \"missing data\")\n\t}\n\tlength := int(binary.BigEndian.Uint16(data))\n\tif len(data) < length+2 {\n\t\treturn unmarshalErr(v, \"\", \"missing data\")\n\t}\n\tif length == 0 {\n\t\treturn nil\n\t}\n\t*v = make([]byte, length)\n\tcopy(*v, data[2:length+2])\n\treturn nil\n}\n\nfunc (v bindata) width() int {\n\treturn 2 + len(v)\n}\n\ntype rawdata []byte\n\nfunc (v *rawdata) UnmarshalBinary(data []byte) error {\n\t*v = make([]byte, len(data))\n\tcopy(*v, data)\n\treturn nil\n}\nfunc (v rawdata) fill(data []byte, i int) int {\n\tif len(data) >= i+v.width() {\n\t\treturn copy(data[i:], []byte(v))\n\t}\n\treturn v.width()\n}\nfunc (v rawdata) width() int {\n\treturn len(v)\n}\n\n// fillProp is here to fullfill the wireType interface, though it\n// cannot be used as a property as the length is not written. fillProp\n// always panics.\nfunc (v rawdata) fillProp(data []byte, i int, id Ident) int {\n\tpanic(\"cannot use rawdata as property\")\n}\n\n// https://docs.oasis-open.org/mqtt/mqtt/v5.0/os/mqtt-v5.0-os.html#_Toc3901011\ntype vbint uint\n\nfunc (v vbint) fillProp(data []byte, i int, id Ident) int {\n\tif v == 0 {\n\t\treturn 0\n\t}\n\tn := i\n\ti += id.fill(data, i)\n\ti += v.fill(data, i)\n\treturn i - n\n}\n\nfunc (v vbint) fill(data []byte, i int) int {\n\tx := v\n\tn := i\n\tfor {\n\t\tencodedByte := byte(x % 128)\n\t\tx = x / 128\n\t\tif x > 0 {\n\t\t\tencodedByte = encodedByte | 128\n\t\t}\n\t\tif i < len(data) {\n\t\t\tdata[i] = encodedByte\n\t\t}\n\t\ti++\n\t\tif x == 0 {\n\t\t\tbreak\n\t\t}\n\t}\n\treturn i - n\n}\n\nfunc (v vbint) width() int {\n\treturn v.fill(_LEN, 0)\n}\n\nfunc (v *vbint) ReadFrom(r io.Reader) (int64, error) {\n\tvar multiplier uint = 1\n\tvar value uint\n\tdata := make([]byte, 1)\n\tvar i int64\n\tfor {\n\t\tif _, err := io.ReadFull(r, data); err != nil {\n\t\t\treturn i, err\n\t\t}\n\t\ti++\n\t\tencodedByte := data[0]\n\t\tvalue += uint(encodedByte) & uint(127) * multiplier\n\t\tif multiplier > 128*128*128 {\n\t\t\treturn i, unmarshalErr(v, \"\", \"size exceeded\")\n\t\t}\n\t\tif encodedByte&128 == 0 {\n\t\t\tbreak\n\t\t}\n\t\tmultiplier = multiplier * 128\n\t}\n\t*v = vbint(value)\n\treturn i, nil\n}\n\n// UnmarshalBinary data, returns nil or *Malformed error\nfunc (v *vbint) UnmarshalBinary(data []byte) error {\n\tif len(data) == 0 {\n\t\treturn unmarshalErr(v, \"\", \"missing data\")\n\t}\n\tvar multiplier uint = 1\n\tvar value uint\n\tfor _, encodedByte := range data {\n\t\tvalue += uint(encodedByte) & uint(127) * multiplier\n\t\tif multiplier > 128*128*128 {\n\t\t\treturn unmarshalErr(v, \"\", \"size exceeded\")\n\t\t}\n\t\tif encodedByte&128 == 0 {\n\t\t\t*v = vbint(value)\n\t\t\treturn nil\n\t\t}\n\t\tmultiplier = multiplier * 128\n\t}\n\treturn unmarshalErr(v, \"\", \"missing data\")\n}\n\n// wire types\ntype (\n\twuint8 = bits // byte\n)\n\ntype wbool bool\n\nfunc (v wbool) fillProp(data []byte, i int, id Ident) int {\n\tif !v {\n\t\treturn 0\n\t}\n\tn := i\n\ti += id.fill(data, i)\n\ti += v.fill(data, i)\n\treturn i - n\n}\nfunc (v wbool) fill(data []byte, i int) int {\n\tif len(data) >= i+1 {\n\t\tif v {\n\t\t\tdata[i] = 0x01\n\t\t} else {\n\t\t\tdata[i] = 0x00\n\t\t}\n\t}\n\treturn 1\n}\nfunc (v *wbool) UnmarshalBinary(data []byte) error {\n\tif len(data) < 1 {\n\t\treturn ErrMissingData\n\t}\n\tswitch data[0] {\n\tcase 0:\n\t\t*v = wbool(false)\n\tcase 1:\n\t\t*v = wbool(true)\n\tdefault:\n\t\treturn fmt.Errorf(\"malformed bool\")\n\t}\n\treturn nil\n}\nfunc (v wbool) width() int { return 1 }\n\n// https://docs.oasis-open.org/mqtt/mqtt/v5.0/os/mqtt-v5.0-os.html#_Toc3901007\ntype bits byte\n\nfunc (v bits) Has(b byte) bool { return byte(v)&b == b }\n\nfunc (v bits) fillProp(data []byte, i int, id Ident) int {\n\tif v == 0 {\n\t\treturn 0\n\t}\n\tn := i\n\ti += id.fill(data, i)\n\ti += v.fill(data, i)\n\treturn i - n\n}\n\nfunc (v bits) fill(data []byte, i int) int {\n\tif len(data) >= i+1 {\n\t\tdata[i] = byte(v)\n\t}\n\treturn 1\n}\n\n// fillOpt fills the bits if > 0\nfunc (v bits) fillOpt(data []byte, i int) int {\n\tif v == 0 {\n\t\treturn 0\n\t}\n\treturn v.fill(data, i)\n}\n\nfunc (v *bits) ReadFrom(r io.Reader) (int64, error) {\n\tdata := make([]byte, 1)\n\tif n, err := io.ReadFull(r, data); err != nil {\n\t\treturn int64(n), err\n\t}\n\treturn 1, v.UnmarshalBinary(data)\n}\nfunc (v *bits) UnmarshalBinary(data []byte) error {\n\tif len(data) < 1 {\n\t\treturn ErrMissingData\n\t}\n\t*v = bits(data[0])\n\treturn nil\n}\nfunc (v bits) width() int { return 1 }\nfunc (v *bits) toggle(flag byte, on bool) {\n\tif on {\n\t\t*v = *v | bits(flag)\n\t\treturn\n\t}\n\t*v = *v & bits(^flag)\n}\n\n// https://docs.oasis-open.org/mqtt/mqtt/v5.0/os/mqtt-v5.0-os.html#_Toc3901008\ntype wuint16 uint16\n\nfunc (v wuint16) fillProp(data []byte, i int, id Ident) int {\n\tif v == 0 {\n\t\treturn 0\n\t}\n\tn := i\n\ti += id.fill(data, i)\n\ti += v.fill(data, i)\n\treturn i - n\n}\n\nfunc (v wuint16) fill(data []byte, i int) int {\n\tif len(data) >= i+2 {\n\t\tbinary.BigEndian.PutUint16(data[i:], uint16(v))\n\t}\n\treturn 2\n}\n\nfunc (v *wuint16) UnmarshalBinary(data []byte) error {\n\tif len(data) < 2 {\n\t\treturn ErrMissingData\n\t}\n\t*v = wuint16(binary.BigEndian.Uint16(data))\n\treturn nil\n}\n\nfunc (v wuint16) width() int { return 2 }\n\n// https://docs.oasis-open.org/mqtt/mqtt/v5.0/os/mqtt-v5.0-os.html#_Toc3901009\ntype wuint32 uint32\n\nfunc (v wuint32) fillProp(data []byte, i int, id Ident) int {\n\tif v == 0 {\n\t\treturn 0\n\t}\n\tn := i\n\ti += id.fill(data, i)\n\ti += v.fill(data, i)\n\treturn i - n\n}\n\nfunc (v wuint32) fill(data []byte, i int) int {\n\tif len(data) >= i+v.width() {\n\t\tbinary.BigEndian.PutUint32(data[i:], uint32(v))\n\t}\n\treturn v.width()\n}\n\nfunc (v *wuint32) UnmarshalBinary(data []byte) error {\n\tif len(data) < 4 {\n\t\treturn ErrMissingData\n\t}\n\t*v = wuint32(binary.BigEndian.Uint32(data))\n\treturn nil\n}\n\nfunc (v wuint32) width() int { return 4 }\n\n// only here to fulfill interface\nfunc (v Ident) fillProp(data []byte, i int, id Ident) int { return 0 }\n\nfunc (v Ident) fill(data []byte, i int) int {\n\tif len(data) >= i+1 {\n\t\tdata[i] = byte(v)\n\t}\n\treturn 1\n}\n\nfunc (v *Ident) UnmarshalBinary(data []byte) error {\n\tif len(data) < 1 {\n\t\treturn ErrMissingData\n\t}\n\t*v = Ident(data[0])\n\treturn nil\n}\n\nfunc (v Ident) width() int { return 1 }", "\ti := len(key) + 2\n\tvar val wstring\n\tif err := val.UnmarshalBinary(data[i:]); err != nil {\n\t\treturn unmarshalErr(v, \"value\", err.(*Malformed))\n\t}\n\t// key and value share one string, a single conversion instead of\n\t// one per element\n\ts := text(data[2:])\n\tv[0] = s[:len(key)]\n\tv[1] = s[i : i+len(val)]\n\treturn nil\n}\nfunc (v UserProp) String() string {\n\treturn fmt.Sprintf(\"%s:%s\", v[0], v[1])\n}\nfunc (v UserProp) width() int {\n\treturn wstring(v[0]).width() + wstring(v[1]).width()\n}\n\n// https://docs.oasis-open.org/mqtt/mqtt/v5.0/os/mqtt-v5.0-os.html#_Toc3901010\ntype wstring = bindata\n\n// https://docs.oasis-open.org/mqtt/mqtt/v5.0/os/mqtt-v5.0-os.html#_Toc3901012\ntype bindata []byte\n\nfunc (v bindata) fillProp(data []byte, i int, id Ident) int {\n\tif len(v) == 0 {\n\t\treturn 0\n\t}\n\tn := i\n\ti += id.fill(data, i)\n\ti += v.fill(data, i)\n\treturn i - n\n}\nfunc (v bindata) fill(data []byte, i int) int {\n\tif len(data) >= i+v.width() {\n\t\ti += wuint16(len(v)).fill(data, i)\n\t\tcopy(data[i:], []byte(v))\n\t}\n\treturn v.width()\n}\n\nfunc (v *bindata) UnmarshalBinary(data []byte) error {\n\tif len(data) < 2 {\n\t\treturn unmarshalErr(v, \"\", \"missing data\")\n\t}\n\tlength := int(binary.BigEndian.Uint16(data))\n\tif len(data) < length+2 {\n\t\treturn unmarshalErr(v, \"\", \"missing data\")\n\t}\n\tif length == 0 {\n\t\treturn nil\n\t}\n\t*v = make([]byte, length)\n\tcopy(*v, data[2:length+2])\n\treturn nil\n}\n\nfunc (v bindata) width() int {\n\treturn 2 + len(v)\n}\n\ntype rawdata []byte\n\nfunc (v *rawdata) UnmarshalBinary(data []byte) error {\n\t*v = make([]byte, len(data))\n\tcopy(*v, data)\n\treturn nil\n}\nfunc (v rawdata) fill(data []byte, i int) int {\n\tif len(data) >= i+v.width() {\n\t\treturn copy(data[i:], []byte(v))\n\t}\n\treturn v.width()\n}\nfunc (v rawdata) width() int {\n\treturn len(v)\n}\n\n// fillProp is here to fullfill the wireType interface, though it\n// cannot be used as a property as the length is not written. fillProp\n// always panics.\nfunc (v rawdata) fillProp(data []byte, i int, id Ident) int {\n\tpanic(\"cannot use rawdata as property\")\n}\n\n// https://docs.oasis-open.org/mqtt/mqtt/v5.0/os/mqtt-v5.0-os.html#_Toc3901011\ntype vbint uint\n\nfunc (v vbint) fillProp(data []byte, i int, id Ident) int {\n\tif v == 0 {\n\t\treturn 0\n\t}\n\tn := i\n\ti += id.fill(data, i)\n\ti += v.fill(data, i)\n\treturn i - n\n}\n\nfunc (v vbint) fill(data []byte, i int) int {\n\tx := v\n\tn := i\n\tfor {\n\t\tencodedByte := byte(x % 128)\n\t\tx = x / 128\n\t\tif x > 0 {\n\t\t\tencodedByte = encodedByte | 128\n\t\t}\n\t\tif i < len(data) {\n\t\t\tdata[i] = encodedByte\n\t\t}\n\t\ti++\n\t\tif x == 0 {\n\t\t\tbreak\n\t\t}\n\t}\n\treturn i - n\n}\n\nfunc (v vbint) width() int {\n\treturn v.fill(_LEN, 0)\n}\n\nfunc (v *vbint) ReadFrom(r io.Reader) (int64, error) {\n\tvar multiplier uint = 1\n\tvar value uint\n\tdata := make([]byte, 1)\n\tvar i int64\n\tfor {\n\t\tif _, err := io.ReadFull(r, data); err != nil {\n\t\t\treturn i, err\n\t\t}\n\t\ti++\n\t\tencodedByte := data[0]\n\t\tvalue += uint(encodedByte) & uint(127) * multiplier\n\t\tif multiplier > 128*128*128 {\n\t\t\treturn i, unmarshalErr(v, \"\", \"size exceeded\")\n\t\t}\n\t\tif encodedByte&128 == 0 {\n\t\t\tbreak\n\t\t}\n\t\tmultiplier = multiplier * 128\n\t}\n\t*v = vbint(value)\n\treturn i, nil\n}\n\n// UnmarshalBinary data, returns nil or *Malformed error\nfunc (v *vbint) UnmarshalBinary(data []byte) error {\n\tif len(data) == 0 {\n\t\treturn unmarshalErr(v, \"\", \"missing data\")\n\t}\n\tvar multiplier uint = 1\n\tvar value uint\n\tfor _, encodedByte := range data {\n\t\tvalue += uint(encodedByte) & uint(127) * multiplier\n\t\tif multiplier > 128*128*128 {\n\t\t\treturn unmarshalErr(v, \"\", \"size exceeded\")\n\t\t}\n\t\tif encodedByte&128 == 0 {\n\t\t\t*v = vbint(value)\n\t\t\treturn nil\n\t\t}\n\t\tmultiplier = multiplier * 128\n\t}\n\treturn unmarshalErr(v, \"\", \"missing data\")\n}\n\n// wire types\ntype (\n\twuint8 = bits // byte\n)\n\ntype wbool bool\n\nfunc (v wbool) fillProp(data []byte, i int, id Ident) int {\n\tif !v {\n\t\treturn 0\n\t}\n\tn := i\n\ti += id.fill(data, i)\n\ti += v.fill(data, i)\n\treturn i - n\n}\nfunc (v wbool) fill(data []byte, i int) int {\n\tif len(data) >= i+1 {\n\t\tif v {\n\t\t\tdata[i] = 0x01\n\t\t} else {\n\t\t\tdata[i] = 0x00\n\t\t}\n\t}\n\treturn 1\n}\nfunc (v *wbool) UnmarshalBinary(data []byte) error {\n\tif len(data) < 1 {\n\t\treturn ErrMissingData\n\t}\n\tswitch data[0] {\n\tcase 0:\n\t\t*v = wbool(false)\n\tcase 1:\n\t\t*v = wbool(true)\n\tdefault:\n\t\treturn fmt.Errorf(\"malformed bool\")\n\t}\n\treturn nil\n}\nfunc (v wbool) width() int { return 1 }\n\n// https://docs.oasis-open.org/mqtt/mqtt/v5.0/os/mqtt-v5.0-os.html#_Toc3901007\ntype bits byte\n\nfunc (v bits) Has(b byte) bool { return byte(v)&b == b }\n\nfunc (v bits) fillProp(data []byte, i int, id Ident) int {\n\tif v == 0 {\n\t\treturn 0\n\t}\n\tn := i\n\ti += id.fill(data, i)\n\ti += v.fill(data, i)\n\treturn i - n\n}\n\nfunc (v bits) fill(data []byte, i int) int {\n\tif len(data) >= i+1 {\n\t\tdata[i] = byte(v)\n\t}\n\treturn 1\n}\n\n// fillOpt fills the bits if > 0\nfunc (v bits) fillOpt(data []byte, i int) int {\n\tif v == 0 {\n\t\treturn 0\n\t}\n\treturn v.fill(data, i)\n}\n\nfunc (v *bits) ReadFrom(r io.Reader) (int64, error) {\n\tdata := make([]byte, 1)\n\tif n, err := io.ReadFull(r, data); err != nil {\n\t\treturn int64(n), err\n\t}\n\treturn 1, v.UnmarshalBinary(data)\n}\nfunc (v *bits) UnmarshalBinary(data []byte) error {\n\tif len(data) < 1 {\n\t\treturn ErrMissingData\n\t}\n\t*v = bits(data[0])\n\treturn nil\n}\nfunc (v bits) width() int { return 1 }\nfunc (v *bits) toggle(flag byte, on bool) {\n\tif on {\n\t\t*v = *v | bits(flag)\n\t\treturn\n\t}\n\t*v = *v & bits(^flag)\n}\n\n// https://docs.oasis-open.org/mqtt/mqtt/v5.0/os/mqtt-v5.0-os.html#_Toc3901008\ntype wuint16 uint16\n\nfunc (v wuint16) fillProp(data []byte, i int, id Ident) int {\n\tif v == 0 {\n\t\treturn 0\n\t}\n\tn := i\n\ti += id.fill(data, i)\n\ti += v.fill(data, i)\n\treturn i - n\n}\n\nfunc (v wuint16) fill(data []byte, i int) int {\n\tif len(data) >= i+2 {\n\t\tbinary.BigEndian.PutUint16(data[i:], uint16(v))\n\t}\n\treturn 2\n}\n\nfunc (v *wuint16) UnmarshalBinary(data []byte) error {\n\tif len(data) < 2 {\n\t\treturn ErrMissingData\n\t}\n\t*v = wuint16(binary.BigEndian.Uint16(data))\n\treturn nil\n}\n\nfunc (v wuint16) width() int { return 2 }\n\n// https://docs.oasis-open.org/mqtt/mqtt/v5.0/os/mqtt-v5.0-os.html#_Toc3901009\ntype wuint32 uint32\n\nfunc (v wuint32) fillProp(data []byte, i int, id Ident) int {\n\tif v == 0 {\n\t\treturn 0\n\t}\n\tn := i\n\ti += id.fill(data, i)\n\ti += v.fill(data, i)\n\treturn i - n\n}\n\nfunc (v wuint32) fill(data []byte, i int) int {\n\tif len(data) >= i+v.width() {\n\t\tbinary.BigEndian.PutUint32(data[i:], uint32(v))\n\t}\n\treturn v.width()\n}\n\nfunc (v *wuint32) UnmarshalBinary(data []byte) error {\n\tif len(data) < 4 {\n\t\treturn ErrMissingData\n\t}\n\t*v = wuint32(binary.BigEndian.Uint32(data))\n\treturn nil\n}\n\nfunc (v wuint32) width() int { return 4 }\n\n// only here to fulfill interface\nfunc (v Ident) fillProp(data []byte, i int, id Ident) int { return 0 }\n\nfunc (v Ident) fill(data []byte, i int) int {\n\tif len(data) >= i+1 {\n\t\tdata[i] = byte(v)\n\t}\n\treturn 1\n}\n\nfunc (v *Ident) UnmarshalBinary(data []byte) error {\n\tif len(data) < 1 {\n\t\treturn ErrMissingData\n\t}\n\t*v = Ident(data[0])\n\treturn nil\n}\n\nfunc (v Ident) width() int { return 1 }\n\n// text returns b as a string.\nfunc text(b []byte) string { return string(b) }"}}},
		{Name: "rf8-width-by-a-shift-loop", Silent: true, Edits: []Edit{{"wiretypes.go", "\tx := v\n\tn := i\n\tfor {\n\t\tencodedByte := byte(x % 128)\n\t\tx = x / 128\n\t\tif x > 0 {\n\t\t\tencodedByte = encodedByte | 128\n\t\t}\n\t\tif i < len(data) {\n\t\t\tdata[i] = encodedByte\n\t\t}\n\t\ti++\n\t\tif x == 0 {\n\t\t\tbreak\n\t\t}\n\t}\n\treturn i - n\n}\n\nfunc (v vbint) width() int {\n\treturn v.fill(_LEN, 0)", "\tn := i\n\tx := uint(v)\n\t// all but the last group of 7 bits carry the continuation bit\n\tfor ; x >= 128; x >>= 7 {\n\t\tif i < len(data) {\n\t\t\tdata[i] = byte(x) | 128\n\t\t}\n\t\ti++\n\t}\n\tif i < len(data) {\n\t\tdata[i] = byte(x)\n\t}\n\ti++\n\treturn i - n\n}\n\n// width returns the number of bytes fill writes, one for each started\n// group of 7 bits.\nfunc (v vbint) width() int {\n\tn := 1\n\tfor x := uint(v) >> 7; x > 0; x >>= 7 {\n\t\tn++\n\t}\n\treturn n"}}},
		{Name: "adv5-B1-open-tail-converted-to-a-string-per-item", Rule: "R5.2", Where: "(*UserProp).UnmarshalBinary", Edits: []Edit{{"wiretypes.go", "\tv[0] = string(key)\n\n\ti := len(v[0]) + 2\n\tvar val wstring\n\tif err := val.UnmarshalBinary(data[i:]); err != nil {\n\t\treturn unmarshalErr(v, \"value\", err.(*Malformed))\n\t}\n\tv[1] = string(val)", "\ti := len(key) + 2\n\tvar val wstring\n\tif err := val.UnmarshalBinary(data[i:]); err != nil {\n\t\treturn unmarshalErr(v, \"value\", err.(*Malformed))\n\t}\n\t// key and value share one string, a single conversion instead of\n\t// one per element\n\ts := string(data[2:])\n\tv[0] = s[:len(key)]\n\tv[1] = s[i : i+len(val)]"}}},
		{Name: "rf7-filter-loop-keeps-going-after-an-error", Rule: "R5.1", Where: "(*Subscribe).UnmarshalBinary#loop1", Edits: []Edit{{"buffer.go", "\tb.i += n\n}\n", "\tb.i += n\n}\n\n// getRest reads everything up to the end of data and returns it as\n// a copy. After a failure the result still has the size of the\n// unread data though nothing is read into it.\nfunc (b *buffer) getRest() []byte {\n\trest := make([]byte, len(b.data)-b.i)\n\tif b.err == nil {\n\t\tb.i += copy(rest, b.data[b.i:])\n\t}\n\treturn rest\n}\n"}, {"suback.go", "\tp.reasonCodes = make([]uint8, len(data)-b.i)\n\n\tfor i, _ := range p.reasonCodes {\n\t\tvar v wuint8\n\t\tb.get(&v)\n\t\tp.reasonCodes[i] = uint8(v)\n\t}\n\treturn b.err", "\t// payload, one reason code per byte\n\tp.reasonCodes = b.getRest()\n\treturn b.Err()"}, {"subscribe.go", "\tfor {\n\t\tvar f TopicFilter\n\t\tb.get(&f.filter)\n\t\tb.get(&f.options)\n\t\tif b.err != nil {\n\t\t\tbreak\n\t\t}\n\t\tp.filters = append(p.filters, f)\n\t\tif b.i == len(data) {\n\t\t\tbreak\n\t\t}\n\t}\n\treturn b.err", "\t// payload, the first filter is read even if there is no more\n\t// data as at least one is required\n\tfor more := true; more; more = !b.atEnd() {\n\t\tvar f TopicFilter\n\t\tb.get(&f.filter)\n\t\tb.get(&f.options)\n\t\tif b.Err() == nil {\n\t\t\tp.filters = append(p.filters, f)\n\t\t}\n\t}\n\treturn b.Err()"}, {"unsuback.go", "\tp.reasonCodes = make([]uint8, len(data)-b.i)\n\n\tfor i, _ := range p.reasonCodes {\n\t\tvar v wuint8\n\t\tb.get(&v)\n\t\tp.reasonCodes[i] = uint8(v)\n\t}\n\treturn b.err", "\t// payload, one reason code per byte\n\tp.reasonCodes = b.getRest()\n\treturn b.Err()"}, {"unsubscribe.go", "\tfor {\n\t\tvar f wstring\n\t\tb.get(&f)\n\t\tif b.err != nil {\n\t\t\tbreak\n\t\t}\n\t\tp.filters = append(p.filters, f)\n\t\tif b.i == len(data) {\n\t\t\tbreak\n\t\t}\n\t}\n\treturn b.err", "\t// payload, the first filter is read even if there is no more\n\t// data as at least one is required\n\tfor more := true; more; more = !b.atEnd() {\n\t\tvar f wstring\n\t\tb.get(&f)\n\t\tif b.Err() != nil {\n\t\t\tbreak\n\t\t}\n\t\tp.filters = append(p.filters, f)\n\t}\n\treturn b.Err()"}}},
		{Name: "rf7-filter-loop-tests-the-accessor", Silent: true, Edits: []Edit{{"buffer.go", "\tb.i += n\n}\n", "\tb.i += n\n}\n\n// getRest reads everything up to the end of data and returns it as\n// a copy. After a failure the result still has the size of the\n// unread data though nothing is read into it.\nfunc (b *buffer) getRest() []byte {\n\trest := make([]byte, len(b.data)-b.i)\n\tif b.err == nil {\n\t\tb.i += copy(rest, b.data[b.i:])\n\t}\n\treturn rest\n}\n"}, {"suback.go", "\tp.reasonCodes = make([]uint8, len(data)-b.i)\n\n\tfor i, _ := range p.reasonCodes {\n\t\tvar v wuint8\n\t\tb.get(&v)\n\t\tp.reasonCodes[i] = uint8(v)\n\t}\n\treturn b.err", "\t// payload, one reason code per byte\n\tp.reasonCodes = b.getRest()\n\treturn b.Err()"}, {"subscribe.go", "\tfor {\n\t\tvar f TopicFilter\n\t\tb.get(&f.filter)\n\t\tb.get(&f.options)\n\t\tif b.err != nil {\n\t\t\tbreak\n\t\t}\n\t\tp.filters = append(p.filters, f)\n\t\tif b.i == len(data) {\n\t\t\tbreak\n\t\t}\n\t}\n\treturn b.err", "\t// payload, the first filter is read even if there is no more\n\t// data as at least one is required\n\tfor more := true; more; more = !b.atEnd() {\n\t\tvar f TopicFilter\n\t\tb.get(&f.filter)\n\t\tb.get(&f.options)\n\t\tif b.Err() != nil {\n\t\t\tbreak\n\t\t}\n\t\tp.filters = append(p.filters, f)\n\t}\n\treturn b.Err()"}, {"unsuback.go", "\tp.reasonCodes = make([]uint8, len(data)-b.i)\n\n\tfor i, _ := range p.reasonCodes {\n\t\tvar v wuint8\n\t\tb.get(&v)\n\t\tp.reasonCodes[i] = uint8(v)\n\t}\n\treturn b.err", "\t// payload, one reason code per byte\n\tp.reasonCodes = b.getRest()\n\treturn b.Err()"}, {"unsubscribe.go", "\tfor {\n\t\tvar f wstring\n\t\tb.get(&f)\n\t\tif b.err != nil {\n\t\t\tbreak\n\t\t}\n\t\tp.filters = append(p.filters, f)\n\t\tif b.i == len(data) {\n\t\t\tbreak\n\t\t}\n\t}\n\treturn b.err", "\t// payload, the first filter is read even if there is no more\n\t// data as at least one is required\n\tfor more := true; more; more = !b.atEnd() {\n\t\tvar f wstring\n\t\tb.get(&f)\n\t\tif b.Err() != nil {\n\t\t\tbreak\n\t\t}\n\t\tp.filters = append(p.filters, f)\n\t}\n\treturn b.Err()"}}},
		{Name: "filter-helper-reads-only-when-data-is-left", Rule: "R5.1", Where: "(*Subscribe).UnmarshalBinary", Edits: []Edit{{"subscribe.go", "\tfor {\n\t\tvar f TopicFilter\n\t\tb.get(&f.filter)\n\t\tb.get(&f.options)\n\t\tif b.err != nil {\n\t\t\tbreak\n\t\t}\n\t\tp.filters = append(p.filters, f)\n\t\tif b.i == len(data) {\n\t\t\tbreak\n\t\t}\n\t}\n\treturn b.err", "\t// the payload holds at least one topic filter\n\tfor more := true; more; more = !b.atEnd() {\n\t\tf, err := b.getTopicFilter()\n\t\tif err != nil {\n\t\t\treturn err\n\t\t}\n\t\tp.filters = append(p.filters, f)\n\t}\n\treturn nil\n}\n\n// getTopicFilter reads one filter and its subscription options.\nfunc (b *buffer) getTopicFilter() (f TopicFilter, err error) {\n\tif !b.atEnd() {\n\t\tb.get(&f.filter)\n\t\tb.get(&f.options)\n\t}\n\treturn f, b.err"}, {"unsubscribe.go", "\tfor {\n\t\tvar f wstring\n\t\tb.get(&f)\n\t\tif b.err != nil {\n\t\t\tbreak\n\t\t}\n\t\tp.filters = append(p.filters, f)\n\t\tif b.i == len(data) {\n\t\t\tbreak\n\t\t}\n\t}\n\treturn b.err", "\t// the payload holds at least one topic filter\n\tfor more := true; more; more = !b.atEnd() {\n\t\tvar f wstring\n\t\tif b.get(&f); b.err != nil {\n\t\t\treturn b.err\n\t\t}\n\t\tp.filters = append(p.filters, f)\n\t}\n\treturn nil"}}},
		{Name: "property-loop-builds-a-string-by-concatenation", Rule: "R5.2", Where: "(*buffer).getAny", Edits: []Edit{{"buffer.go", "\tfor b.i < end {\n\t\tb.get(&id)\n\t\t// first failure stops the parsing\n\t\tif b.err != nil {\n\t\t\treturn\n\t\t}\n\t\tfield, hasField := fields[id]\n\t\tif hasField {\n\t\t\tb.get(field())\n\t\t\tcontinue\n\t\t}\n\t\tswitch id {\n\t\tcase UserProperty:\n\t\t\tvar p UserProp\n\t\t\tb.get(&p)\n\t\t\taddProp(p)\n\n\t\tcase SubscriptionID:\n\t\t\tvar sub vbint\n\t\t\tb.get(&sub)\n\t\t\tif b.addSubscriptionID != nil {\n\t\t\t\tb.addSubscriptionID(uint32(sub))\n\t\t\t}\n\n\t\tdefault:\n\t\t\tb.err = fmt.Errorf(\"unknown property id 0x%02x\", id)", "\tvar seen string // identifiers read so far, for the error message\n\tfor b.i < end {\n\t\tb.get(&id)\n\t\t// first failure stops the parsing\n\t\tif b.err != nil {\n\t\t\treturn\n\t\t}\n\t\tseen += fmt.Sprintf(\" %02x\", byte(id))\n\t\tfield, hasField := fields[id]\n\t\tif hasField {\n\t\t\tb.get(field())\n\t\t\tcontinue\n\t\t}\n\t\tswitch id {\n\t\tcase UserProperty:\n\t\t\tvar p UserProp\n\t\t\tb.get(&p)\n\t\t\taddProp(p)\n\n\t\tcase SubscriptionID:\n\t\t\tvar sub vbint\n\t\t\tb.get(&sub)\n\t\t\tif b.addSubscriptionID != nil {\n\t\t\t\tb.addSubscriptionID(uint32(sub))\n\t\t\t}\n\n\t\tdefault:\n\t\t\tb.err = fmt.Errorf(\"unknown property id 0x%02x, read so far:%s\", id, seen)"}}},
		{Name: "reason-code-count-taken-from-the-wire", Rule: "R5.1", Where: "(*SubAck).UnmarshalBinary", Edits: []Edit{{"suback.go", "\tp.reasonCodes = make([]uint8, len(data)-b.i)\n\n\tfor i, _ := range p.reasonCodes {\n\t\tvar v wuint8\n\t\tb.get(&v)\n\t\tp.reasonCodes[i] = uint8(v)\n\t}", "\tvar count wuint16\n\tb.get(&count)\n\tfor k := 0; k < int(count); k++ {\n\t\tp.reasonCodes = append(p.reasonCodes, 0)\n\t}"}}},
		{Name: "loop-counted-by-the-length-of-the-list-it-appends-to", Silent: true, Edits: []Edit{{"suback.go", "\tp.reasonCodes = make([]uint8, len(data)-b.i)\n\n\tfor i, _ := range p.reasonCodes {\n\t\tvar v wuint8\n\t\tb.get(&v)\n\t\tp.reasonCodes[i] = uint8(v)\n\t}", "\tleft := len(data) - b.i\n\tcodes := make([]uint8, 0, left)\n\tfor len(codes) < left {\n\t\tvar v wuint8\n\t\tb.get(&v)\n\t\tcodes = append(codes, uint8(v))\n\t}\n\tp.reasonCodes = codes"}}},
		{Name: "append-loop-that-does-not-always-append", Rule: "R5.1", Where: "(*SubAck).UnmarshalBinary", Edits: []Edit{{"suback.go", "\tp.reasonCodes = make([]uint8, len(data)-b.i)\n\n\tfor i, _ := range p.reasonCodes {\n\t\tvar v wuint8\n\t\tb.get(&v)\n\t\tp.reasonCodes[i] = uint8(v)\n\t}", "\tleft := len(data) - b.i\n\tcodes := make([]uint8, 0, left)\n\tfor len(codes) < left {\n\t\tvar v wuint8\n\t\tb.get(&v)\n\t\tif v != 0 {\n\t\t\tcodes = append(codes, uint8(v))\n\t\t}\n\t}\n\tp.reasonCodes = codes"}}},
		{Name: "append-loop-counted-by-a-number-from-the-wire", Rule: "R5.1", Where: "(*SubAck).UnmarshalBinary", Edits: []Edit{{"suback.go", "\tp.reasonCodes = make([]uint8, len(data)-b.i)\n\n\tfor i, _ := range p.reasonCodes {\n\t\tvar v wuint8\n\t\tb.get(&v)\n\t\tp.reasonCodes[i] = uint8(v)\n\t}", "\tvar count wuint16\n\tb.get(&count)\n\tvar codes []uint8\n\tfor len(codes) < int(count) {\n\t\tvar v wuint8\n\t\tb.get(&v)\n\t\tcodes = append(codes, uint8(v))\n\t}\n\tp.reasonCodes = codes"}}},
		{Name: "map-presized-from-the-property-length", Rule: "R5.2", Where: "(*buffer).getAny#makemap", Edits: []Edit{{"buffer.go", "\tend := b.i + int(propLen)\n", "\tend := b.i + int(propLen)\n\tseen := make(map[Ident]bool, propLen/2)\n\t_ = seen\n"}}},
		{Name: "pair-decoder-copies-the-rest-of-the-frame", Rule: "R5.2", Where: "(*UserProp).UnmarshalBinary", Edits: []Edit{{"wiretypes.go", "func (v *UserProp) UnmarshalBinary(data []byte) error {\n", "func (v *UserProp) UnmarshalBinary(data []byte) error {\n\town := make([]byte, len(data))\n\tcopy(own, data)\n\tdata = own\n"}}},
		{Name: "subscribe-loop-ignores-error", Rule: "R5.1", Where: "(*Subscribe).UnmarshalBinary", Edits: []Edit{{"subscribe.go", "\t\tb.get(&f.options)\n\t\tif b.err != nil {\n\t\t\tbreak\n\t\t}\n", "\t\tb.get(&f.options)\n"}}},
		{Name: "unsubscribe-loop-ignores-error", Rule: "R5.1", Where: "(*Unsubscribe).UnmarshalBinary", Edits: []Edit{{"unsubscribe.go", "\t\tb.get(&f)\n\t\tif b.err != nil {\n\t\t\tbreak\n\t\t}\n", "\t\tb.get(&f)\n"}}},
		{Name: "property-loop-ignores-error", Rule: "R5.1", Where: "(*buffer).getAny", Edits: []Edit{{"buffer.go", "\t\tif b.err != nil {\n\t\t\treturn\n\t\t}\n\t\tfield, hasField", "\t\tfield, hasField"}}},
		{Name: "reason-codes-oversized", Rule: "R5.2", Where: "(*SubAck).UnmarshalBinary", Edits: []Edit{{"suback.go", "make([]uint8, len(data)-b.i)", "make([]uint8, (len(data)-b.i)*1000)"}}},
		{Name: "string-allocated-before-check", Rule: "R5.2", Where: "(*bindata).UnmarshalBinary", Edits: []Edit{{"wiretypes.go", "\tif len(data) < length+2 {\n\t\treturn unmarshalErr(v, \"\", \"missing data\")\n\t}\n\tif length == 0 {\n\t\treturn nil\n\t}\n\t*v = make([]byte, length)\n", "\tif length == 0 {\n\t\treturn nil\n\t}\n\t*v = make([]byte, length)\n\tif len(data) < length+2 {\n\t\treturn unmarshalErr(v, \"\", \"missing data\")\n\t}\n"}}},
		{Name: "get-loses-stickiness", Rule: "R5.0", Where: "(*buffer).get", Edits: []Edit{{"buffer.go", "func (b *buffer) get(v wireType) {\n\tif b.err != nil {\n\t\treturn\n\t}\n", "func (b *buffer) get(v wireType) {\n"}}},
		{Name: "vbi-guard-dropped", Rule: "R5.1", Where: "(*vbint).ReadFrom", Edits: []Edit{{"wiretypes.go", "\t\tif multiplier > 128*128*128 {\n\t\t\treturn i, unmarshalErr(v, \"\", \"size exceeded\")\n\t\t}\n\t\tif encodedByte&128 == 0 {\n\t\t\tbreak\n\t\t}", "\t\tif encodedByte&128 == 0 {\n\t\t\tbreak\n\t\t}"}}},
		{Name: "adv4-B-scan-of-the-rest-per-property", Rule: "R5.4", Where: "getAny", Edits: []Edit{{"buffer.go", "import (\n\t\"fmt\"\n)", "import (\n\t\"bytes\"\n\t\"fmt\"\n)"}, {"buffer.go", "\tfor b.i < end {\n\t\tb.get(&id)", "\tfor b.i < end {\n\t\tif bytes.IndexByte(b.data[b.i:], 0) == 0 {\n\t\t\tb.err = fmt.Errorf(\"zero property id\")\n\t\t\treturn\n\t\t}\n\t\tb.get(&id)"}}},
		{Name: "scan-of-one-byte-per-property", Silent: true, Edits: []Edit{{"buffer.go", "import (\n\t\"fmt\"\n)", "import (\n\t\"bytes\"\n\t\"fmt\"\n)"}, {"buffer.go", "\tfor b.i < end {\n\t\tb.get(&id)", "\tfor b.i < end {\n\t\tif b.i < len(b.data) && bytes.IndexByte(b.data[b.i:b.i+1], 0) == 0 {\n\t\t\tb.err = fmt.Errorf(\"zero property id\")\n\t\t\treturn\n\t\t}\n\t\tb.get(&id)"}}},
		{Name: "user-properties-clipped-before-each-append", Rule: "R5.4", Where: "appendUserProperty", Edits: []Edit{
			{"userprop.go", "\t*p = append(*p, prop)", "\t*p = append(slices.Clip(*p), prop)"},
			{"userprop.go", "import (\n", "import (\n\t\"slices\"\n"}}},
		{Name: "decoder-takes-lock", Rule: "R5.3", Where: "blocking", Edits: []Edit{
			{"packet.go", "func ReadPacket(r io.Reader) (ControlPacket, error) {\n", "var readMu sync.Mutex\n\nfunc ReadPacket(r io.Reader) (ControlPacket, error) {\n\treadMu.Lock()\n\tdefer readMu.Unlock()\n"},
			{"packet.go", "import (\n", "import (\n\t\"sync\"\n"}}},
		{Name: "error-test-after-each-get", Silent: true, Edits: []Edit{{"subscribe.go", "\t\tb.get(&f.filter)\n", "\t\tb.get(&f.filter)\n\t\tif b.err != nil {\n\t\t\tbreak\n\t\t}\n"}}},
	}})
}

// blockingInstr reports instructions that can block or spawn.
func blockingInstr(ins ssa.Instruction) string {
	switch x := ins.(type) {
	case *ssa.Send:
		return "channel send"
	case *ssa.Select:
		return "select"
	case *ssa.Go:
		return "go statement"
	case *ssa.MakeChan:
		return "channel"
	case *ssa.UnOp:
		if x.Op == token.ARROW {
			return "channel receive"
		}
	case *ssa.Call:
		if sc := x.Call.StaticCallee(); sc != nil && sc.Blocks == nil {
			n := fullName(sc)
			for _, pre := range []string{"(*sync.", "sync.", "time.Sleep", "time.After", "time.Tick", "(*time.Timer", "runtime.Gosched", "os."} {
				if strings.HasPrefix(n, pre) {
					return "call of " + n
				}
			}
		}
	}
	return ""
}

// boundFromLen: the bound is len(x) (minus/plus constants, through conversions), or provably at most the length
// of a slice parameter of the function.
func boundFromLen(p *Prog, fn *ssa.Function, l *Loop, bound ssa.Value) bool {
	var fromLen func(v ssa.Value, d int) bool
	fromLen = func(v ssa.Value, d int) bool {
		if d > 6 {
			return false
		}
		switch x := v.(type) {
		case *ssa.Call:
			if bi, ok := x.Call.Value.(*ssa.Builtin); ok && (bi.Name() == "len" || bi.Name() == "cap") {
				return true
			}
		case *ssa.Convert:
			return fromLen(x.X, d+1)
		case *ssa.ChangeType:
			return fromLen(x.X, d+1)
		case *ssa.BinOp:
			if x.Op == token.ADD || x.Op == token.SUB {
				if _, isC := constInt(x.Y); isC {
					return fromLen(x.X, d+1)
				}
				if x.Op == token.SUB {
					return fromLen(x.X, d+1) // len(a) - something
				}
			}
			if x.Op == token.QUO || x.Op == token.SHR {
				return fromLen(x.X, d+1)
			}
		case *ssa.Phi:
			for _, e := range x.Edges {
				if !fromLen(e, d+1) {
					return false
				}
			}
			return len(x.Edges) > 0
		}
		return false
	}
	if fromLen(bound, 0) {
		return true
	}
	pr := NewProver(p, fn)
	pr.assumeContracts()
	bl := pr.lin(bound)
	for _, prm := range fn.Params {
		if _, ok := prm.Type().Underlying().(*types.Slice); !ok {
			continue
		}
		if pr.Prove(l.Header, pr.lenOf(prm).sub(bl)) {
			return true
		}
	}
	return false
}

func ruleLoops(p *Prog, c *Check, rule string, scope map[*ssa.Function]bool) (nloops int) {
	type lenLoop struct {
		nl namedLoop
	}
	var lenLoops []namedLoop
	for _, nl := range p.loopsIn(scope) {
		nloops++
		c.Fn(qname(nl.Fn))
		pos := posOf(p, nl.L.Header.Instrs[0])
		lc, ok := p.classifyLoop(nl.Fn, nl.L)
		if !ok {
			c.Unk(rule, nl.Name, pos, "loop is of no recognised terminating shape (range / counted / reader-driven with error exit / geometric or divisive counter)")
			continue
		}
		if rule == "R5.1" && lc.Kind == "counted" && lc.Bound != "const" && lc.BoundVal != nil && !boundFromLen(p, nl.Fn, nl.L, lc.BoundVal) {
			// on the decode path a loop-invariant bound that is neither a constant nor the length of something present
			// is a number from the wire: a few bytes can make the decoder run (and append) as often as they say
			c.Unk(rule, nl.Name, pos, "counted loop whose bound ("+describeVal(lc.BoundVal)+") is not the length of data that is present: the number of iterations is governed by a value inside the frame, not by the frame's size")
			continue
		}
		c.OK(rule, nl.Name, pos, fmt.Sprintf("%s loop, bound %s: %s", lc.Kind, lc.Bound, lc.Why))
		if lc.Bound == "len" {
			lenLoops = append(lenLoops, nl)
		}
	}
	// nesting: no length-bounded loop inside (the call tree of) a length-bounded loop
	inner := map[*ssa.Function]bool{}
	for _, nl := range lenLoops {
		inner[nl.Fn] = true
	}
	for _, nl := range lenLoops {
		bad := ""
		// loops nested lexically
		for _, il := range nl.L.InnerLoops() {
			if lc, ok := p.classifyLoop(nl.Fn, il); !ok || lc.Bound == "len" {
				bad = "contains a nested loop whose bound is not constant"
			}
		}
		// loops reached through calls made from the loop body
		var roots []*ssa.Function
		for b := range nl.L.Blocks {
			for _, ins := range b.Instrs {
				if site, ok := ins.(ssa.CallInstruction); ok {
					callees, _ := p.CG().Callees(site)
					roots = append(roots, callees...)
				}
			}
		}
		for f := range p.Reach(roots) {
			if !inner[f] {
				continue
			}
			for _, l2 := range AllLoops(f) {
				if lc, ok := p.classifyLoop(f, l2); !ok || lc.Bound == "len" {
					bad = "calls " + qname(f) + ", which contains a length-bounded loop: work would be quadratic in the frame size"
				}
			}
		}
		if bad != "" {
			c.Unk(rule, nl.Name+"#nesting", posOf(p, nl.L.Header.Instrs[0]), bad)
		} else {
			c.OK(rule, nl.Name+"#nesting", posOf(p, nl.L.Header.Instrs[0]), "every loop reachable from the body has a constant bound: total work is linear")
		}
	}
	return nloops
}

func ruleNoBlocking(p *Prog, c *Check, rule string, scope map[*ssa.Function]bool) {
	if cyc := p.callCycle(scope); cyc != "" {
		c.Unk(rule, "recursion", "-", "recursive call chain: "+cyc)
	} else {
		c.OK(rule, "recursion", "-", fmt.Sprintf("the call graph of the %d analysed functions is acyclic", len(scope)))
	}
	n := 0
	for _, fn := range sortedFuncs(scope) {
		for _, b := range fn.Blocks {
			for _, ins := range b.Instrs {
				if w := blockingInstr(ins); w != "" {
					n++
					c.Bad(rule, fmt.Sprintf("%s#blocking%d", qname(fn), n), posOf(p, ins), "blocking or concurrent primitive: "+w)
				}
			}
		}
	}
	if n == 0 {
		c.OK(rule, "blocking primitives", "-", "no channel operation, select, goroutine, lock, sleep or os call in the analysed functions")
	}
}

func checkC05(p *Prog, c *Check) {
	c.Rule("R5.0", "lemmas about the sequential reader (same as C04 R4.0): once the error is set the guarded primitive is a no-op; otherwise it sets a non-nil error or advances the offset by width() within len(data)")
	c.Rule("R5.1", "every loop on the decode path is a range/counted loop over a loop-invariant bound, a loop in which every cycle reads a value of width >= 1 through the guarded primitive and leaves on the sticky error, or a geometric/divisive counter loop with constant bound; length-bounded loops are not nested")
	c.Rule("R5.2", "every allocation on the decode path has constant size, the declared frame size (bounded by L-vbi), or a size proven <= the length of the bytes present; every append adds a constant number of elements")
	c.Rule("R5.4", "every library function called on the decode path is one of the modelled ones, whose work is proportional to its arguments (an unmodelled call — e.g. one that re-allocates a list per element — is undecided)")
	c.Rule("R5.3", "no recursion and no blocking or concurrent primitive is reachable from the decoders")
	c.Explanation = "Structural sufficient condition for 'work and memory proportional to the declared length': loops are classified from their SSA shape (cycles found as strongly connected components; 'on every cycle' means removing the block breaks all cycles); allocation sizes are compared with len(data) by the linear prover of C04. The quantitative constants (time per byte) are not decided."
	c.Trusted = []string{"go/types + go/ssa (x/tools v0.29.0) faithful IR", "builtin copy/append/make cost is linear in the sizes involved"}
	c.NotDecided = []string{"constant factors and wall-clock time", "stack depth"}
	roots := p.Roots()
	e, scope := p.decodeEffects()
	p.cache["specctx"] = e
	p.cache["spectag"] = "dec"
	defer func() { delete(p.cache, "specctx"); delete(p.cache, "spectag") }()
	for f := range scope {
		c.Fn(qname(f))
	}
	cur := p.Cursor()
	cur.CheckLemmas(p, c, "R5.0")
	n := ruleLoops(p, c, "R5.1", scope)
	c.Measured["loops_on_decode_path"] = n
	c.Floor("loops on the decode path", n, 3, "the property list, the filter lists and the length header are read in loops")

	// R5.2
	nalloc, nappend := 0, 0
	for _, fn := range sortedFuncs(scope) {
		pr := NewProver(p, fn)
		pr.assumeContracts()
		ia := 0
		for _, b := range fn.Blocks {
			if pr.Infeasible(b) {
				continue
			}
			for _, ins := range b.Instrs {
				switch x := ins.(type) {
				case *ssa.BinOp:
					// a string that grows by concatenation on every turn of a loop is copied in full each time: work
					// and allocation quadratic in the number of iterations (`seen += fmt.Sprintf(" %02x", id)`)
					if x.Op != token.ADD || !isStringT(x.Type().Underlying()) {
						continue
					}
					lp := loopContaining(fn, b)
					if lp == nil {
						continue
					}
					grows := false
					for _, o := range []ssa.Value{x.X, x.Y} {
						if ph, ok := o.(*ssa.Phi); ok && lp.Has(ph.Block()) {
							for i, e := range ph.Edges {
								if lp.Has(ph.Block().Preds[i]) && dependsOn(e, func(v ssa.Value) bool { return v == ssa.Value(x) }, map[ssa.Value]bool{}) {
									grows = true
								}
							}
						}
					}
					if grows {
						ia++
						c.Bad("R5.2", fmt.Sprintf("%s#concat%d", qname(fn), ia), posOf(p, ins), "a string is extended by concatenation on every iteration of a loop on the decode path: each step copies what was built so far, so the work is quadratic in the number of items")
					}
				case *ssa.Convert:
					// string(bytes) / []byte(text) allocates and copies its operand: in a per-item wire decoder the operand
					// must not be (a tail of) the open-ended input
					_, toStr := x.Type().Underlying().(*types.Basic)
					_, fromStr := x.X.Type().Underlying().(*types.Basic)
					isBytes := func(t types.Type) bool { return isByteSlice(t) }
					if !((toStr && isStringT(x.Type().Underlying()) && isBytes(x.X.Type())) || (fromStr && isStringT(x.X.Type().Underlying()) && isBytes(x.Type()))) {
						continue
					}
					if p.isWireDecoder(fn) && len(fn.Params) == 2 {
						if pt, ok := fn.Params[0].Type().Underlying().(*types.Pointer); ok && p.wireKindOf(pt.Elem()) != "raw" {
							l := pr.lenOf(x.X)
							if k := l.coef["len("+pr.key(fn.Params[1])+")"]; k > 0 {
								ia++
								c.Unk("R5.2", fmt.Sprintf("%s#convert%d", qname(fn), ia), posOf(p, ins), "a per-item wire decoder converts (allocates and copies) "+l.String()+" bytes — proportional to the whole rest of the frame it is handed, on every item: quadratic over a frame's items")
							}
						}
					} else {
						// the same in a helper (`text(b) = string(b)`) that a per-item wire decoder hands the open tail of its input
						root := x.X
						if sl, isSl := root.(*ssa.Slice); isSl && sl.High == nil {
							root = sl.X
						}
						if hp, isP := root.(*ssa.Parameter); isP {
							hk := paramIndex(fn, hp)
							if sites, okS := p.staticCallSites(fn); okS && hk >= 0 {
								for _, site := range sites {
									caller := site.Parent()
									if !p.isWireDecoder(caller) || len(caller.Params) != 2 || hk >= len(site.Call.Args) {
										continue
									}
									if pt, ok := caller.Params[0].Type().Underlying().(*types.Pointer); !ok || p.wireKindOf(pt.Elem()) == "raw" {
										continue
									}
									arg := site.Call.Args[hk]
									if sl, isSl := arg.(*ssa.Slice); isSl && sl.High == nil {
										arg = sl.X
									}
									if arg == ssa.Value(caller.Params[1]) {
										ia++
										c.Unk("R5.2", fmt.Sprintf("%s#convert%d", qname(fn), ia), posOf(p, ins), "converts (allocates and copies) its whole argument, and the per-item wire decoder "+qname(caller)+" hands it the open-ended rest of the frame: quadratic over a frame's items")
									}
								}
							}
						}
					}
				case *ssa.MakeSlice:
					nalloc++
					ia++
					cons := fmt.Sprintf("%s#make%d", qname(fn), ia)
					pos := posOf(p, ins)
					if bound, why, ok := p.lvbiRange(x.Len); ok && bound.IsInt64() {
						pr.atomRange(pr.key(stripConvs(x.Len)), 0, float64(bound.Int64()))
						pr.linMemo = map[ssa.Value]*Lin{}
						c.OK("R5.2", cons, pos, "sized by the declared frame length; "+why)
						continue
					}
					l := pr.lin(x.Len)
					if l.isConst() {
						c.OK("R5.2", cons, pos, fmt.Sprintf("constant size %d", l.c))
						continue
					}
					// a wire decoder is called once per item with the open-ended rest of the frame as input: only the
					// decoder of the "rest of the frame" kind may allocate in proportion to that input
					if p.isWireDecoder(fn) && len(fn.Params) == 2 {
						if pt, ok := fn.Params[0].Type().Underlying().(*types.Pointer); ok && p.wireKindOf(pt.Elem()) != "raw" {
							if k := l.coef["len("+pr.key(fn.Params[1])+")"]; k > 0 {
								c.Unk("R5.2", cons, pos, "a per-item wire decoder allocates "+l.String()+" bytes — proportional to the whole rest of the frame it is handed, on every item: quadratic over a frame's items")
								continue
							}
						}
					}
					done := false
					for _, prm := range fn.Params {
						if _, ok := prm.Type().Underlying().(*types.Slice); !ok {
							continue
						}
						if pr.Prove(b, pr.lenOf(prm).sub(l)) {
							c.OK("R5.2", cons, pos, fmt.Sprintf("size %s <= len(%s): bounded by the bytes present", l, prm.Name()))
							done = true
							break
						}
					}
					// … or by the data of a sequential reader the function is handed (the frame it was built on)
					if cur := p.Cursor(); !done && cur.G != nil {
						for _, prm := range fn.Params {
							pt, ok := prm.Type().Underlying().(*types.Pointer)
							if !ok || !types.Identical(pt.Elem(), cur.T) {
								continue
							}
							if pr.cur == nil {
								pr.cur = cur
							}
							k := fmt.Sprintf("len(*(&(%s).%d))", pr.key(prm), cur.D)
							pr.atomRange(k, 0, math.MaxInt64)
							if pr.Prove(b, linAtom(k).sub(l)) {
								c.OK("R5.2", cons, pos, fmt.Sprintf("size %s <= the length of the data of the sequential reader %s: bounded by the bytes present", l, prm.Name()))
								done = true
								break
							}
						}
					}
					if !done {
						c.Unk("R5.2", cons, pos, "allocation size "+l.String()+" is not shown to be bounded by the bytes present")
					}
					if x.Cap != nil && x.Cap != x.Len {
						// the capacity is what is allocated
						cp := pr.lin(x.Cap)
						doneC := cp.isConst()
						for _, prm := range fn.Params {
							if _, ok := prm.Type().Underlying().(*types.Slice); !ok || doneC {
								continue
							}
							if pr.Prove(b, pr.lenOf(prm).sub(cp)) {
								doneC = true
							}
						}
						if doneC {
							c.OK("R5.2", cons+"#cap", pos, "capacity "+cp.String()+" bounded by the bytes present")
						} else {
							c.Unk("R5.2", cons+"#cap", pos, "allocation capacity "+cp.String()+" is not shown to be bounded by the bytes present")
						}
					}
				case *ssa.MakeMap:
					if x.Reserve == nil {
						continue
					}
					nalloc++
					ia++
					cons := fmt.Sprintf("%s#makemap%d", qname(fn), ia)
					l := pr.lin(x.Reserve)
					done := l.isConst()
					// the length of something that exists (a table, a list already in memory) is no wire-governed size
					if call, ok := stripConvs(x.Reserve).(*ssa.Call); ok {
						if bi, ok := call.Call.Value.(*ssa.Builtin); ok && bi.Name() == "len" {
							done = true
						}
					}
					for _, prm := range fn.Params {
						if _, ok := prm.Type().Underlying().(*types.Slice); !ok || done {
							continue
						}
						if pr.Prove(b, pr.lenOf(prm).sub(l)) {
							done = true
						}
					}
					if done {
						c.OK("R5.2", cons, posOf(p, ins), "map size hint "+l.String()+" bounded by the bytes present")
					} else {
						c.Unk("R5.2", cons, posOf(p, ins), "the map is pre-sized with "+l.String()+", which is not shown to be bounded by the bytes present: a length field inside the frame governs the allocation")
					}
				case *ssa.Call:
					bi, ok := x.Call.Value.(*ssa.Builtin)
					if !ok || bi.Name() != "append" || len(x.Call.Args) < 2 {
						continue
					}
					nappend++
					ia++
					cons := fmt.Sprintf("%s#append%d", qname(fn), ia)
					n, isConst := constLenOfBuf(x.Call.Args[1])
					if sl, isSl := x.Call.Args[0].(*ssa.Slice); isSl && sl.Max != nil {
						// append(s[:n:n], …): the capacity is clipped, so every call allocates and copies the whole list —
						// per element of a list read from the frame that is quadratic work and memory
						c.Unk("R5.2", cons, posOf(p, ins), "appends onto a base whose capacity is clipped (3-index slice): each call copies the list built so far; over a frame's list that is quadratic in the frame size")
						continue
					}
					if isConst {
						c.OK("R5.2", cons, posOf(p, ins), fmt.Sprintf("appends %d element(s) per execution", n))
					} else {
						c.Unk("R5.2", cons, posOf(p, ins), "appends a slice of unknown length")
					}
				}
			}
		}
	}
	c.Measured["allocations_checked"] = nalloc
	c.Measured["appends_checked"] = nappend
	ruleNoBlocking(p, c, "R5.3", scope)
	// R5.4: library calls on the decode path are the modelled ones (work linear in their arguments)
	nx, nbadx := 0, 0
	for _, fn := range sortedFuncs(scope) {
		k := 0
		for _, b := range fn.Blocks {
			for _, ins := range b.Instrs {
				ci, ok := ins.(ssa.CallInstruction)
				if !ok {
					continue
				}
				sc := ci.Common().StaticCallee()
				if sc == nil || sc.Blocks != nil || sc.Pkg == nil && sc.Synthetic != "" && !strings.Contains(sc.Synthetic, "instance") {
					continue
				}
				if sc.Pkg != nil && sc.Pkg.Pkg == p.Pkg {
					continue
				}
				name := fullName(sc)
				nx++
				_, writes := externWritesArg[name]
				modelled := externPure[name] || fmtWriterFuncs[name] || writes || name == "io.ReadFull" || name == "io.ReadAtLeast" || strings.HasPrefix(name, "(encoding/binary.bigEndian).")
				if !modelled {
					k++
					nbadx++
					c.Unk("R5.4", fmt.Sprintf("%s#extcall%d", qname(fn), k), posOf(p, ins), "library function "+name+" has no cost model: the work it does per call is not known to be proportional to its arguments")
					continue
				}
				// work linear in the arguments is proportional to the frame only if the argument is the item being
				// decoded, not the open-ended rest of the input (which a loop over the frame's items would scan again
				// for every item)
				if externPure[name] && !strings.HasPrefix(name, "(encoding/binary.bigEndian).") && !strings.HasPrefix(name, "fmt.") && !strings.HasPrefix(name, "errors.") {
					for _, a := range ci.Common().Args {
						v := a
						for {
							if cv, ok := v.(*ssa.Convert); ok {
								v = cv.X
								continue
							}
							if ct, ok := v.(*ssa.ChangeType); ok {
								v = ct.X
								continue
							}
							break
						}
						openTail := false
						switch y := v.(type) {
						case *ssa.Parameter:
							_, openTail = y.Type().Underlying().(*types.Slice)
						case *ssa.Slice:
							if _, isPrm := y.X.(*ssa.Parameter); isPrm && y.High == nil {
								openTail = true
							}
							// the rest of a reader's data, b.data[b.i:]
							if ld, isLoad := y.X.(*ssa.UnOp); isLoad && ld.Op == token.MUL && y.High == nil {
								if _, isField := ld.X.(*ssa.FieldAddr); isField {
									openTail = true
								}
							}
						}
						if openTail {
							k++
							nbadx++
							c.Unk("R5.4", fmt.Sprintf("%s#extcall%d", qname(fn), k), posOf(p, ins), name+" is given the open-ended rest of the input, not the item being decoded: its work is proportional to the remaining frame on every call")
						}
					}
				}
			}
		}
	}
	if nbadx == 0 {
		c.OK("R5.4", "library calls", "-", fmt.Sprintf("all %d library call sites on the decode path are modelled (io.ReadFull, binary.BigEndian, fmt, …): work linear in their arguments", nx))
	}
	c.Floor("decode roots", len(roots.Decode), 16, "15 packet UnmarshalBinary + ReadPacket")
}
