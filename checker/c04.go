package main

// C04 — decoding never panics, whatever bytes arrive.

import (
	"fmt"

	"golang.org/x/tools/go/ssa"
)

func init() {
	register(&PropertyCheck{ID: "C04", Level: "proof", Run: checkC04, Canaries: []Canary{
		{Name: "closure-returns-nil-on-its-second-call", Rule: "R4.2", Where: "(*buffer).getAny", Edits: []Edit{{"subscribe.go", "\treturn map[Ident]func() wireType{\n\t\tSubscriptionID: func() wireType {\n\t\t\tif unmarshal {\n\t\t\t\tp.subscriptionID = new(vbint)", "\tfirst := true\n\treturn map[Ident]func() wireType{\n\t\tSubscriptionID: func() wireType {\n\t\t\tif unmarshal {\n\t\t\t\t// [MQTT-3.8.2.1.2] the subscription identifier may be\n\t\t\t\t// included once only, the first one counts\n\t\t\t\tif first {\n\t\t\t\t\tfirst = false\n\t\t\t\t\tp.subscriptionID = new(vbint)\n\t\t\t\t} else {\n\t\t\t\t\treturn nil\n\t\t\t\t}"}}},
		{Name: "pointer-parameters-handed-to-the-reader", Silent: true, Edits: []Edit{{"puback.go", "func (p *PubAck) UnmarshalBinary(data []byte) error {\n\tb := &buffer{data: data}\n\tb.get(&p.packetID)\n\t// no more data, see 3.4.2.1 PUBACK Reason Code\n\tif len(data) > 2 {\n\t\tb.get(&p.reasonCode)\n\t\tb.getAny(p.propertyMap(), p.appendUserProperty)\n\t}\n\treturn b.err\n}\n", "func (p *PubAck) UnmarshalBinary(data []byte) error {\n\treturn unmarshalAck(data,\n\t\t&p.packetID, &p.reasonCode, p.propertyMap(), p.appendUserProperty,\n\t)\n}\n\nfunc unmarshalAck(\n\tdata []byte, packetID *wuint16, reasonCode *wuint8,\n\tfields map[Ident]func() wireType, addProp func(UserProp),\n) error {\n\tb := &buffer{data: data}\n\tb.get(packetID)\n\tif len(data) <= 2 {\n\t\treturn b.err\n\t}\n\tb.get(reasonCode)\n\tb.getAny(fields, addProp)\n\treturn b.err\n}\n"}}},
		{Name: "nil-pointer-handed-to-the-reader", Rule: "R4.2", Where: "(*PubAck).UnmarshalBinary", Edits: []Edit{{"puback.go", "func (p *PubAck) UnmarshalBinary(data []byte) error {\n\tb := &buffer{data: data}\n\tb.get(&p.packetID)\n\t// no more data, see 3.4.2.1 PUBACK Reason Code\n\tif len(data) > 2 {\n\t\tb.get(&p.reasonCode)\n\t\tb.getAny(p.propertyMap(), p.appendUserProperty)\n\t}\n\treturn b.err\n}\n", "func (p *PubAck) UnmarshalBinary(data []byte) error {\n\treturn unmarshalAck(data,\n\t\t&p.packetID, nil, p.propertyMap(), p.appendUserProperty,\n\t)\n}\n\nfunc unmarshalAck(\n\tdata []byte, packetID *wuint16, reasonCode *wuint8,\n\tfields map[Ident]func() wireType, addProp func(UserProp),\n) error {\n\tb := &buffer{data: data}\n\tb.get(packetID)\n\tif len(data) <= 2 {\n\t\treturn b.err\n\t}\n\tb.get(reasonCode)\n\tb.getAny(fields, addProp)\n\treturn b.err\n}\n"}}},
		{Name: "get-records-errors-through-a-helper", Silent: true, Edits: []Edit{{"buffer.go", "func (b *buffer) get(v wireType) {\n\tif b.err != nil {\n\t\treturn\n\t}\n\tif b.i >= len(b.data) {\n\t\tb.err = ErrMissingData\n\t\treturn\n\t}\n\tif b.err = v.UnmarshalBinary(b.data[b.i:]); b.err != nil {\n\t\treturn\n\t}\n\tn := v.width()\n\tif n > len(b.data)-b.i {\n\t\tb.err = ErrMissingData\n\t\treturn\n\t}\n\tb.i += n\n}\n\n", "func (b *buffer) get(v wireType) {\n\tif b.err != nil {\n\t\treturn\n\t}\n\tif b.i >= len(b.data) {\n\t\tb.fail(ErrMissingData)\n\t\treturn\n\t}\n\tif err := v.UnmarshalBinary(b.data[b.i:]); err != nil {\n\t\tb.fail(err)\n\t\treturn\n\t}\n\tn := v.width()\n\tif n > len(b.data)-b.i {\n\t\tb.fail(ErrMissingData)\n\t\treturn\n\t}\n\tb.i += n\n}\n\n// fail records the first error.\nfunc (b *buffer) fail(err error) {\n\tif b.err == nil {\n\t\tb.err = err\n\t}\n}\n\n"}}},
		{Name: "get-single-exit-if-else", Silent: true, Edits: []Edit{{"buffer.go", "func (b *buffer) get(v wireType) {\n\tif b.err != nil {\n\t\treturn\n\t}\n\tif b.i >= len(b.data) {\n\t\tb.err = ErrMissingData\n\t\treturn\n\t}\n\tif b.err = v.UnmarshalBinary(b.data[b.i:]); b.err != nil {\n\t\treturn\n\t}\n\tn := v.width()\n\tif n > len(b.data)-b.i {\n\t\tb.err = ErrMissingData\n\t\treturn\n\t}\n\tb.i += n\n}\n\n", "func (b *buffer) get(v wireType) {\n\tswitch {\n\tcase b.err != nil:\n\t\treturn\n\tcase b.i >= len(b.data):\n\t\tb.err = ErrMissingData\n\t\treturn\n\t}\n\tif b.err = v.UnmarshalBinary(b.data[b.i:]); b.err != nil {\n\t\treturn\n\t}\n\tif n := v.width(); n > len(b.data)-b.i {\n\t\tb.err = ErrMissingData\n\t} else {\n\t\tb.i += n\n\t}\n}\n\n"}}},
		{Name: "get-nested-with-joins", Silent: true, Edits: []Edit{{"buffer.go", "func (b *buffer) get(v wireType) {\n\tif b.err != nil {\n\t\treturn\n\t}\n\tif b.i >= len(b.data) {\n\t\tb.err = ErrMissingData\n\t\treturn\n\t}\n\tif b.err = v.UnmarshalBinary(b.data[b.i:]); b.err != nil {\n\t\treturn\n\t}\n\tn := v.width()\n\tif n > len(b.data)-b.i {\n\t\tb.err = ErrMissingData\n\t\treturn\n\t}\n\tb.i += n\n}\n\n", "func (b *buffer) get(v wireType) {\n\tif b.err != nil {\n\t\treturn\n\t}\n\tif b.i < len(b.data) {\n\t\tb.err = v.UnmarshalBinary(b.data[b.i:])\n\t\tif b.err == nil {\n\t\t\tif n := v.width(); n <= len(b.data)-b.i {\n\t\t\t\tb.i += n\n\t\t\t\treturn\n\t\t\t}\n\t\t\tb.err = ErrMissingData\n\t\t}\n\t\treturn\n\t}\n\tb.err = ErrMissingData\n}\n\n"}}},
		{Name: "get-helper-form-continues-after-a-decoder-error", Rule: "R4.0", Where: "(*buffer).get", Edits: []Edit{{"buffer.go", "func (b *buffer) get(v wireType) {\n\tif b.err != nil {\n\t\treturn\n\t}\n\tif b.i >= len(b.data) {\n\t\tb.err = ErrMissingData\n\t\treturn\n\t}\n\tif b.err = v.UnmarshalBinary(b.data[b.i:]); b.err != nil {\n\t\treturn\n\t}\n\tn := v.width()\n\tif n > len(b.data)-b.i {\n\t\tb.err = ErrMissingData\n\t\treturn\n\t}\n\tb.i += n\n}\n\n", "func (b *buffer) get(v wireType) {\n\tif b.err != nil {\n\t\treturn\n\t}\n\tif b.i >= len(b.data) {\n\t\tb.fail(ErrMissingData)\n\t\treturn\n\t}\n\tif err := v.UnmarshalBinary(b.data[b.i:]); err != nil {\n\t\tb.fail(err)\n\t}\n\tn := v.width()\n\tif n > len(b.data)-b.i {\n\t\tb.fail(ErrMissingData)\n\t\treturn\n\t}\n\tb.i += n\n}\n\n// fail records the first error.\nfunc (b *buffer) fail(err error) {\n\tif b.err == nil {\n\t\tb.err = err\n\t}\n}\n\n"}}},
		{Name: "get-if-else-form-forgets-the-error", Rule: "R4.0", Where: "(*buffer).get", Edits: []Edit{{"buffer.go", "func (b *buffer) get(v wireType) {\n\tif b.err != nil {\n\t\treturn\n\t}\n\tif b.i >= len(b.data) {\n\t\tb.err = ErrMissingData\n\t\treturn\n\t}\n\tif b.err = v.UnmarshalBinary(b.data[b.i:]); b.err != nil {\n\t\treturn\n\t}\n\tn := v.width()\n\tif n > len(b.data)-b.i {\n\t\tb.err = ErrMissingData\n\t\treturn\n\t}\n\tb.i += n\n}\n\n", "func (b *buffer) get(v wireType) {\n\tswitch {\n\tcase b.err != nil:\n\t\treturn\n\tcase b.i >= len(b.data):\n\t\tb.err = ErrMissingData\n\t\treturn\n\t}\n\tif b.err = v.UnmarshalBinary(b.data[b.i:]); b.err != nil {\n\t\treturn\n\t}\n\tif n := v.width(); n <= len(b.data)-b.i {\n\t\tb.i += n\n\t}\n}\n\n"}}},
		{Name: "get-nested-form-compares-with-the-whole-frame", Rule: "R4.0", Where: "(*buffer).get", Edits: []Edit{{"buffer.go", "func (b *buffer) get(v wireType) {\n\tif b.err != nil {\n\t\treturn\n\t}\n\tif b.i >= len(b.data) {\n\t\tb.err = ErrMissingData\n\t\treturn\n\t}\n\tif b.err = v.UnmarshalBinary(b.data[b.i:]); b.err != nil {\n\t\treturn\n\t}\n\tn := v.width()\n\tif n > len(b.data)-b.i {\n\t\tb.err = ErrMissingData\n\t\treturn\n\t}\n\tb.i += n\n}\n\n", "func (b *buffer) get(v wireType) {\n\tif b.err != nil {\n\t\treturn\n\t}\n\tif b.i < len(b.data) {\n\t\tb.err = v.UnmarshalBinary(b.data[b.i:])\n\t\tif b.err == nil {\n\t\t\tif n := v.width(); n <= len(b.data) {\n\t\t\t\tb.i += n\n\t\t\t\treturn\n\t\t\t}\n\t\t\tb.err = ErrMissingData\n\t\t}\n\t\treturn\n\t}\n\tb.err = ErrMissingData\n}\n\n"}}},
		{Name: "get-helper-overwrites-with-a-possibly-nil-error", Rule: "R4.0", Where: "fail", Edits: []Edit{{"buffer.go", "func (b *buffer) get(v wireType) {\n\tif b.err != nil {\n\t\treturn\n\t}\n\tif b.i >= len(b.data) {\n\t\tb.err = ErrMissingData\n\t\treturn\n\t}\n\tif b.err = v.UnmarshalBinary(b.data[b.i:]); b.err != nil {\n\t\treturn\n\t}\n\tn := v.width()\n\tif n > len(b.data)-b.i {\n\t\tb.err = ErrMissingData\n\t\treturn\n\t}\n\tb.i += n\n}\n\n", "func (b *buffer) get(v wireType) {\n\tif b.err != nil {\n\t\treturn\n\t}\n\tif b.i >= len(b.data) {\n\t\tb.fail(ErrMissingData)\n\t\treturn\n\t}\n\tif err := v.UnmarshalBinary(b.data[b.i:]); err != nil {\n\t\tb.fail(err)\n\t\treturn\n\t}\n\tn := v.width()\n\tif n > len(b.data)-b.i {\n\t\tb.fail(ErrMissingData)\n\t\treturn\n\t}\n\tb.i += n\n}\n\n// fail records the first error.\nfunc (b *buffer) fail(err error) {\n\tb.err = err\n}\n\nfunc unknownProperty(id Ident) error {\n\tif id == 0 {\n\t\treturn nil\n\t}\n\treturn fmt.Errorf(\"unknown property id 0x%02x\", id)\n}\n\n"}, {"buffer.go", "\t\t\tb.err = fmt.Errorf(\"unknown property id 0x%02x\", id)\n", "\t\t\tb.fail(unknownProperty(id))\n"}}},
		{Name: "u16-no-length-check", Rule: "R4.2", Where: "(*wuint16).UnmarshalBinary", Edits: []Edit{{"wiretypes.go", "func (v *wuint16) UnmarshalBinary(data []byte) error {\n\tif len(data) < 2 {\n\t\treturn ErrMissingData\n\t}\n", "func (v *wuint16) UnmarshalBinary(data []byte) error {\n"}}},
		{Name: "u32-check-too-small", Rule: "R4.2", Where: "(*wuint32).UnmarshalBinary", Edits: []Edit{{"wiretypes.go", "\tif len(data) < 4 {", "\tif len(data) < 3 {"}}},
		{Name: "bindata-off-by-one", Rule: "R4.2", Where: "(*bindata).UnmarshalBinary", Edits: []Edit{{"wiretypes.go", "\tif len(data) < length+2 {", "\tif len(data) < length+1 {"}}},
		{Name: "bindata-uint16-wrap", Rule: "R4.2", Where: "(*bindata).UnmarshalBinary", Edits: []Edit{{"wiretypes.go", "\tlength := int(binary.BigEndian.Uint16(data))\n\tif len(data) < length+2 {", "\tlength := binary.BigEndian.Uint16(data)\n\tif len(data) < int(length)+2 {"}}},
		{Name: "get-advances-unchecked", Rule: "R4.0", Where: "(*buffer).get", Edits: []Edit{{"buffer.go", "\tn := v.width()\n\tif n > len(b.data)-b.i {\n\t\tb.err = ErrMissingData\n\t\treturn\n\t}\n\tb.i += n\n", "\tb.i += v.width()\n"}}},
		{Name: "bool-indexes-empty", Rule: "R4.2", Where: "(*wbool).UnmarshalBinary", Edits: []Edit{{"wiretypes.go", "func (v *wbool) UnmarshalBinary(data []byte) error {\n\tif len(data) < 1 {\n\t\treturn ErrMissingData\n\t}\n", "func (v *wbool) UnmarshalBinary(data []byte) error {\n"}}},
		{Name: "non-malformed-error-asserted", Rule: "R4.2", Where: "(*UserProp).UnmarshalBinary", Edits: []Edit{{"wiretypes.go", "\tif len(data) < 2 {\n\t\treturn unmarshalErr(v, \"\", \"missing data\")\n\t}\n\tlength :=", "\tif len(data) < 2 {\n\t\treturn ErrMissingData\n\t}\n\tlength :="}}},
		{Name: "offset-moved-outside-get", Rule: "R4.0", Where: "offset written outside get", Edits: []Edit{{"publish.go", "\tif len(data) > buf.i {\n\t\tget(&p.payload)\n\t}", "\tif len(data) > buf.i {\n\t\tget(&p.payload)\n\t\tbuf.i = len(data) + 1\n\t}"}}},
		{Name: "will-not-allocated", Rule: "R4.2", Where: "will != nil", Edits: []Edit{{"connect.go", "\t\tp.will = NewPublish()\n\t\tp.will.SetQoS(p.willQoS())\n", "\t\tif p.will != nil {\n\t\t\tp.will.SetQoS(p.willQoS())\n\t\t}\n"}}},
		{Name: "packet-and-error", Rule: "R4.1", Where: "ReadRemaining", Edits: []Edit{{"packet.go", "\tif err := p.UnmarshalBinary(data); err != nil {\n\t\treturn nil, fmt.Errorf(", "\tif err := p.UnmarshalBinary(data); err != nil {\n\t\treturn p, fmt.Errorf("}}},
		{Name: "default-arm-nil-packet", Rule: "R4.2", Where: "ReadRemaining", Edits: []Edit{{"packet.go", "\tdefault:\n\t\tp = &Undefined{}\n", "\tdefault:\n\t\tp = nil\n"}}},
		{Name: "reason-codes-sized-from-wire", Rule: "R4.2", Where: "(*SubAck).UnmarshalBinary", Edits: []Edit{{"suback.go", "\tp.reasonCodes = make([]uint8, len(data)-b.i)\n", "\tp.reasonCodes = make([]uint8, len(data)-b.i-1)\n"}}},
		{Name: "rawdata-fillprop-reachable", Rule: "R4.2", Where: "fillProp", Edits: []Edit{{"publish.go", "\tif len(data) > buf.i {\n\t\tget(&p.payload)\n\t}", "\tif len(data) > buf.i {\n\t\tget(&p.payload)\n\t\tp.payload.fillProp(nil, 0, 0)\n\t}"}}},
		{Name: "get-end-test-relaxed", Silent: true, Edits: []Edit{{"buffer.go", "\tif b.i >= len(b.data) {", "\tif b.i > len(b.data) {"}}},
		{Name: "length-test-in-helper", Silent: true, Edits: []Edit{
			{"wiretypes.go", "func (v *wuint32) UnmarshalBinary(data []byte) error {\n\tif len(data) < 4 {", "func short(d []byte, n int) bool { return len(d) < n }\n\nfunc (v *wuint32) UnmarshalBinary(data []byte) error {\n\tif short(data, 4) {"}}},
	}})
}

func checkC04(p *Prog, c *Check) {
	c.Rule("R4.0", "lemmas about the sequential reader: data written only at construction, offset written only by the guarded primitive and kept within [0, len(data)], error sticky; the primitive is a no-op after an error and otherwise sets a non-nil error or advances within bounds")
	c.Rule("R4.1", "every return of ReadPacket / ReadRemaining yields (provably non-nil packet, nil) or (nil, provably non-nil error)")
	c.Rule("R4.2", "every instruction that can panic (index, slice, nil dereference, nil call, unchecked type assertion, make with negative size, division, explicit panic, stdlib preconditions) in every function reachable from ReadPacket and from every UnmarshalBinary / ReadFrom is proven safe for all inputs")
	c.Explanation = "Obligations are generated from the SSA form for every potentially panicking instruction in the decode call tree and discharged by a local prover: linear facts from dominating branch edges (Fourier–Motzkin over mathematical integers, wrap-aware for types narrower than int), nil facts, store-to-load forwarding under a type-based no-intervening-write analysis, callee return summaries, the reader invariants (R4.0) and the geometric-accumulator bound for the frame size. An obligation that cannot be discharged fails the check."
	c.Trusted = []string{"go/types + go/ssa (x/tools v0.29.0) faithful IR", "int arithmetic on lengths/offsets does not overflow (frame sizes <= 2^28+5; thorough tier re-checks with 32-bit int)", "stdlib panic preconditions as listed (binary.BigEndian needs len >= 2/4/8; bytes.Repeat count >= 0); fmt recovers panics of String/Error methods", "no pointer type punning (checked: package imports no unsafe)", "out-of-memory is not a panic"}
	c.Assumptions = []string{"API precondition K0: method receivers are non-nil", "caller-supplied io.Reader does not panic"}
	cur := p.Cursor()
	cur.CheckLemmas(p, c, "R4.0")
	roots := p.Roots()
	e, _ := p.decodeEffects()
	st := p.runSafety(c, safetyCfg{rule: "R4.2", roots: roots.Decode, eff: e, scopeTag: "dec"})
	c.Measured["functions_on_decode_path"] = st.funcs
	for k, n := range st.byKind {
		c.Measured["obligations_"+k] = n
	}
	checkResultShape(p, c)
	c.Floor("decode roots", len(roots.Decode), 15+1, "15 packet UnmarshalBinary + ReadPacket")
}

// R4.1
func checkResultShape(p *Prog, c *Check) {
	rp, msg := p.readPacketAnchor()
	if rp == nil {
		c.Bad("anchor", "ReadPacket", "-", msg)
		return
	}
	var fns []*ssa.Function
	fns = append(fns, rp)
	for _, ci := range p.Calls(rp) {
		for _, cal := range ci.Callees {
			sig := cal.Signature
			if sig.Results().Len() == 2 && isErrorType(sig.Results().At(1).Type()) && typeStr(sig.Results().At(0).Type()) == typeStr(rp.Signature.Results().At(0).Type()) {
				fns = append(fns, cal)
			}
		}
	}
	for _, fn := range fns {
		pr := NewProver(p, fn)
		pr.assumeContracts()
		n := 0
		for _, b := range fn.Blocks {
			ret, ok := terminator(b).(*ssa.Return)
			if !ok {
				continue
			}
			n++
			cons := fmt.Sprintf("%s#return%d", qname(fn), n)
			pk, er := ret.Results[0], ret.Results[1]
			// pass-through of a callee with the same contract
			if e0, ok := pk.(*ssa.Extract); ok {
				if e1, ok := er.(*ssa.Extract); ok && e0.Tuple == e1.Tuple {
					if call, ok := e0.Tuple.(*ssa.Call); ok {
						okc := false
						for _, f := range fns {
							if call.Call.StaticCallee() == f {
								okc = true
							}
						}
						if okc {
							c.OK("R4.1", cons, posOf(p, ret), "returns the results of "+qname(call.Call.StaticCallee())+", which obeys the same rule")
							continue
						}
					}
				}
			}
			switch {
			case isNilConst(er) && isStrongNonNil(pr, pk, b):
				c.OK("R4.1", cons, posOf(p, ret), "(non-nil packet, nil)")
			case isNilConst(pk) && pr.NonNil(er, b, 0):
				c.OK("R4.1", cons, posOf(p, ret), "(nil, non-nil error)")
			default:
				c.Unk("R4.1", cons, posOf(p, ret), "cannot show the result to be (non-nil packet, nil) or (nil, non-nil error): "+ret.String())
			}
		}
	}
}
