package main

// E2 — local safety prover: canonical keys for values (loads with "no write
// since" versions), linear forms, facts from dominating branch edges, nil
// facts, ranges, callee return summaries.

import (
	"fmt"
	"go/constant"
	"go/token"
	"go/types"
	"math"
	"strings"

	"golang.org/x/tools/go/ssa"
)

// ---------- type-based alias classes ----------

func typeStr(t types.Type) string {
	return types.TypeString(t, func(p *types.Package) string { return p.Name() })
}

// allocIsPrivate: the allocation's address is only used for direct loads and
// stores (it never escapes, nobody else can write it).
func allocIsPrivate(al *ssa.Alloc) bool {
	for _, r := range *al.Referrers() {
		switch x := r.(type) {
		case *ssa.Store:
			if x.Addr != ssa.Value(al) {
				return false
			}
		case *ssa.UnOp, *ssa.DebugRef:
		default:
			return false
		}
	}
	return true
}

// allocIsPrivateAgg: a local struct whose address never leaves the function: it is stored to and loaded from as a
// whole, and its field addresses are only stored through and loaded from (a by-value struct parameter or receiver
// spilled to a local so that its fields can be addressed).  No callee can write it.
func allocIsPrivateAgg(al *ssa.Alloc) bool {
	if al.Referrers() == nil {
		return false
	}
	if _, isStruct := al.Type().Underlying().(*types.Pointer).Elem().Underlying().(*types.Struct); !isStruct {
		return false
	}
	for _, r := range *al.Referrers() {
		switch x := r.(type) {
		case *ssa.Store:
			if x.Addr != ssa.Value(al) {
				return false
			}
		case *ssa.UnOp, *ssa.DebugRef:
		case *ssa.FieldAddr:
			if x.Referrers() == nil {
				continue
			}
			for _, r2 := range *x.Referrers() {
				switch y := r2.(type) {
				case *ssa.Store:
					if y.Addr != ssa.Value(x) {
						return false
					}
				case *ssa.UnOp, *ssa.DebugRef:
				default:
					return false
				}
			}
		default:
			return false
		}
	}
	return true
}

func allocID(x *ssa.Alloc) string {
	return fmt.Sprintf("%s.%s@%d", x.Parent().Name(), x.Name(), x.Pos())
}

// aclass is the alias class of a memory access.
type aclass struct {
	kind   byte       // 'f' field, 'e' element, 'd' deref, 'a' private alloc, 'm' map, '?' anything
	typ    types.Type // stored type
	owner  string     // f: struct type string; a: alloc identity
	ownerT types.Type // f: the struct type
	field  int
}

func (a aclass) String() string {
	switch a.kind {
	case 'f':
		return fmt.Sprintf("f:%s.%d", a.owner, a.field)
	case 'a':
		if a.field > 0 {
			return fmt.Sprintf("a:%s.%d", a.owner, a.field-1)
		}
		return "a:" + a.owner
	case '?':
		return "?"
	}
	return string(a.kind) + ":" + typeStr(a.typ)
}

func classOf(addr ssa.Value) aclass {
	pt, ok := addr.Type().Underlying().(*types.Pointer)
	if !ok {
		return aclass{kind: '?'}
	}
	switch x := addr.(type) {
	case *ssa.FieldAddr:
		if al, isAl := x.X.(*ssa.Alloc); isAl && allocIsPrivateAgg(al) {
			return aclass{kind: 'a', typ: pt.Elem(), owner: allocID(al), field: x.Field + 1}
		}
		st := x.X.Type().Underlying().(*types.Pointer).Elem()
		return aclass{kind: 'f', typ: pt.Elem(), owner: typeStr(st), ownerT: st, field: x.Field}
	case *ssa.IndexAddr:
		return aclass{kind: 'e', typ: pt.Elem()}
	case *ssa.Alloc:
		if allocIsPrivate(x) || allocIsPrivateAgg(x) {
			return aclass{kind: 'a', typ: pt.Elem(), owner: allocID(x)}
		}
	}
	return aclass{kind: 'd', typ: pt.Elem()}
}

func typeContains(outer, inner types.Type, d int) bool {
	if types.Identical(outer, inner) {
		return true
	}
	if d > 5 {
		return false
	}
	switch u := outer.Underlying().(type) {
	case *types.Struct:
		for i := 0; i < u.NumFields(); i++ {
			if typeContains(u.Field(i).Type(), inner, d+1) {
				return true
			}
		}
	case *types.Array:
		return typeContains(u.Elem(), inner, d+1)
	}
	return false
}

// mayAlias: can a write of class w change what a read of class r sees?
func mayAlias(w, r aclass) bool {
	if w.kind == 'a' || r.kind == 'a' {
		// a private local (its address never leaves the function): only an access to that very local — the whole of it
		// (field 0) or the same field — can touch it, whatever a callee may write
		return w.kind == r.kind && w.owner == r.owner && (w.field == 0 || r.field == 0 || w.field == r.field)
	}
	if w.kind == '?' || r.kind == '?' {
		return true
	}
	if w.kind == 'm' || r.kind == 'm' {
		return w.kind == r.kind && types.Identical(w.typ, r.typ)
	}
	if w.kind == 'f' && r.kind == 'f' {
		if w.owner == r.owner {
			return w.field == r.field
		}
		// distinct struct types: only if one access covers an aggregate that
		// contains the other's struct
		return typeContains(w.typ, r.ownerT, 0) || typeContains(r.typ, w.ownerT, 0)
	}
	// one of them is a deref or element access: alias iff the stored types overlap
	return typeContains(w.typ, r.typ, 0) || typeContains(r.typ, w.typ, 0)
}

// writeClasses: type-based write set of a function, transitively over its
// callees.  anything=true when an unmodelled callee is reached.
type wset struct {
	classes  []aclass
	anything bool
}

func (p *Prog) writeClasses(fn *ssa.Function) *wset {
	key := "wt:" + fn.String() + fmt.Sprint(fn.Pos())
	if v, ok := p.cache[key]; ok {
		if v == nil {
			return &wset{} // recursion: the cycle's own writes are collected by the outer call
		}
		return v.(*wset)
	}
	p.cache[key] = nil
	ws := &wset{}
	seen := map[string]bool{}
	add := func(c aclass) {
		if c.kind == 'a' {
			return // private to its function
		}
		k := c.String()
		if !seen[k] {
			seen[k] = true
			ws.classes = append(ws.classes, c)
		}
	}
	for _, b := range fn.Blocks {
		for _, ins := range b.Instrs {
			switch x := ins.(type) {
			case *ssa.Store:
				add(classOf(x.Addr))
			case *ssa.MapUpdate:
				add(aclass{kind: 'm', typ: x.Map.Type()})
			case *ssa.Send, *ssa.Go:
				ws.anything = true
			case ssa.CallInstruction:
				cc := x.Common()
				if bi, ok := cc.Value.(*ssa.Builtin); ok {
					switch bi.Name() {
					case "copy", "append":
						if sl, ok := cc.Args[0].Type().Underlying().(*types.Slice); ok {
							add(aclass{kind: 'e', typ: sl.Elem()})
						}
					case "delete", "clear":
						add(aclass{kind: 'm', typ: cc.Args[0].Type()})
					}
					continue
				}
				for _, ci := range p.Calls(fn) {
					if ci.Site != x {
						continue
					}
					if ci.Ext != nil {
						name := fullName(ci.Ext)
						switch {
						case externPure[name] || fmtWriterFuncs[name]:
						case name == "io.ReadFull" || name == "io.ReadAtLeast":
							add(aclass{kind: 'e', typ: types.Typ[types.Uint8]})
						default:
							if idx, ok := externWritesArg[name]; ok {
								at := cc.Args[idx].Type()
								if sl, ok := at.Underlying().(*types.Slice); ok {
									add(aclass{kind: 'e', typ: sl.Elem()})
								} else if pt, ok := at.Underlying().(*types.Pointer); ok {
									add(aclass{kind: 'd', typ: pt.Elem()})
								}
							} else {
								ws.anything = true
							}
						}
					}
					if ci.External && ci.Ext == nil && len(ci.Callees) == 0 {
						m := cc.Method
						if m == nil || (m.Name() != "Write" && m.Name() != "Error" && m.Name() != "String" && m.Name() != "Read") {
							ws.anything = true
						}
						if m != nil && m.Name() == "Read" {
							add(aclass{kind: 'e', typ: types.Typ[types.Uint8]})
						}
					}
					for _, cal := range ci.Callees {
						sub := p.writeClasses(cal)
						if sub.anything {
							ws.anything = true
						}
						for _, c := range sub.classes {
							add(c)
						}
					}
					if len(ci.Callees) == 0 && ci.Ext == nil && !ci.External {
						ws.anything = true
					}
				}
			}
		}
	}
	p.cache[key] = ws
	return ws
}

// ---------- prover ----------

type Prover struct {
	p          *Prog
	fn         *ssa.Function
	loadVer    map[ssa.Instruction]string
	fwd        map[ssa.Instruction]ssa.Value // load -> stored value it must see
	linMemo    map[ssa.Value]*Lin
	ranges     map[string][2]float64
	assume     []Lin
	nnAssume   map[string]bool   // value keys assumed non-nil (contracts)
	lenBusy    map[*ssa.Phi]bool // phis whose length is being computed (cycle guard)
	keyMemo    map[ssa.Value]string
	inl        int
	cur        *Cursor
	verAt      func(at ssa.Instruction, cls aclass) string
	fieldNN    map[string]bool // "<field index>" of the receiver object assumed non-nil (field needs)
	phiAtoms   map[string]*ssa.Phi
	guardedNN  map[string]FlagInv // receiver fields non-nil behind a test of the flag (representation invariant)
	payloadNN  map[string]bool    // interface parameters whose payload is non-nil whenever the interface is (K0 for wrapped receivers)
	narrowDefs map[string]narrowDef
	tableLoads map[string]tableLoad
	iLoads     map[string]ssa.Value // key of a load of cursor.I -> base pointer
	dead       map[*ssa.BasicBlock]bool
	deadEdges  map[[2]*ssa.BasicBlock]bool
}

func NewProver(p *Prog, fn *ssa.Function) *Prover {
	var dead map[*ssa.BasicBlock]bool
	var deadE map[[2]*ssa.BasicBlock]bool
	if eff, ok := p.cache["specctx"].(*Effects); ok && eff != nil {
		dead = eff.deadBlocks(fn)
		deadE = eff.DeadEdges[fn]
	}
	return newProverDead(p, fn, dead, deadE)
}

func newProverDead(p *Prog, fn *ssa.Function, dead map[*ssa.BasicBlock]bool, deadE map[[2]*ssa.BasicBlock]bool) *Prover {
	pr := &Prover{dead: dead, deadEdges: deadE, p: p, fn: fn, loadVer: map[ssa.Instruction]string{}, fwd: map[ssa.Instruction]ssa.Value{},
		linMemo: map[ssa.Value]*Lin{}, ranges: map[string][2]float64{}, nnAssume: map[string]bool{}, keyMemo: map[ssa.Value]string{}}
	if cur := p.Cursor(); cur.G != nil {
		pr.cur = cur
	}
	pr.iLoads = map[string]ssa.Value{}
	pr.computeVersions()
	return pr
}

type readSite struct {
	ins   ssa.Instruction
	class aclass
	addr  ssa.Value
}

func (pr *Prover) computeVersions() {
	fn := pr.fn
	// tracked read sites: loads and map lookups
	var sites []readSite
	for _, b := range fn.Blocks {
		for _, ins := range b.Instrs {
			switch x := ins.(type) {
			case *ssa.UnOp:
				if x.Op == token.MUL {
					sites = append(sites, readSite{ins, classOf(x.X), x.X})
				}
			case *ssa.Lookup:
				if _, ok := x.X.Type().Underlying().(*types.Map); ok {
					sites = append(sites, readSite{ins, aclass{kind: 'm', typ: x.X.Type()}, x.X})
				}
			}
		}
	}
	if len(sites) == 0 {
		return
	}
	// distinct classes
	var classes []aclass
	cidx := map[string]int{}
	for _, s := range sites {
		k := s.class.String()
		if _, ok := cidx[k]; !ok {
			cidx[k] = len(classes)
			classes = append(classes, s.class)
		}
	}
	n := len(classes)
	type state []string
	in := make([]state, len(fn.Blocks))
	out := make([]state, len(fn.Blocks))
	clobber := func(st state, w aclass, id string) {
		for i, c := range classes {
			if mayAlias(w, c) {
				st[i] = id
			}
		}
	}
	var stopAt ssa.Instruction
	transfer := func(b *ssa.BasicBlock, st state, record bool) state {
		st = append(state(nil), st...)
		for idx, ins := range b.Instrs {
			if stopAt != nil && ins == stopAt {
				return st
			}
			id := fmt.Sprintf("b%d.%d", b.Index, idx)
			switch x := ins.(type) {
			case *ssa.UnOp:
				if x.Op == token.MUL && record {
					pr.loadVer[ins] = st[cidx[classOf(x.X).String()]]
				}
			case *ssa.Lookup:
				if _, ok := x.X.Type().Underlying().(*types.Map); ok && record {
					pr.loadVer[ins] = st[cidx[aclass{kind: 'm', typ: x.X.Type()}.String()]]
				}
			case *ssa.Store:
				clobber(st, classOf(x.Addr), "S"+id)
			case *ssa.MapUpdate:
				clobber(st, aclass{kind: 'm', typ: x.Map.Type()}, id)
			case *ssa.Send, *ssa.Go, *ssa.Defer, *ssa.RunDefers, *ssa.Select:
				clobber(st, aclass{kind: '?'}, id)
			case *ssa.Call:
				cc := x.Common()
				if bi, ok := cc.Value.(*ssa.Builtin); ok {
					switch bi.Name() {
					case "copy", "append":
						if sl, ok := cc.Args[0].Type().Underlying().(*types.Slice); ok {
							clobber(st, aclass{kind: 'e', typ: sl.Elem()}, id)
						}
					case "delete", "clear":
						clobber(st, aclass{kind: 'm', typ: cc.Args[0].Type()}, id)
					}
					continue
				}
				ws := pr.callWrites(x)
				if ws.anything {
					clobber(st, aclass{kind: '?'}, id)
				}
				for _, w := range ws.classes {
					clobber(st, w, id)
				}
			}
		}
		return st
	}
	for i := range in {
		in[i] = make(state, n)
		out[i] = make(state, n)
		for j := range in[i] {
			in[i][j] = "⊥"
			out[i][j] = "⊥"
		}
	}
	for j := 0; j < n; j++ {
		in[0][j] = "entry"
	}
	for iter := 0; iter < 20; iter++ {
		changed := false
		for _, b := range fn.Blocks {
			if b.Index != 0 {
				for j := 0; j < n; j++ {
					v := "⊥"
					for _, pb := range b.Preds {
						pv := out[pb.Index][j]
						if pv == "⊥" || pr.dead[pb] || pr.deadEdges[[2]*ssa.BasicBlock{pb, b}] {
							continue
						}
						if v == "⊥" {
							v = pv
						} else if v != pv {
							v = fmt.Sprintf("phi%d", b.Index)
						}
					}
					if in[b.Index][j] != v {
						in[b.Index][j] = v
						changed = true
					}
				}
			}
			o := transfer(b, in[b.Index], false)
			for j := range o {
				if o[j] != out[b.Index][j] {
					out[b.Index][j] = o[j]
					changed = true
				}
			}
		}
		if !changed {
			break
		}
	}
	for _, b := range fn.Blocks {
		transfer(b, in[b.Index], true)
	}
	pr.verAt = func(at ssa.Instruction, cls aclass) string {
		j, ok := cidx[cls.String()]
		if !ok {
			return ""
		}
		stopAt = at
		st := transfer(at.Block(), in[at.Block().Index], false)
		stopAt = nil
		return st[j]
	}
	// store-to-load forwarding: version names the store "Sb<i>.<k>"
	for ins, ver := range pr.loadVer {
		ld, ok := ins.(*ssa.UnOp)
		if !ok || !strings.HasPrefix(ver, "Sb") {
			continue
		}
		var bi, k int
		fmt.Sscanf(ver, "Sb%d.%d", &bi, &k)
		st, ok := fn.Blocks[bi].Instrs[k].(*ssa.Store)
		if !ok {
			continue
		}
		if pr.addrKeyRaw(st.Addr, func(l ssa.Instruction) string { return pr.loadVer[l] }) == pr.addrKeyRaw(ld.X, func(l ssa.Instruction) string { return pr.loadVer[l] }) {
			pr.fwd[ins] = st.Val
		}
	}
}

func (pr *Prover) callWrites(call *ssa.Call) *wset {
	ws := &wset{}
	for _, ci := range pr.p.Calls(pr.fn) {
		if ci.Site != ssa.CallInstruction(call) {
			continue
		}
		cc := call.Common()
		if ci.Ext != nil {
			name := fullName(ci.Ext)
			switch {
			case externPure[name] || fmtWriterFuncs[name]:
			case name == "io.ReadFull" || name == "io.ReadAtLeast":
				ws.classes = append(ws.classes, aclass{kind: 'e', typ: types.Typ[types.Uint8]})
			default:
				if idx, ok := externWritesArg[name]; ok {
					at := cc.Args[idx].Type()
					if sl, ok := at.Underlying().(*types.Slice); ok {
						ws.classes = append(ws.classes, aclass{kind: 'e', typ: sl.Elem()})
					} else if pt, ok := at.Underlying().(*types.Pointer); ok {
						ws.classes = append(ws.classes, aclass{kind: 'd', typ: pt.Elem()})
					}
				} else {
					ws.anything = true
				}
			}
			// reflective String/Error callees of fmt: pure by C13 R13.1
			return ws
		}
		if ci.External && len(ci.Callees) == 0 {
			m := cc.Method
			if m != nil && (m.Name() == "Write" || m.Name() == "Error" || m.Name() == "String") {
				return ws
			}
			if m != nil && m.Name() == "Read" {
				ws.classes = append(ws.classes, aclass{kind: 'e', typ: types.Typ[types.Uint8]})
				return ws
			}
			ws.anything = true
			return ws
		}
		if len(ci.Callees) == 0 {
			ws.anything = true
		}
		for _, cal := range ci.Callees {
			sub := pr.p.writeClasses(cal)
			if sub.anything {
				ws.anything = true
			}
			ws.classes = append(ws.classes, sub.classes...)
		}
		return ws
	}
	ws.anything = true
	return ws
}

// ---------- canonical keys ----------

func (pr *Prover) key(v ssa.Value) string {
	if k, ok := pr.keyMemo[v]; ok {
		return k
	}
	k := pr.keyRaw(v, func(l ssa.Instruction) string { return pr.loadVer[l] })
	pr.keyMemo[v] = k
	return k
}

// paramSpill: al is the private home of a by-value parameter (array or
// struct) — stored once with the parameter, otherwise only read.
func paramSpill(al *ssa.Alloc) *ssa.Parameter {
	var prm *ssa.Parameter
	n := 0
	for _, r := range *al.Referrers() {
		switch x := r.(type) {
		case *ssa.Store:
			if x.Addr != ssa.Value(al) {
				return nil
			}
			n++
			p, ok := x.Val.(*ssa.Parameter)
			if !ok {
				return nil
			}
			prm = p
		case *ssa.UnOp, *ssa.DebugRef:
		case *ssa.IndexAddr:
			for _, r2 := range *x.Referrers() {
				switch r2.(type) {
				case *ssa.UnOp, *ssa.DebugRef:
				default:
					return nil
				}
			}
		case *ssa.FieldAddr:
			for _, r2 := range *x.Referrers() {
				switch r2.(type) {
				case *ssa.UnOp, *ssa.DebugRef:
				default:
					return nil
				}
			}
		default:
			return nil
		}
	}
	if n != 1 {
		return nil
	}
	return prm
}

func (pr *Prover) addrKeyRaw(a ssa.Value, ver func(ssa.Instruction) string) string {
	switch x := a.(type) {
	case *ssa.FieldAddr:
		return fmt.Sprintf("&(%s).%d", pr.keyRaw(x.X, ver), x.Field)
	case *ssa.IndexAddr:
		if k, ok := constInt(x.Index); ok {
			return fmt.Sprintf("&(%s)[%d]", pr.keyRaw(x.X, ver), k)
		}
		return fmt.Sprintf("&(%s)[%s]", pr.keyRaw(x.X, ver), pr.keyRaw(x.Index, ver))
	}
	return pr.keyRaw(a, ver)
}

func (pr *Prover) keyRaw(v ssa.Value, ver func(ssa.Instruction) string) string {
	switch x := v.(type) {
	case *ssa.Parameter:
		return "p:" + x.Name()
	case *ssa.FreeVar:
		return "fv:" + x.Name()
	case *ssa.Global:
		return "g:" + x.Name()
	case *ssa.Const:
		if x.Value == nil {
			return "nil"
		}
		return "k:" + x.Value.ExactString()
	case *ssa.Function:
		return "fn:" + x.Name()
	case *ssa.UnOp:
		if x.Op == token.MUL {
			if f, ok := pr.fwd[x]; ok {
				return pr.keyRaw(f, ver)
			}
			// element / field of a by-value parameter kept in a private local
			switch a := x.X.(type) {
			case *ssa.IndexAddr:
				if al, ok := a.X.(*ssa.Alloc); ok {
					if k, isC := constInt(a.Index); isC {
						if prm := paramSpill(al); prm != nil {
							return fmt.Sprintf("p:%s[%d]", prm.Name(), k)
						}
					}
				}
			case *ssa.FieldAddr:
				if al, ok := a.X.(*ssa.Alloc); ok {
					if prm := paramSpill(al); prm != nil {
						return fmt.Sprintf("p:%s.%d", prm.Name(), a.Field)
					}
				}
			}
			if pr.cur != nil {
				if _, ok := pr.cur.isField(x.X, pr.cur.D); ok {
					// the reader's data field never changes after construction (K3)
					return fmt.Sprintf("*(%s)", pr.addrKeyRaw(x.X, ver))
				}
			}
			return fmt.Sprintf("*(%s)@%s", pr.addrKeyRaw(x.X, ver), ver(x))
		}
	case *ssa.ChangeType:
		return pr.keyRaw(x.X, ver)
	case *ssa.Call:
		if bi, ok := x.Call.Value.(*ssa.Builtin); ok && bi.Name() == "ssa:wrapnilchk" {
			return pr.keyRaw(x.Call.Args[0], ver)
		}
		// a component accessor — func (v T) key() E { return v[0] } / { return v.f } on a by-value array or struct —
		// applied to one of this function's own by-value parameters: the component itself
		if sc := x.Call.StaticCallee(); sc != nil && len(sc.Blocks) == 1 && len(sc.Params) >= 1 {
			if ret, ok := terminator(sc.Blocks[0]).(*ssa.Return); ok && len(ret.Results) == 1 {
				comp := ""
				var of *ssa.Parameter
				switch r := ret.Results[0].(type) {
				case *ssa.Index:
					if k, isC := constInt(r.Index); isC {
						if prm, isP := r.X.(*ssa.Parameter); isP {
							comp, of = fmt.Sprintf("[%d]", k), prm
						}
					}
				case *ssa.Field:
					if prm, isP := r.X.(*ssa.Parameter); isP {
						comp, of = fmt.Sprintf(".%d", r.Field), prm
					}
				case *ssa.UnOp:
					if r.Op == token.MUL {
						switch a := r.X.(type) {
						case *ssa.IndexAddr:
							if al, ok := a.X.(*ssa.Alloc); ok {
								if k, isC := constInt(a.Index); isC {
									if prm := paramSpill(al); prm != nil {
										comp, of = fmt.Sprintf("[%d]", k), prm
									}
								}
							}
						case *ssa.FieldAddr:
							if al, ok := a.X.(*ssa.Alloc); ok {
								if prm := paramSpill(al); prm != nil {
									comp, of = fmt.Sprintf(".%d", a.Field), prm
								}
							}
						}
					}
				}
				if of != nil {
					pure := true
					for _, ins := range sc.Blocks[0].Instrs {
						switch ins.(type) {
						case *ssa.Call, *ssa.MapUpdate, *ssa.Send, *ssa.Go, *ssa.Defer:
							pure = false
						case *ssa.Store:
							if st := ins.(*ssa.Store); !isSpillStore(st) {
								pure = false
							}
						}
					}
					for i, q := range sc.Params {
						if q == of && pure && i < len(x.Call.Args) {
							if ap, isP := x.Call.Args[i].(*ssa.Parameter); isP {
								return "p:" + ap.Name() + comp
							}
							if ld, isL := x.Call.Args[i].(*ssa.UnOp); isL && ld.Op == token.MUL {
								if al, ok := ld.X.(*ssa.Alloc); ok {
									if ap := paramSpill(al); ap != nil {
										return "p:" + ap.Name() + comp
									}
								}
							}
						}
					}
				}
			}
		}
	case *ssa.FieldAddr, *ssa.IndexAddr:
		return pr.addrKeyRaw(v, ver)
	case *ssa.Convert:
		// value-preserving integer widenings keep the key
		if pr.convPreserves(x) {
			return pr.keyRaw(x.X, ver)
		}
	}
	if n := v.Name(); n != "" {
		return n
	}
	return fmt.Sprintf("%p", v)
}

// isSpillStore: the store that puts a by-value parameter into its private local home.
func isSpillStore(st *ssa.Store) bool {
	al, ok := st.Addr.(*ssa.Alloc)
	if !ok {
		return false
	}
	_, isP := st.Val.(*ssa.Parameter)
	return isP && paramSpill(al) != nil
}

// convPreserves: the conversion cannot change the numeric value.
func (pr *Prover) convPreserves(x *ssa.Convert) bool {
	from, ok1 := x.X.Type().Underlying().(*types.Basic)
	to, ok2 := x.Type().Underlying().(*types.Basic)
	if !ok1 || !ok2 || from.Info()&types.IsInteger == 0 || to.Info()&types.IsInteger == 0 {
		return false
	}
	flo, fhi := pr.typeRange(from)
	tlo, thi := pr.typeRange(to)
	return flo >= tlo && fhi <= thi
}

func (pr *Prover) typeRange(b *types.Basic) (float64, float64) {
	sz := pr.p.U.Sizes.Sizeof(b) * 8
	if b.Info()&types.IsUnsigned != 0 {
		return 0, math.Pow(2, float64(sz)) - 1
	}
	return -math.Pow(2, float64(sz-1)), math.Pow(2, float64(sz-1)) - 1
}

// ---------- linear forms ----------

func (pr *Prover) atomRange(a string, lo, hi float64) {
	if r, ok := pr.ranges[a]; ok {
		if r[0] > lo {
			lo = r[0]
		}
		if r[1] < hi {
			hi = r[1]
		}
	}
	pr.ranges[a] = [2]float64{lo, hi}
}

func (pr *Prover) intTypeRange(t types.Type) (float64, float64, bool) {
	b, ok := t.Underlying().(*types.Basic)
	if !ok || b.Info()&types.IsInteger == 0 {
		return 0, 0, false
	}
	lo, hi := pr.typeRange(b)
	return lo, hi, true
}

// rangeOfLin: interval of a linear form from its atoms' ranges.
func (pr *Prover) rangeOfLin(l Lin) (float64, float64) {
	lo, hi := float64(l.c), float64(l.c)
	for a, k := range l.coef {
		r, ok := pr.ranges[a]
		if !ok {
			return math.Inf(-1), math.Inf(1)
		}
		if k > 0 {
			lo += float64(k) * r[0]
			hi += float64(k) * r[1]
		} else {
			lo += float64(k) * r[1]
			hi += float64(k) * r[0]
		}
	}
	return lo, hi
}

func (pr *Prover) opaque(v ssa.Value) Lin {
	a := pr.key(v)
	if lo, hi, ok := pr.intTypeRange(v.Type()); ok {
		pr.atomRange(a, lo, hi)
	}
	if ph, ok := v.(*ssa.Phi); ok {
		if pr.phiAtoms == nil {
			pr.phiAtoms = map[string]*ssa.Phi{}
		}
		pr.phiAtoms[a] = ph
	}
	if ld, ok := v.(*ssa.UnOp); ok && ld.Op == token.MUL {
		pr.noteTableLoad(a, ld)
		pr.noteStructTableLoad(a, ld)
	}
	if prm, ok := v.(*ssa.Parameter); ok && pr.fn.Parent() != nil {
		if lo, hi, ok := pr.p.closureParamRange(pr.fn, paramIndex(pr.fn, prm)); ok {
			pr.atomRange(a, lo, hi)
		}
	}
	if ld, ok := v.(*ssa.UnOp); ok && ld.Op == token.MUL && pr.cur != nil {
		if base, ok := pr.cur.isField(ld.X, pr.cur.I); ok {
			pr.atomRange(a, 0, math.MaxInt64) // K3: offset >= 0
			pr.iLoads[a] = base
		}
	}
	return linAtom(a)
}

// cursorFacts: offset <= len(data) for every loaded offset (K3).
func (pr *Prover) cursorFacts() []Lin {
	var out []Lin
	for a, base := range pr.iLoads {
		var dlen Lin
		have := false
		if al, ok := base.(*ssa.Alloc); ok {
			dlen, have = linConst(0), true
			for _, r := range *al.Referrers() {
				fa, ok := r.(*ssa.FieldAddr)
				if !ok || fa.Field != pr.cur.D {
					continue
				}
				for _, r2 := range *fa.Referrers() {
					if st, ok := r2.(*ssa.Store); ok && st.Addr == ssa.Value(fa) {
						dlen = pr.lenOf(st.Val)
					}
				}
			}
		}
		if call, ok := base.(*ssa.Call); ok && !have {
			// a reader made by a constructor of the library: its data is the constructor's argument
			if d, isNew := pr.cur.newReader(call); isNew && d != nil {
				dlen, have = pr.lenOf(d), true
			}
		}
		if !have {
			k := fmt.Sprintf("len(*(&(%s).%d))", pr.key(base), pr.cur.D)
			pr.atomRange(k, 0, math.MaxInt64)
			dlen = linAtom(k)
		}
		out = append(out, dlen.sub(linAtom(a)))
	}
	return out
}

// lin returns the linear form of an integer-typed value.
func (pr *Prover) lin(v ssa.Value) Lin {
	if m, ok := pr.linMemo[v]; ok {
		if m == nil { // cycle
			return pr.opaque(v)
		}
		return *m
	}
	pr.linMemo[v] = nil
	r := pr.linRaw(v)
	pr.linMemo[v] = &r
	return r
}

func isWordInt(t types.Type) bool {
	b, ok := t.Underlying().(*types.Basic)
	if !ok {
		return false
	}
	switch b.Kind() {
	case types.Int, types.Int64, types.Uint, types.Uint64, types.Uintptr, types.UntypedInt:
		return true
	}
	return false
}

func (pr *Prover) linRaw(v ssa.Value) Lin {
	switch x := v.(type) {
	case *ssa.Const:
		if x.Value != nil && x.Value.Kind() == constant.Int {
			if i, ok := constant.Int64Val(x.Value); ok {
				return linConst(i)
			}
		}
	case *ssa.ChangeType:
		return pr.lin(x.X)
	case *ssa.Convert:
		if _, _, ok := pr.intTypeRange(x.X.Type()); ok {
			inner := pr.lin(x.X)
			if pr.convPreserves(x) {
				return inner
			}
			// not value preserving in general; exact if the operand's range fits
			if lo, hi, ok := pr.intTypeRange(x.Type()); ok {
				ilo, ihi := pr.rangeOfLin(inner)
				if ilo >= lo && ihi <= hi {
					return inner
				}
			}
		}
	case *ssa.UnOp:
		if x.Op == token.MUL {
			if f, ok := pr.fwd[x]; ok {
				return pr.lin(f)
			}
		}
		if x.Op == token.SUB {
			if isWordInt(x.Type()) {
				return pr.lin(x.X).scale(-1)
			}
		}
	case *ssa.BinOp:
		if _, _, ok := pr.intTypeRange(x.Type()); !ok {
			break
		}
		var r Lin
		have := false
		switch x.Op {
		case token.ADD:
			r, have = pr.lin(x.X).add(pr.lin(x.Y)), true
		case token.SUB:
			r, have = pr.lin(x.X).sub(pr.lin(x.Y)), true
		case token.MUL:
			if k, ok := constInt(x.Y); ok {
				r, have = pr.lin(x.X).scale(k), true
			} else if k, ok := constInt(x.X); ok {
				r, have = pr.lin(x.Y).scale(k), true
			}
		case token.SHL:
			if k, ok := constInt(x.Y); ok && k >= 0 && k < 31 {
				r, have = pr.lin(x.X).scale(1<<uint(k)), true
			}
		case token.AND:
			// x & mask: result in [0, mask] for a non-negative constant mask
			if k, ok := constInt(x.Y); ok && k >= 0 {
				a := pr.opaque(v)
				pr.atomRange(pr.key(v), 0, float64(k))
				return a
			}
			if k, ok := constInt(x.X); ok && k >= 0 {
				a := pr.opaque(v)
				pr.atomRange(pr.key(v), 0, float64(k))
				return a
			}
		case token.OR, token.XOR:
			// x | y of two non-negative values stays below the next power of two above both
			llo, lhi := pr.rangeOfLin(pr.lin(x.X))
			rlo, rhi := pr.rangeOfLin(pr.lin(x.Y))
			if llo >= 0 && rlo >= 0 && lhi < 1e15 && rhi < 1e15 {
				m := math.Max(lhi, rhi)
				bound := float64(1)
				for bound <= m {
					bound *= 2
				}
				if _, thi, ok := pr.intTypeRange(x.Type()); ok && bound-1 <= thi {
					a := pr.opaque(v)
					pr.atomRange(pr.key(v), 0, bound-1)
					return a
				}
			}
		case token.REM:
			if k, ok := constInt(x.Y); ok && k > 0 {
				if b := x.Type().Underlying().(*types.Basic); b.Info()&types.IsUnsigned != 0 {
					a := pr.opaque(v)
					pr.atomRange(pr.key(v), 0, float64(k-1))
					return a
				}
			}
		case token.SHR:
			// unsigned x >> k: result in [0, hi(x) >> k]
			if k, ok := constInt(x.Y); ok && k >= 0 && k < 63 {
				if b, isB := x.X.Type().Underlying().(*types.Basic); isB && b.Info()&types.IsUnsigned != 0 {
					a := pr.opaque(v)
					_, hi := pr.rangeOfLin(pr.lin(x.X))
					if hi >= 0 && !math.IsInf(hi, 0) && hi < 1e18 {
						pr.atomRange(pr.key(v), 0, float64(int64(hi)>>uint(k)))
					}
					return a
				}
			}
		case token.QUO:
			if k, ok := constInt(x.Y); ok && k > 0 {
				if b := x.Type().Underlying().(*types.Basic); b.Info()&types.IsUnsigned != 0 {
					a := pr.opaque(v)
					_, hi := pr.rangeOfLin(pr.lin(x.X))
					pr.atomRange(pr.key(v), 0, math.Floor(hi/float64(k)))
					return a
				}
			}
		}
		if have {
			unsignedSub := false
			if bt, ok := x.Type().Underlying().(*types.Basic); ok && bt.Info()&types.IsUnsigned != 0 && x.Op == token.SUB {
				unsignedSub = true // a - b on an unsigned type wraps below zero: not an "overflow at huge values"
			}
			if isWordInt(x.Type()) && !unsignedSub {
				return r // lengths and offsets: no overflow (DESIGN §3)
			}
			if unsignedSub && isWordInt(x.Type()) {
				if rlo, _ := pr.rangeOfLin(r); rlo >= 0 {
					return r // cannot wrap below zero
				}
				a := pr.opaque(v)
				if pr.narrowDefs == nil {
					pr.narrowDefs = map[string]narrowDef{}
				}
				pr.narrowDefs[pr.key(v)] = narrowDef{r, 0, math.MaxFloat64}
				pr.atomRange(pr.key(v), 0, math.Inf(1))
				return a
			}
			if lo, hi, ok := pr.intTypeRange(x.Type()); ok {
				rlo, rhi := pr.rangeOfLin(r)
				if rlo >= lo && rhi <= hi {
					return r // cannot wrap
				}
			}
			// may wrap in a narrow type: opaque, with a definition that holds
			// wherever the facts exclude the wrap
			a := pr.opaque(v)
			if lo, hi, ok := pr.intTypeRange(x.Type()); ok {
				if pr.narrowDefs == nil {
					pr.narrowDefs = map[string]narrowDef{}
				}
				pr.narrowDefs[pr.key(v)] = narrowDef{r, lo, hi}
			}
			return a
		}
	case *ssa.Call:
		if bi, ok := x.Call.Value.(*ssa.Builtin); ok {
			switch bi.Name() {
			case "len":
				return pr.lenOf(x.Call.Args[0])
			case "cap":
				a := linAtom("cap(" + pr.key(x.Call.Args[0]) + ")")
				pr.atomRange("cap("+pr.key(x.Call.Args[0])+")", 0, math.MaxInt64)
				return a
			case "copy":
				// min(len dst, len src): exactly len(src) when the destination was made that long, else an atom
				dl, sl := pr.lenOf(x.Call.Args[0]), pr.lenOf(x.Call.Args[1])
				if dl.equal(sl) {
					return sl
				}
				a := pr.opaque(v)
				pr.atomRange(pr.key(v), 0, math.MaxInt64)
				return a
			}
		}
		if l, ok := pr.callLin(x); ok {
			return l
		}
	case *ssa.Phi:
		// all edges equal?
		if len(x.Edges) > 0 {
			first := pr.lin(x.Edges[0])
			same := true
			for _, e := range x.Edges[1:] {
				if !pr.lin(e).equal(first) {
					same = false
				}
			}
			if same {
				return first
			}
		}
		a := pr.opaque(v)
		// range = join of edge ranges (ignoring self-referential edges)
		lo, hi := math.Inf(1), math.Inf(-1)
		okAll := true
		for _, e := range x.Edges {
			el := pr.lin(e)
			if _, self := el.coef[pr.key(v)]; self {
				okAll = false
				continue
			}
			l, h := pr.rangeOfLin(el)
			lo, hi = math.Min(lo, l), math.Max(hi, h)
		}
		if okAll && !math.IsInf(lo, 0) {
			pr.atomRange(pr.key(v), lo, hi)
		}
		return a
	}
	return pr.opaque(v)
}

// lenOf: linear form of len(x).
func (pr *Prover) lenOf(x ssa.Value) Lin {
	switch y := x.(type) {
	case *ssa.ChangeType:
		return pr.lenOf(y.X)
	case *ssa.Slice:
		var lo, hi Lin
		if y.Low != nil {
			lo = pr.lin(y.Low)
		} else {
			lo = linConst(0)
		}
		if y.High != nil {
			hi = pr.lin(y.High)
		} else {
			hi = pr.lenOfBase(y.X)
		}
		return hi.sub(lo)
	case *ssa.MakeSlice:
		return pr.lin(y.Len)
	case *ssa.Convert:
		if c, ok := y.X.(*ssa.Const); ok && c.Value != nil && c.Value.Kind() == constant.String {
			return linConst(int64(len(constant.StringVal(c.Value))))
		}
		// []byte(s) / string(b): same length
		if isStringT(y.X.Type().Underlying()) || isStringT(y.Type().Underlying()) {
			if isByteSlice(y.X.Type()) || isByteSlice(y.Type()) {
				return pr.lenOf(y.X)
			}
		}
	case *ssa.Const:
		if y.Value == nil {
			return linConst(0)
		}
		if y.Value.Kind() == constant.String {
			return linConst(int64(len(constant.StringVal(y.Value))))
		}
	case *ssa.UnOp:
		if y.Op == token.MUL {
			if f, ok := pr.fwd[y]; ok {
				return pr.lenOf(f)
			}
			if fv, ok := y.X.(*ssa.FreeVar); ok {
				if n, ok := pr.p.freeCellLen(fv); ok {
					return linConst(n)
				}
			}
		}
	case *ssa.Call:
		if sc := y.Call.StaticCallee(); sc != nil && fullName(sc) == "bytes.Repeat" {
			if k, ok := constInt(y.Call.Args[1]); ok {
				return pr.lenOf(y.Call.Args[0]).scale(k)
			}
		}
	case *ssa.Phi:
		// a loop-carried slice (`data = data[n:]` in a loop) refers to itself: its length is an atom of its own
		if pr.lenBusy == nil {
			pr.lenBusy = map[*ssa.Phi]bool{}
		}
		if len(y.Edges) > 0 && !pr.lenBusy[y] {
			pr.lenBusy[y] = true
			first := pr.lenOf(y.Edges[0])
			same := true
			for _, e := range y.Edges[1:] {
				if !pr.lenOf(e).equal(first) {
					same = false
				}
			}
			delete(pr.lenBusy, y)
			if same {
				return first
			}
		}
	}
	if at, ok := x.Type().Underlying().(*types.Array); ok {
		return linConst(at.Len())
	}
	a := "len(" + pr.key(x) + ")"
	pr.atomRange(a, 0, math.MaxInt64)
	return linAtom(a)
}

// lenOfBase: length of the operand of a slice expression (may be *array).
func (pr *Prover) lenOfBase(x ssa.Value) Lin {
	if pt, ok := x.Type().Underlying().(*types.Pointer); ok {
		if at, ok := pt.Elem().Underlying().(*types.Array); ok {
			return linConst(at.Len())
		}
	}
	return pr.lenOf(x)
}

// ---------- facts ----------

// condFacts: linear facts implied by cond being `truth`.
func (pr *Prover) condFacts(cond ssa.Value, truth bool) []Lin {
	switch x := cond.(type) {
	case *ssa.UnOp:
		if x.Op == token.NOT {
			return pr.condFacts(x.X, !truth)
		}
	case *ssa.BinOp:
		if _, _, ok := pr.intTypeRange(x.X.Type()); !ok {
			return nil
		}
		a, b := pr.lin(x.X), pr.lin(x.Y)
		op := x.Op
		if !truth {
			switch op {
			case token.LSS:
				op = token.GEQ
			case token.LEQ:
				op = token.GTR
			case token.GTR:
				op = token.LEQ
			case token.GEQ:
				op = token.LSS
			case token.EQL:
				op = token.NEQ
			case token.NEQ:
				op = token.EQL
			}
		}
		switch op {
		case token.LSS: // a < b  => b - a - 1 >= 0
			return []Lin{b.sub(a).addConst(-1)}
		case token.LEQ:
			return []Lin{b.sub(a)}
		case token.GTR:
			return []Lin{a.sub(b).addConst(-1)}
		case token.GEQ:
			return []Lin{a.sub(b)}
		case token.EQL:
			return []Lin{a.sub(b), b.sub(a)}
		case token.NEQ:
			d := a.sub(b)
			lo, hi := pr.rangeOfLin(d)
			if lo >= 0 {
				return []Lin{d.addConst(-1)}
			}
			if hi <= 0 {
				return []Lin{d.scale(-1).addConst(-1)}
			}
		}
	case *ssa.Call:
		// tiny pure helper returning a comparison: inline
		if fs, ok := pr.inlineCond(x, truth); ok {
			return fs
		}
	case *ssa.Phi:
		// a && b / a || b lowered to a boolean phi: when the phi has the value
		// `truth`, control came through the one edge that can deliver it
		var via []int
		for i, e := range x.Edges {
			if c, ok := e.(*ssa.Const); ok && c.Value != nil && c.Value.Kind() == constant.Bool {
				if constant.BoolVal(c.Value) == truth {
					via = append(via, -1) // a constant edge delivering it: no information
				}
				continue
			}
			via = append(via, i)
		}
		if len(via) == 1 && via[0] >= 0 {
			i := via[0]
			pred := x.Block().Preds[i]
			out := pr.condFacts(x.Edges[i], truth)
			for _, dc := range domConds(pred) {
				out = append(out, pr.condFacts(dc.cond, dc.truth)...)
			}
			return out
		}
	}
	return nil
}

// domConds lists (cond, truth) pairs of branch edges that dominate block b.
type domCond struct {
	cond  ssa.Value
	truth bool
	from  *ssa.BasicBlock
}

func domConds(b *ssa.BasicBlock) []domCond {
	var out []domCond
	for d := b; d != nil; d = d.Idom() {
		id := d.Idom()
		if id == nil {
			break
		}
		iff, ok := terminator(id).(*ssa.If)
		if !ok {
			continue
		}
		for k := 0; k < 2; k++ {
			if edgeDominates(id, id.Succs[k], b) && id.Succs[0] != id.Succs[1] {
				out = append(out, domCond{iff.Cond, k == 0, id})
			}
		}
	}
	return out
}

// factsAt: linear facts valid on entry to block b (and throughout it).
func (pr *Prover) factsAt(b *ssa.BasicBlock) []Lin {
	facts := append([]Lin(nil), pr.assume...)
	for _, dc := range domConds(b) {
		facts = append(facts, pr.condFacts(dc.cond, dc.truth)...)
	}
	return facts
}

// withRanges adds the range facts of every atom mentioned.
func (pr *Prover) withRanges(facts []Lin, goal Lin) []Lin {
	seen := map[string]bool{}
	out := append([]Lin(nil), facts...)
	addA := func(a string) {
		if seen[a] {
			return
		}
		seen[a] = true
		if r, ok := pr.ranges[a]; ok {
			if !math.IsInf(r[0], 0) && r[0] > -9e18 {
				out = append(out, linAtom(a).addConst(-int64(r[0])))
			}
			if !math.IsInf(r[1], 0) && r[1] < 9e18 {
				out = append(out, linAtom(a).scale(-1).addConst(int64(r[1])))
			}
		}
	}
	for _, f := range facts {
		for a := range f.coef {
			addA(a)
		}
	}
	for a := range goal.coef {
		addA(a)
	}
	return out
}

// Prove: goal >= 0 at block b?
func (pr *Prover) Prove(b *ssa.BasicBlock, goal Lin, extra ...Lin) bool {
	return pr.proveDepth(b, goal, extra, 0)
}

func (pr *Prover) proveDepth(b *ssa.BasicBlock, goal Lin, extra []Lin, depth int) bool {
	facts := append(pr.factsAt(b), extra...)
	facts = append(facts, pr.phiFacts(goal, facts)...)
	if pr.cur != nil {
		facts = append(facts, pr.cursorFacts()...)
	}
	facts = append(facts, pr.postFacts(b)...)
	facts = append(facts, pr.narrowFacts(facts, goal)...)
	facts = append(facts, pr.tableFacts(facts, goal)...)
	if entails(pr.withRanges(facts, goal), goal) {
		return true
	}
	if depth >= 3 {
		return false
	}
	// case split on a merge (non-loop) phi mentioned in the goal
	for _, a := range goal.atoms() {
		ph, ok := pr.phiAtoms[a]
		if !ok || !ph.Block().Dominates(b) {
			continue
		}
		if lp := loopContaining(pr.fn, ph.Block()); lp != nil && lp.Header == ph.Block() {
			continue
		}
		all := true
		for i, e := range ph.Edges {
			pred := ph.Block().Preds[i]
			if pr.Infeasible(pred) {
				continue
			}
			sub := pr.lin(e)
			g2 := substAtom(goal, a, sub)
			var ex2 []Lin
			for _, f := range facts {
				ex2 = append(ex2, substAtom(f, a, sub))
			}
			ex2 = append(ex2, pr.factsAt(pred)...)
			if !entails(pr.withRanges(ex2, g2), g2) && !pr.proveDepth(pred, g2, ex2, depth+1) {
				all = false
				break
			}
		}
		if all {
			return true
		}
	}
	return false
}

func substAtom(l Lin, a string, by Lin) Lin {
	k, ok := l.coef[a]
	if !ok {
		return l
	}
	r := l.clone()
	delete(r.coef, a)
	return r.add(by.scale(k))
}

// phiFacts: for loop-carried phis of the form phi[init, phi+c] with c >= 0,
// phi >= init (and <= init if c <= 0).
func (pr *Prover) phiFacts(goal Lin, facts []Lin) []Lin {
	var out []Lin
	seen := map[string]bool{}
	for _, b := range pr.fn.Blocks {
		for _, ins := range b.Instrs {
			phi, ok := ins.(*ssa.Phi)
			if !ok {
				break
			}
			if _, _, ok := pr.intTypeRange(phi.Type()); !ok {
				continue
			}
			k := pr.key(phi)
			if seen[k] {
				continue
			}
			seen[k] = true
			me := pr.lin(phi)
			if len(me.coef) != 1 || me.coef[k] != 1 || me.c != 0 {
				continue // collapsed
			}
			var inits []Lin
			mono := 0 // +1 nondecreasing, -1 nonincreasing
			okPhi := true
			for _, e := range phi.Edges {
				el := pr.lin(e)
				d := el.sub(me)
				if _, self := el.coef[k]; self && el.coef[k] == 1 {
					// phi + d: monotone if d has a known sign
					lo, hi := pr.rangeOfLin(d)
					switch {
					case lo >= 0 && hi <= 0:
					case lo >= 0 && mono >= 0:
						mono = 1
					case hi <= 0 && mono <= 0:
						mono = -1
					default:
						okPhi = false
					}
					continue
				}
				if _, self := el.coef[k]; self {
					okPhi = false
				}
				inits = append(inits, el)
			}
			if !okPhi || len(inits) != 1 {
				continue
			}
			if mono >= 0 {
				out = append(out, me.sub(inits[0]))
			}
			if mono <= 0 {
				out = append(out, inits[0].sub(me))
			}
		}
	}
	return out
}

// ---------- nil facts ----------

// NonNil: is v known to be non-nil at the point of instruction `at`?
func (pr *Prover) NonNil(v ssa.Value, at *ssa.BasicBlock, depth int) bool {
	if depth > 8 {
		return false
	}
	switch x := v.(type) {
	case *ssa.Alloc, *ssa.MakeSlice, *ssa.MakeMap, *ssa.MakeChan, *ssa.MakeClosure, *ssa.MakeInterface,
		*ssa.FieldAddr, *ssa.IndexAddr, *ssa.Function, *ssa.Global:
		return true
	case *ssa.Const:
		return x.Value != nil
	case *ssa.ChangeType:
		return pr.NonNil(x.X, at, depth+1)
	case *ssa.ChangeInterface:
		return pr.NonNil(x.X, at, depth+1)
	case *ssa.Convert:
		return pr.NonNil(x.X, at, depth+1) || isStringT(x.X.Type().Underlying())
	case *ssa.Slice:
		return pr.NonNil(x.X, at, depth+1)
	case *ssa.Phi:
		for _, e := range x.Edges {
			if !pr.NonNil(e, at, depth+1) {
				goto facts
			}
		}
		return true
	case *ssa.UnOp:
		if x.Op == token.MUL {
			if f, ok := pr.fwd[x]; ok && pr.NonNil(f, at, depth+1) {
				return true
			}
			if fv, ok := x.X.(*ssa.FreeVar); ok && pr.p.freeCellNonNil(fv) {
				return true
			}
			// a pointer field of a local struct (a by-value parameter spilled, a composite temporary) that only ever
			// holds non-nil values, followed through copies and the call sites of unexported functions
			if _, isFA := x.X.(*ssa.FieldAddr); isFA && depth < 3 && pr.p.aggFieldStrongNonNil(x) {
				return true
			}
			if gl, ok := x.X.(*ssa.Global); ok && pr.p.nonNilGlobalValue(gl) {
				return true // assigned once, in init, from fmt.Errorf / errors.New
			}
			// an element of a package-level array that init fills completely with functions and nothing modifies
			// (a dispatch table `packetMakers[typ>>4]`)
			if ia, ok := x.X.(*ssa.IndexAddr); ok {
				if gl, ok := ia.X.(*ssa.Global); ok && pr.p.initArrayAllNonNil(gl) {
					return true
				}
			}
			if fa, ok := x.X.(*ssa.FieldAddr); ok {
				// a function (or pointer) field of an element of a package-level table that init fills with non-nil
				// constants in every element and nothing modifies
				if gs := pr.tableGlobalsOf(fa); len(gs) > 0 {
					all := true
					for _, g := range gs {
						if !pr.p.constStructTableNonNil(g, fa.Field) {
							all = false
						}
					}
					if all {
						return true
					}
				}
			}
			if fa, ok := x.X.(*ssa.FieldAddr); ok && len(pr.fieldNN) > 0 {
				if _, isRecv := recvBase(pr.p, pr.fn, fa.X); isRecv && pr.fieldNN[fieldNeedKey(fa)] {
					return true
				}
			}
			if fa, ok := x.X.(*ssa.FieldAddr); ok && len(pr.guardedNN) > 0 {
				if inv, has := pr.guardedNN[fieldNeedKey(fa)]; has {
					if _, isRecv := recvBase(pr.p, pr.fn, fa.X); isRecv {
						if g, m, ok := guardOf(pr, at, fa.X); ok && g == inv.G && m == inv.Mask {
							return true
						}
					}
				}
			}
		}
	case *ssa.Call:
		if bi, ok := x.Call.Value.(*ssa.Builtin); ok && bi.Name() == "ssa:wrapnilchk" {
			return true // panics otherwise; the argument is an obligation of its own
		}
		if pr.callNonNil(x) {
			return true
		}
	case *ssa.Extract:
		if call, ok := x.Tuple.(*ssa.Call); ok && pr.callNonNilIdx(call, x.Index) {
			return true
		}
		if ta, ok := x.Tuple.(*ssa.TypeAssert); ok && x.Index == 0 {
			// v, ok := y.(*T) on the ok edge: non-nil iff y's payload is
			for _, dc := range domConds(at) {
				if ex, isEx := dc.cond.(*ssa.Extract); isEx && ex.Tuple == x.Tuple && ex.Index == 1 && dc.truth {
					if isStrongNonNil(pr, ta.X, at) {
						return true
					}
				}
			}
		}
		if nx, ok := x.Tuple.(*ssa.Next); ok && x.Index == 2 {
			// a value delivered by ranging over a map: one of the values ever stored
			if r, ok := nx.Iter.(*ssa.Range); ok && pr.p.mapValuesNonNil(r.X.Type()) {
				return true
			}
		}
		if lk, ok := x.Tuple.(*ssa.Lookup); ok && x.Index == 0 && lk.CommaOk {
			// v, ok := m[k] on the ok edge: one of the values ever stored in such a map
			for _, dc := range domConds(at) {
				if ex, isEx := dc.cond.(*ssa.Extract); isEx && ex.Tuple == x.Tuple && ex.Index == 1 && dc.truth {
					if pr.p.mapValuesNonNil(lk.X.Type()) {
						return true
					}
				}
			}
		}
	case *ssa.TypeAssert:
		if !x.CommaOk {
			// succeeded (else panicked: its own obligation); payload non-nil iff strong
			if isStrongNonNil(pr, x.X, at) || pr.strongWhenNonNil(x.X) && pr.NonNil(x.X, at, depth+1) {
				return true
			}
		}
	}
facts:
	k := pr.key(v)
	if pr.nnAssume[k] {
		return true
	}
	for _, dc := range domConds(at) {
		if pr.nilCond(dc.cond, dc.truth, k) {
			return true
		}
	}
	return false
}

// nilCond: does cond==truth imply that the value with key k is non-nil?
func (pr *Prover) nilCond(cond ssa.Value, truth bool, k string) bool {
	switch x := cond.(type) {
	case *ssa.UnOp:
		if x.Op == token.NOT {
			return pr.nilCond(x.X, !truth, k)
		}
	case *ssa.BinOp:
		var other ssa.Value
		if isNilConst(x.Y) {
			other = x.X
		} else if isNilConst(x.X) {
			other = x.Y
		} else {
			return false
		}
		if pr.key(other) != k {
			return false
		}
		return x.Op == token.NEQ && truth || x.Op == token.EQL && !truth
	}
	return false
}

// ---------- callee summaries ----------

type retSummary struct {
	lower  float64 // all returns >= lower (result 0), -Inf if unknown
	exact  *Lin    // result 0 as a linear form over "p:<param>" and "len(p:<param>)" atoms, if all returns agree
	nonNil []bool  // per result: always non-nil
	done   bool
}

func (p *Prog) retSummary(fn *ssa.Function) *retSummary {
	tag, _ := p.cache["spectag"].(string)
	key := "ret:" + tag + ":" + fn.String() + fmt.Sprint(fn.Pos())
	if v, ok := p.cache[key]; ok {
		if v == nil {
			return &retSummary{lower: math.Inf(-1)}
		}
		return v.(*retSummary)
	}
	p.cache[key] = nil
	rs := &retSummary{lower: math.Inf(-1)}
	nres := fn.Signature.Results().Len()
	rs.nonNil = make([]bool, nres)
	if fn.Blocks == nil || nres == 0 {
		p.cache[key] = rs
		return rs
	}
	pr := NewProver(p, fn)
	pr.assumeContracts()
	for _, fv := range fn.FreeVars {
		pr.nnAssume[pr.key(fv)] = true
	}
	for i := range rs.nonNil {
		rs.nonNil[i] = true
	}
	var exact *Lin
	exactOK := true
	lower := math.Inf(1)
	isInt := false
	if _, _, ok := pr.intTypeRange(fn.Signature.Results().At(0).Type()); ok {
		isInt = true
	}
	nret := 0
	for _, b := range fn.Blocks {
		ret, ok := terminator(b).(*ssa.Return)
		if !ok || pr.Infeasible(b) {
			continue
		}
		nret++
		for i, r := range ret.Results {
			if !isStrongNonNil(pr, r, b) {
				rs.nonNil[i] = false
			}
		}
		if !isInt {
			continue
		}
		l := pr.lin(ret.Results[0])
		// exact form must only mention parameters
		for a := range l.coef {
			if !(strings.HasPrefix(a, "p:") || strings.HasPrefix(a, "len(p:")) {
				exactOK = false
			}
		}
		if exact == nil {
			c := l.clone()
			exact = &c
		} else if !exact.equal(l) {
			exactOK = false
		}
		// lower bound: largest k in the candidate list that is provable
		best := math.Inf(-1)
		for _, k := range []int64{4, 2, 1, 0} {
			if pr.Prove(b, l.addConst(-k)) {
				best = float64(k)
				break
			}
		}
		lower = math.Min(lower, best)
	}
	if nret == 0 {
		lower = math.Inf(-1)
	}
	if isInt {
		rs.lower = lower
		if exactOK && exact != nil {
			rs.exact = exact
			if lo, _ := pr.rangeOfLin(*exact); lo > rs.lower {
				rs.lower = lo
			}
		}
	}
	rs.done = true
	p.cache[key] = rs
	return rs
}

// callLin: linear form (or ranged atom) for an integer call result.
func (pr *Prover) callLin(call *ssa.Call) (Lin, bool) {
	if _, _, ok := pr.intTypeRange(call.Type()); !ok {
		return Lin{}, false
	}
	if l, ok := pr.inlineLin(call); ok {
		return l, true
	}
	callees, ext := pr.p.CG().Callees(call)
	if ext || len(callees) == 0 {
		return Lin{}, false
	}
	cc := call.Common()
	var args []ssa.Value
	if cc.IsInvoke() {
		args = append(args, cc.Value)
	}
	args = append(args, cc.Args...)
	if len(callees) == 1 && !cc.IsInvoke() {
		rs := pr.p.retSummary(callees[0])
		if rs.exact != nil && len(callees[0].FreeVars) == 0 {
			// substitute parameters
			out := linConst(rs.exact.c)
			ok := true
			for a, k := range rs.exact.coef {
				var sub Lin
				found := false
				for i, prm := range callees[0].Params {
					if i >= len(args) {
						break
					}
					if a == "p:"+prm.Name() {
						sub, found = pr.lin(args[i]), true
					} else if a == "len(p:"+prm.Name()+")" {
						sub, found = pr.lenOf(args[i]), true
					} else if pre := "len(p:" + prm.Name(); strings.HasPrefix(a, pre) && (a[len(pre)] == '[' || a[len(pre)] == '.') {
						// length of an element / field of a by-value aggregate argument
						ak := pr.key(args[i])
						if strings.HasPrefix(ak, "p:") {
							na := "len(" + ak + a[len(pre):]
							pr.atomRange(na, 0, math.MaxInt64)
							sub, found = linAtom(na), true
						}
					}
				}
				if !found {
					ok = false
					break
				}
				out = out.add(sub.scale(k))
			}
			if ok {
				return out, true
			}
		}
	}
	lower := math.Inf(1)
	for _, cal := range callees {
		lower = math.Min(lower, pr.p.retSummary(cal).lower)
	}
	a := pr.opaque(call)
	if !math.IsInf(lower, 0) {
		pr.atomRange(pr.key(call), lower, math.MaxInt64)
	}
	return a, true
}

func (pr *Prover) callNonNil(call *ssa.Call) bool { return pr.callNonNilIdx(call, 0) }

func (pr *Prover) callNonNilIdx(call *ssa.Call, idx int) bool {
	if sc := call.Common().StaticCallee(); sc != nil && sc.Blocks == nil {
		switch fullName(sc) {
		case "fmt.Errorf", "errors.New", "bytes.Repeat":
			return idx == 0
		}
		return false
	}
	callees, ext := pr.p.CG().Callees(call)
	if ext || len(callees) == 0 {
		return false
	}
	for _, cal := range callees {
		rs := pr.p.retSummary(cal)
		if idx >= len(rs.nonNil) || !rs.nonNil[idx] {
			return false
		}
	}
	return true
}

// assumeContracts installs the entry assumptions of DESIGN §2 (K0, K1).
func (pr *Prover) assumeContracts() {
	fn := pr.fn
	// K0: receivers (first parameter of methods, bound receivers) are non-nil
	if fn.Signature.Recv() != nil && len(fn.Params) > 0 {
		pr.nnAssume[pr.key(fn.Params[0])] = true
	}
	// K0 for packets handed to exported functions through an mq interface: a
	// non-nil interface value wraps a non-nil pointer
	if fn.Parent() == nil && fn.Object() != nil && fn.Object().Exported() && fn.Signature.Recv() == nil {
		for _, prm := range fn.Params {
			if nt := namedOf(prm.Type()); nt != nil && nt.Obj().Pkg() == pr.p.Pkg && types.IsInterface(prm.Type()) {
				if pr.payloadNN == nil {
					pr.payloadNN = map[string]bool{}
				}
				pr.payloadNN[pr.key(prm)] = true
			}
		}
	}
	// K1 for result-less buffer helpers (`putByte(data, i, b)`): the offset is non-negative
	if isBufHelper(fn) {
		if k := bufHelperIndex(fn); k >= 0 && k+1 < len(fn.Params) {
			pr.assume = append(pr.assume, pr.lin(fn.Params[k+1]))
		}
	}
	// K1: fill family — parameters ([]byte, int [, Ident]) result int: i >= 0
	if k := fillBufIndex(fn); k >= 0 {
		base := 0
		if fn.Signature.Recv() != nil {
			base = 1
		}
		if base+k+1 < len(fn.Params) {
			pr.assume = append(pr.assume, pr.lin(fn.Params[base+k+1]))
		}
	}
}

// isFillFamily: a function or closure whose non-receiver parameters are
// ([]byte, int) or ([]byte, int, <byte-sized named>) and whose result is int.
func isFillFamily(fn *ssa.Function) bool { return fillBufIndex(fn) >= 0 }

// fillBufIndex: the position, among the non-receiver parameters, of the buffer parameter of a fill-family
// function: result int and a []byte parameter immediately followed by an int parameter (the offset); the values
// to emit may come as receiver, before the buffer or after the offset
// (func (v T) fill(b, i), func fillX(v T, b, i), func (p *P) header(b, i, n int), func fillLen(b, i, f func(..))).
// -1 if fn is not of the family.
func fillBufIndex(fn *ssa.Function) int {
	sig := fn.Signature
	if sig.Results().Len() != 1 {
		return -1
	}
	if b, ok := sig.Results().At(0).Type().Underlying().(*types.Basic); !ok || b.Kind() != types.Int {
		return -1
	}
	ps := sig.Params()
	for k := 0; k+1 < ps.Len(); k++ {
		if !isByteSlice(ps.At(k).Type()) {
			continue
		}
		if b, ok := ps.At(k + 1).Type().Underlying().(*types.Basic); ok && b.Kind() == types.Int {
			return k
		}
		// a byte-slice value to emit in front of the buffer (`fillPropOf(v bindata, data []byte, i int, …)`): keep looking
	}
	return -1
}

// inlineCond: facts from a call of a tiny pure boolean helper, e.g.
// func (b *buffer) atEnd() bool { return b.i == len(b.data) }.  Only helpers
// consisting of a single block that returns a comparison of parameter-derived
// loads are supported; anything else yields no facts.
func (pr *Prover) inlineCond(call *ssa.Call, truth bool) ([]Lin, bool) {
	sc := call.Call.StaticCallee()
	if sc == nil || sc.Blocks == nil || len(sc.Blocks) != 1 || len(sc.FreeVars) != 0 || pr.inl > 2 {
		return nil, false
	}
	ret, ok := terminator(sc.Blocks[0]).(*ssa.Return)
	if !ok || len(ret.Results) != 1 {
		return nil, false
	}
	for _, ins := range sc.Blocks[0].Instrs {
		switch x := ins.(type) {
		case *ssa.Store, *ssa.MapUpdate, *ssa.Send, *ssa.Go, *ssa.Defer:
			return nil, false
		case *ssa.Call:
			if _, isB := x.Call.Value.(*ssa.Builtin); !isB {
				return nil, false
			}
		}
	}
	cpr := NewProver(pr.p, sc)
	cpr.inl = pr.inl + 1
	fs := cpr.condFacts(ret.Results[0], truth)
	if len(fs) == 0 {
		return nil, false
	}
	args := call.Call.Args
	var out []Lin
	for _, f := range fs {
		r := linConst(f.c)
		for a, k := range f.coef {
			found := false
			for i, prm := range sc.Params {
				if i >= len(args) {
					break
				}
				if a == "p:"+prm.Name() {
					r = r.add(pr.lin(args[i]).scale(k))
					found = true
				} else if a == "len(p:"+prm.Name()+")" {
					r = r.add(pr.lenOf(args[i]).scale(k))
					found = true
				}
			}
			if !found {
				return nil, false
			}
		}
		out = append(out, r)
	}
	return out, true
}

// mapValuesNonNil: every value ever stored into a map of this type anywhere in
// the package is non-nil (so a successful lookup yields a non-nil value).
func (p *Prog) mapValuesNonNil(t types.Type) bool {
	key := "mapnn:" + typeStr(t)
	if v, ok := p.cache[key]; ok {
		return v.(bool)
	}
	p.cache[key] = false
	res := true
	n := 0
	for _, fn := range p.AllFuncs() {
		var pr *Prover
		for _, b := range fn.Blocks {
			for _, ins := range b.Instrs {
				mu, ok := ins.(*ssa.MapUpdate)
				if !ok || !types.Identical(mu.Map.Type(), t) {
					continue
				}
				n++
				if pr == nil {
					pr = NewProver(p, fn)
				}
				if !pr.NonNil(mu.Value, b, 0) {
					res = false
				}
			}
		}
	}
	p.cache[key] = res
	return res
}

// freeCellNonNil: the captured variable behind fv is a cell that is written
// only in the enclosing function, and only with non-nil values (e.g. the
// enclosing method's receiver).
func (p *Prog) freeCellNonNil(fv *ssa.FreeVar) bool {
	fn := fv.Parent()
	par := fn.Parent()
	if par == nil {
		return false
	}
	k := -1
	for i, f := range fn.FreeVars {
		if f == fv {
			k = i
		}
	}
	key := fmt.Sprintf("cellnn:%s:%d:%d", fn.String(), fn.Pos(), k)
	// parameters of the enclosing function the answer relies on: registered as non-nil needs of that function (checked
	// at its call sites, safety.go) on every use of the answer
	type cellRes struct {
		ok    bool
		needs []int
	}
	register := func(r cellRes) bool {
		if !r.ok {
			return false
		}
		if len(r.needs) == 0 {
			return true
		}
		needs := p.paramNeeds()
		if needs == nil {
			return false
		}
		for _, i := range r.needs {
			if needs[par] == nil {
				needs[par] = map[int]bool{}
			}
			needs[par][i] = true
		}
		return true
	}
	if v, ok := p.cache[key]; ok {
		return register(v.(cellRes))
	}
	p.cache[key] = cellRes{}
	var needIdx []int
	res := false
	var ppr *Prover
	found := false
	okAll := true
	for _, b := range par.Blocks {
		for _, ins := range b.Instrs {
			mc, ok := ins.(*ssa.MakeClosure)
			if !ok || mc.Fn != ssa.Value(fn) || k >= len(mc.Bindings) {
				continue
			}
			found = true
			cell, ok := mc.Bindings[k].(*ssa.Alloc)
			if !ok {
				// the enclosing function's own free variable: recurse
				if pfv, ok := mc.Bindings[k].(*ssa.FreeVar); ok && p.freeCellNonNil(pfv) {
					continue
				}
				okAll = false
				continue
			}
			for _, r := range *cell.Referrers() {
				switch x := r.(type) {
				case *ssa.Store:
					if x.Addr != ssa.Value(cell) {
						okAll = false
						continue
					}
					if ppr == nil {
						ppr = NewProver(p, par)
						ppr.assumeContracts()
					}
					valOK := ppr.NonNil(x.Val, x.Block(), 0)
					if types.IsInterface(x.Val.Type()) {
						// an interface cell: usable means non-nil with a non-nil payload
						valOK = isStrongNonNil(ppr, x.Val, x.Block())
						if _, isPrm := x.Val.(*ssa.Parameter); isPrm {
							valOK = false // decided at the call sites below
						}
					}
					if !valOK {
						// the enclosing function's own pointer (or interface) parameter, captured as it is: non-nil when
						// every call site of that function passes a (strongly) non-nil argument
						if prm, isPrm := x.Val.(*ssa.Parameter); isPrm && closedCallSites(par) && x.Block() == par.Blocks[0] {
							_, isPtr := prm.Type().Underlying().(*types.Pointer)
							if isPtr || types.IsInterface(prm.Type()) {
								needIdx = append(needIdx, paramIndex(par, prm))
								continue
							}
						}
						okAll = false
					}
				case *ssa.UnOp, *ssa.DebugRef:
				case *ssa.MakeClosure:
					// another closure sharing the cell must not write it
					if cf, ok := x.Fn.(*ssa.Function); ok {
						for j, bnd := range x.Bindings {
							if bnd != ssa.Value(cell) {
								continue
							}
							for _, cb := range cf.Blocks {
								for _, ci := range cb.Instrs {
									if st, ok := ci.(*ssa.Store); ok && st.Addr == ssa.Value(cf.FreeVars[j]) {
										okAll = false
									}
								}
							}
						}
					}
				default:
					okAll = false
				}
			}
		}
	}
	res = found && okAll
	p.cache[key] = cellRes{res, needIdx}
	return register(cellRes{res, needIdx})
}

// strongWhenNonNil: every callee that may have produced interface value v
// returns either the nil interface or an interface with a non-nil payload.
func (pr *Prover) strongWhenNonNil(v ssa.Value) bool {
	var call *ssa.Call
	idx := 0
	switch x := v.(type) {
	case *ssa.Call:
		call = x
	case *ssa.Extract:
		c, ok := x.Tuple.(*ssa.Call)
		if !ok {
			return false
		}
		call, idx = c, x.Index
	default:
		return false
	}
	callees, ext := pr.p.CG().Callees(call)
	if ext || len(callees) == 0 {
		return false
	}
	for _, cal := range callees {
		cpr := NewProver(pr.p, cal)
		cpr.assumeContracts()
		for _, b := range cal.Blocks {
			ret, ok := terminator(b).(*ssa.Return)
			if !ok {
				continue
			}
			r := ret.Results[idx]
			if isNilConst(r) {
				continue
			}
			if !isStrongNonNil(cpr, r, b) {
				return false
			}
		}
	}
	return true
}

// Infeasible: block b lies behind a branch edge whose condition contradicts
// what is known where the branch is taken (e.g. the true edge of `x == nil`
// for an x that was just stored non-nil).  Such code cannot execute.
func (pr *Prover) Infeasible(b *ssa.BasicBlock) bool {
	if pr.dead[b] {
		return true
	}
	for _, dc := range domConds(b) {
		if pr.deadEdges != nil {
			k := 1
			if dc.truth {
				k = 0
			}
			if pr.deadEdges[[2]*ssa.BasicBlock{dc.from, dc.from.Succs[k]}] {
				return true
			}
		}
		cond, truth := dc.cond, dc.truth
		for {
			if u, ok := cond.(*ssa.UnOp); ok && u.Op == token.NOT {
				cond, truth = u.X, !truth
				continue
			}
			break
		}
		if bo, ok := cond.(*ssa.BinOp); ok && (bo.Op == token.EQL || bo.Op == token.NEQ) {
			var other ssa.Value
			if isNilConst(bo.Y) {
				other = bo.X
			} else if isNilConst(bo.X) {
				other = bo.Y
			}
			if other != nil {
				saysNil := bo.Op == token.EQL && truth || bo.Op == token.NEQ && !truth
				if saysNil && pr.NonNil(other, dc.from, 0) {
					return true
				}
			}
		}
	}
	return false
}

// ---------- L-bindata: post-condition of length-prefixed decoders ----------

// lenPrefixLemma: for a decoder D(recv *T, data []byte) error with T a byte
// slice type whose width() is K + len(recv): "if D returns nil and *recv was
// empty on entry then len(data) >= K + len(*recv) on return".  Verified on D's
// body: every nil return either follows a store `*recv = make(T, L)` with
// len(data) - L - K >= 0 provable there, or lies on a path without any store to
// *recv where len(data) - K >= 0 is provable.
func (p *Prog) lenPrefixLemma(D *ssa.Function) (int64, bool) {
	key := "lpl:" + D.String()
	if v, ok := p.cache[key]; ok {
		if v == nil {
			return 0, false
		}
		return v.(int64), true
	}
	p.cache[key] = nil
	if len(D.Params) != 2 || D.Signature.Results().Len() != 1 || !isErrorType(D.Signature.Results().At(0).Type()) || !isByteSlice(D.Params[1].Type()) {
		return 0, false
	}
	pt, ok := D.Params[0].Type().Underlying().(*types.Pointer)
	if !ok || !isByteSlice(pt.Elem()) {
		return 0, false
	}
	// K from the type's width(): exact form K + len(recv)
	var K int64 = -1
	if nt, ok := pt.Elem().(*types.Named); ok {
		if w := p.Method(nt.Obj().Name(), "width"); w != nil {
			rs := p.retSummary(w)
			if rs.exact != nil && len(rs.exact.coef) == 1 && len(w.Params) == 1 {
				if rs.exact.coef["len(p:"+w.Params[0].Name()+")"] == 1 {
					K = rs.exact.c
				}
			}
		}
	}
	if K < 0 {
		return 0, false
	}
	pr := NewProver(p, D)
	pr.assumeContracts()
	recv := ssa.Value(D.Params[0])
	dlen := pr.lenOf(D.Params[1])
	var stores []*ssa.Store
	for _, b := range D.Blocks {
		for _, ins := range b.Instrs {
			if st, ok := ins.(*ssa.Store); ok && st.Addr == recv {
				stores = append(stores, st)
			}
		}
	}
	// path-wise (the decoder is loop-free): on every feasible path to a nil return, the last store through the
	// receiver on that path is make(T, L) with len(data) - L - K >= 0, or there is none and len(data) - K >= 0 —
	// under the branch conditions collected along the path (a `switch` that joins before a single `return nil`
	// is handled like early returns)
	if len(AllLoops(D)) > 0 {
		return 0, false
	}
	okAll, npaths := true, 0
	var walk func(b *ssa.BasicBlock, facts []Lin, truth map[string]bool, last *ssa.Store)
	walk = func(b *ssa.BasicBlock, facts []Lin, truth map[string]bool, last *ssa.Store) {
		if !okAll || npaths > 512 {
			return
		}
		for _, ins := range b.Instrs {
			if st, ok := ins.(*ssa.Store); ok && st.Addr == recv {
				last = st
			}
		}
		switch t := terminator(b).(type) {
		case *ssa.Return:
			npaths++
			if !isNilConst(t.Results[0]) {
				return
			}
			if last != nil {
				if !pr.Prove(b, dlen.sub(pr.lenOf(last.Val)).addConst(-K), facts...) {
					okAll = false
				}
			} else if !pr.Prove(b, dlen.addConst(-K), facts...) {
				okAll = false
			}
		case *ssa.If:
			k := pr.key(t.Cond)
			for side := 0; side < 2; side++ {
				tv := side == 0
				if prev, seen := truth[k]; seen && prev != tv {
					continue
				}
				cf := pr.condFacts(t.Cond, tv)
				contradicts := false
				for _, g := range cf {
					if pr.Prove(b, g.scale(-1).addConst(-1), facts...) {
						contradicts = true
					}
				}
				if contradicts {
					continue
				}
				nt := map[string]bool{}
				for kk, vv := range truth {
					nt[kk] = vv
				}
				nt[k] = tv
				walk(b.Succs[side], append(append([]Lin(nil), facts...), cf...), nt, last)
			}
		case *ssa.Jump:
			walk(b.Succs[0], facts, truth, last)
		}
	}
	walk(D.Blocks[0], nil, map[string]bool{}, nil)
	_ = stores
	if !okAll || npaths > 512 {
		return 0, false
	}
	p.cache[key] = K
	return K, true
}

// postFacts: facts contributed at block b by calls of lemma-carrying decoders
// whose `err == nil` edge dominates b and whose receiver was an untouched zero
// local at the call.
func (pr *Prover) postFacts(b *ssa.BasicBlock) []Lin {
	var out []Lin
	for _, blk := range pr.fn.Blocks {
		for idx, ins := range blk.Instrs {
			call, ok := ins.(*ssa.Call)
			if !ok {
				continue
			}
			sc := call.Call.StaticCallee()
			if sc == nil || sc.Blocks == nil || len(call.Call.Args) != 2 {
				continue
			}
			_, isNil := errEdges(call)
			if !dominatedByAny(isNil, b) {
				continue
			}
			K, ok := pr.p.lenPrefixLemma(sc)
			if !ok {
				continue
			}
			al, ok := call.Call.Args[0].(*ssa.Alloc)
			if !ok {
				continue
			}
			// the receiver must still hold its zero value at the call: the
			// variable is used by this call and by loads only, and the call
			// is not inside a loop
			zero := loopContaining(pr.fn, blk) == nil
			for _, r := range *al.Referrers() {
				switch x := r.(type) {
				case *ssa.UnOp, *ssa.DebugRef:
				case *ssa.Call:
					if x != call {
						zero = false
					}
				default:
					zero = false
				}
			}
			if !zero {
				continue
			}
			after := fmt.Sprintf("len(*(%s)@b%d.%d)", pr.key(al), blk.Index, idx)
			pr.atomRange(after, 0, math.MaxInt64)
			out = append(out, pr.lenOf(call.Call.Args[1]).sub(linAtom(after)).addConst(-K))
		}
	}
	return out
}

// narrowFacts / tableFacts are filled in by narrow.go.

// inlineLin: the result of a tiny pure helper — one block, no store, no call other than len/cap — whose return
// value is built from constants, its parameters, loads of fields of its pointer parameters, len() of those and
// +, -, * by a constant, expressed in the caller's own atoms: a field load in the callee is the caller's load of
// the same field of the argument at the version current at the call
// (func (b *buffer) remaining() int { return len(b.data) - b.i }).
func (pr *Prover) inlineLin(call *ssa.Call) (Lin, bool) {
	sc := call.Call.StaticCallee()
	if sc == nil || sc.Blocks == nil || len(sc.Blocks) != 1 || len(sc.FreeVars) != 0 || pr.inl > 2 || pr.verAt == nil {
		return Lin{}, false
	}
	ret, ok := terminator(sc.Blocks[0]).(*ssa.Return)
	if !ok || len(ret.Results) != 1 {
		return Lin{}, false
	}
	for _, ins := range sc.Blocks[0].Instrs {
		switch x := ins.(type) {
		case *ssa.Store, *ssa.MapUpdate, *ssa.Send, *ssa.Go, *ssa.Defer:
			return Lin{}, false
		case *ssa.Call:
			if bi, isB := x.Call.Value.(*ssa.Builtin); !isB || (bi.Name() != "len" && bi.Name() != "cap") {
				return Lin{}, false
			}
		}
	}
	args := call.Call.Args
	argOf := func(p *ssa.Parameter) (ssa.Value, bool) {
		for i, q := range sc.Params {
			if q == p && i < len(args) {
				return args[i], true
			}
		}
		return nil, false
	}
	// the caller's key of a field load made by the callee
	loadKey := func(ld *ssa.UnOp) (string, bool) {
		fa, ok := ld.X.(*ssa.FieldAddr)
		if !ok {
			return "", false
		}
		prm, ok := fa.X.(*ssa.Parameter)
		if !ok {
			return "", false
		}
		a, ok := argOf(prm)
		if !ok {
			return "", false
		}
		addr := fmt.Sprintf("&(%s).%d", pr.key(a), fa.Field)
		if pr.cur != nil {
			if _, isD := pr.cur.isField(fa, pr.cur.D); isD {
				return fmt.Sprintf("*(%s)", addr), true
			}
		}
		return fmt.Sprintf("*(%s)@%s", addr, pr.verAt(call, classOf(fa))), true
	}
	var ev func(v ssa.Value, depth int) (Lin, bool)
	ev = func(v ssa.Value, depth int) (Lin, bool) {
		if depth > 12 {
			return Lin{}, false
		}
		switch x := v.(type) {
		case *ssa.Const:
			if k, ok := constInt(x); ok {
				return linConst(k), true
			}
		case *ssa.Parameter:
			if a, ok := argOf(x); ok {
				if _, _, isInt := pr.intTypeRange(a.Type()); isInt {
					return pr.lin(a), true
				}
			}
		case *ssa.Convert:
			if pr.convPreserves(x) || isWordInt(x.Type()) && isWordInt(x.X.Type()) {
				return ev(x.X, depth+1)
			}
		case *ssa.BinOp:
			a, ok1 := ev(x.X, depth+1)
			b, ok2 := ev(x.Y, depth+1)
			if !ok1 || !ok2 || !isWordInt(x.Type()) {
				return Lin{}, false
			}
			switch x.Op {
			case token.ADD:
				return a.add(b), true
			case token.SUB:
				return a.sub(b), true
			case token.MUL:
				if b.isConst() {
					return a.scale(b.c), true
				}
				if a.isConst() {
					return b.scale(a.c), true
				}
			}
		case *ssa.UnOp:
			if x.Op == token.MUL {
				if _, _, isInt := pr.intTypeRange(x.Type()); isInt {
					if k, ok := loadKey(x); ok {
						if pr.cur != nil {
							if fa, isFA := x.X.(*ssa.FieldAddr); isFA {
								if _, isI := pr.cur.isField(fa, pr.cur.I); isI {
									pr.atomRange(k, 0, math.MaxInt64)
								}
							}
						}
						return linAtom(k), true
					}
				}
			}
		case *ssa.Call:
			if bi, isB := x.Call.Value.(*ssa.Builtin); isB && bi.Name() == "len" && len(x.Call.Args) == 1 {
				if ld, ok := x.Call.Args[0].(*ssa.UnOp); ok && ld.Op == token.MUL {
					if k, ok := loadKey(ld); ok {
						a := "len(" + k + ")"
						pr.atomRange(a, 0, math.MaxInt64)
						return linAtom(a), true
					}
				}
				if prm, ok := x.Call.Args[0].(*ssa.Parameter); ok {
					if a, ok := argOf(prm); ok {
						return pr.lenOf(a), true
					}
				}
			}
		}
		return Lin{}, false
	}
	return ev(ret.Results[0], 0)
}
