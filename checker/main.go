package main

import (
	"flag"
	"fmt"
	"os"
	"path/filepath"
	"sort"
	"strconv"
	"strings"
	"time"
)

// PropertyCheck analyses one program and records obligations in c.
type PropertyCheck struct {
	ID    string
	Level string
	Run   func(p *Prog, c *Check)
	// Canaries: edits of the frozen fixture tree that the check must report.
	Canaries []Canary
}

var registry = map[string]*PropertyCheck{}

func register(pc *PropertyCheck) { registry[pc.ID] = pc }

func main() {
	prop := flag.String("property", "", "property id (C01…C19) or 'all'")
	tier := flag.String("tier", "quick", "quick|thorough")
	repo := flag.String("repo", "/repo", "repository directory")
	verif := flag.String("verif", "/verif", "verification directory (evidence/, out/, known_findings.json)")
	dump := flag.String("dump", "", "debug: roots|funcs|calls:<fn>")
	outDir := flag.String("outdir", "", "write evidence/ and out/ below this directory instead of -verif (used when trying seeded variants)")
	noCanary := flag.Bool("nocanary", false, "skip the canaries (used when trying seeded variants)")
	list := flag.String("list", "", "debug: print every obligation whose construct contains this substring ('*' = all)")
	flag.Parse()
	if t := os.Getenv("VERIF_TIER"); t != "" && !isFlagSet("tier") {
		*tier = t
	}
	seed := 0
	if s := os.Getenv("VERIF_SEED"); s != "" {
		seed, _ = strconv.Atoi(s)
	}
	if *tier != "quick" && *tier != "thorough" {
		fmt.Fprintln(os.Stderr, "bad -tier")
		os.Exit(2)
	}
	var ids []string
	if *prop == "all" {
		for id := range registry {
			ids = append(ids, id)
		}
		sort.Strings(ids)
	} else if *prop != "" {
		for _, id := range strings.Split(*prop, ",") {
			if registry[id] == nil {
				fmt.Fprintf(os.Stderr, "no check registered for %s\n", id)
				os.Exit(2)
			}
			ids = append(ids, id)
		}
	}
	exit := 0
	defer func() {
		if r := recover(); r != nil {
			// a crash of the checker is a failed check, never a pass
			fmt.Printf("checker panic: %v\n", r)
			for _, id := range ids {
				fmt.Printf("VIOLATION property=%s replay=%s\n", id, filepath.Join(*verif, "out", id+".violation.json"))
			}
			panic(r)
		}
	}()
	start := time.Now()
	stopProf := startProf()
	u, err := LoadUniverse(*repo, "amd64")
	if err != nil {
		fatalAll(ids, *verif, err)
	}
	src, err := u.RepoSource()
	if err != nil {
		fatalAll(ids, *verif, err)
	}
	prog, err := u.Build("repo", src)
	if err != nil {
		fatalAll(ids, *verif, err)
	}
	if *dump != "" {
		debugDump(prog, *dump)
		stopProf()
		return
	}
	known, err := loadKnown(filepath.Join(*verif, "known_findings.json"))
	if err != nil {
		fatalAll(ids, *verif, fmt.Errorf("known_findings.json: %w", err))
	}
	cmdline := "mqverify " + strings.Join(os.Args[1:], " ")
	for _, id := range ids {
		pc := registry[id]
		t0 := time.Now()
		c := NewCheck(id, prog)
		c.Level = pc.Level
		c.Measured["root_packages"] = u.NPkgs
		c.Measured["mq_files"] = len(prog.Files)
		thoroughMode = *tier == "thorough"
		pc.Run(prog, c)
		thoroughMode = false
		if *list != "" {
			for _, o := range c.Obls {
				if *list == "*" || strings.Contains(o.Construct, *list) || strings.Contains(o.Rule, *list) {
					fmt.Printf("%-10s %-5s %s  [%s]  %s\n", o.Status, o.Rule, o.Construct, o.Pos, o.Detail)
				}
			}
		}
		if !*noCanary {
			runCanaries(u, pc, c, *verif)
		}
		if *tier == "thorough" {
			runThorough(u, *repo, pc, c, *verif)
		} else if arch386Quick[id] {
			thorough386(u, *repo, pc, c, *verif)
		}
		od := *verif
		if *outDir != "" {
			od = *outDir
		}
		if code := c.finish(od, *tier, seed, t0, known, cmdline); code > exit {
			exit = code
		}
	}
	_ = start
	stopProf()
	os.Exit(exit)
}

func isFlagSet(name string) bool {
	set := false
	flag.Visit(func(f *flag.Flag) {
		if f.Name == name {
			set = true
		}
	})
	return set
}

func fatalAll(ids []string, verif string, err error) {
	fmt.Printf("cannot analyse: %v\n", err)
	os.MkdirAll(filepath.Join(verif, "out"), 0o755)
	for _, id := range ids {
		rp := filepath.Join(verif, "out", id+".violation.json")
		os.WriteFile(rp, []byte(fmt.Sprintf("{\"property\":%q,\"error\":%q}\n", id, err.Error())), 0o644)
		fmt.Printf("VIOLATION property=%s replay=%s\n", id, rp)
	}
	os.Exit(1)
}

func debugDump(p *Prog, what string) {
	switch {
	case what == "funcs":
		for _, f := range p.AllFuncs() {
			fmt.Println(qname(f), f.Synthetic)
		}
	case what == "roots":
		r := p.Roots()
		pr := func(n string, fs interface{}) { fmt.Println(n, fs) }
		pr("decode", len(r.Decode))
		pr("encode", len(r.Encode))
		pr("render", len(r.Render))
		pr("predicate", len(r.Predicate))
		pr("accessor", len(r.Accessor))
		pr("mutator", len(r.Mutator))
		pr("ctor", len(r.Ctor))
		pr("unclassed", r.Unclassed)
	case strings.HasPrefix(what, "eff:"):
		n := strings.TrimPrefix(what, "eff:")
		e := NewEffects(p, nil)
		for _, f := range p.AllFuncs() {
			if n != "*" && qname(f) != n {
				continue
			}
			s := e.Summary(f)
			fmt.Println("==", qname(f))
			for _, w := range s.Writes {
				fmt.Printf("   W %-18s %-28s %s %s chain=%d %s\n", w.Kind, w.Target, p.Pos(w.Ins.Pos()), w.Field, len(w.Chain), w.Note)
			}
			for _, r := range s.Retains {
				fmt.Printf("   R %s -> %s at %s\n", r.Val, r.Into, p.Pos(r.Ins.Pos()))
			}
			for i, r := range s.Results {
				if len(r) > 0 {
					fmt.Printf("   res%d %s\n", i, r)
				}
			}
		}
	case strings.HasPrefix(what, "ret:"):
		n := strings.TrimPrefix(what, "ret:")
		for _, f := range p.AllFuncs() {
			if n == "*" && isFillFamily(f) || qname(f) == n {
				rs := p.retSummary(f)
				ex := "-"
				if rs.exact != nil {
					ex = rs.exact.String()
				}
				fmt.Printf("%-40s lower=%v exact=%s nonnil=%v\n", qname(f), rs.lower, ex, rs.nonNil)
			}
		}
	case strings.HasPrefix(what, "ssa:"):
		n := strings.TrimPrefix(what, "ssa:")
		for _, f := range p.AllFuncs() {
			if qname(f) == n {
				fmt.Println("synthetic:", f.Synthetic, "recv:", f.Signature.Recv(), "params:", len(f.Params))
				f.WriteTo(os.Stdout)
			}
		}
	case strings.HasPrefix(what, "calls:"):
		n := strings.TrimPrefix(what, "calls:")
		for _, f := range p.AllFuncs() {
			if qname(f) != n {
				continue
			}
			for _, ci := range p.Calls(f) {
				var cs []string
				for _, c := range ci.Callees {
					cs = append(cs, qname(c))
				}
				fmt.Printf("%s  %s -> %v ext=%v\n", p.Pos(ci.Site.Pos()), ci.Site.String(), cs, ci.External)
			}
		}
	}
}
