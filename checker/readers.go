package main

// Shared E3 analysis for C06/C07/C08: every use of a stream reader
// (a value whose type has a Read([]byte) (int, error) method and is an
// interface) inside package mq.

import (
	"fmt"
	"go/types"

	"golang.org/x/tools/go/ssa"
)

type ReaderUseKind int

const (
	FullRead ReaderUseKind = iota // io.ReadFull(r, buf) or io.ReadAtLeast(r, buf, len(buf))
	BareRead                      // r.Read(buf)
	PassMQ                        // handed to an mq function as the reader parameter
	OtherUse                      // anything else: wrapped, stored, captured, asserted, returned …
)

type ReaderUse struct {
	Fn     *ssa.Function
	Ins    ssa.Instruction
	Kind   ReaderUseKind
	Buf    ssa.Value       // FullRead/BareRead: the buffer operand
	Call   *ssa.Call       // FullRead/BareRead/PassMQ
	Callee []*ssa.Function // PassMQ
	What   string          // OtherUse: description
	Index  int             // ordinal of this read in Fn (for stable construct names)
	Reader ssa.Value
}

func (u ReaderUse) Construct() string {
	switch u.Kind {
	case FullRead, BareRead:
		return fmt.Sprintf("%s#read%d", qname(u.Fn), u.Index)
	case PassMQ:
		return fmt.Sprintf("%s#pass%d", qname(u.Fn), u.Index)
	}
	return fmt.Sprintf("%s#use%d", qname(u.Fn), u.Index)
}

func isReaderType(t types.Type) bool {
	it, ok := t.Underlying().(*types.Interface)
	if !ok {
		return false
	}
	for i := 0; i < it.NumMethods(); i++ {
		m := it.Method(i)
		if m.Name() != "Read" {
			continue
		}
		sig := m.Type().(*types.Signature)
		if sig.Params().Len() == 1 && sig.Results().Len() == 2 {
			if sl, ok := sig.Params().At(0).Type().Underlying().(*types.Slice); ok {
				if b, ok := sl.Elem().Underlying().(*types.Basic); ok && b.Kind() == types.Uint8 {
					return true
				}
			}
		}
	}
	return false
}

// sameLen: is v the expression len(buf) for this very buf value?
func isLenOf(v ssa.Value, buf ssa.Value) bool {
	c, ok := v.(*ssa.Call)
	if !ok {
		return false
	}
	b, ok := c.Call.Value.(*ssa.Builtin)
	if !ok || b.Name() != "len" || len(c.Call.Args) != 1 {
		return false
	}
	return c.Call.Args[0] == buf
}

// ReaderUses scans fn for uses of reader-typed values.
func (p *Prog) ReaderUses(fn *ssa.Function) []ReaderUse {
	var readers []ssa.Value
	seen := map[ssa.Value]bool{}
	add := func(v ssa.Value) {
		if v != nil && !seen[v] && isReaderType(v.Type()) {
			seen[v] = true
			readers = append(readers, v)
		}
	}
	for _, pr := range fn.Params {
		add(pr)
	}
	for _, fv := range fn.FreeVars {
		add(fv)
	}
	for _, b := range fn.Blocks {
		for _, ins := range b.Instrs {
			if v, ok := ins.(ssa.Value); ok {
				add(v)
			}
		}
	}
	var out []ReaderUse
	nread, npass, nother := 0, 0, 0
	g := p.CG()
	for _, r := range readers {
		refs := r.Referrers()
		if refs == nil {
			continue
		}
		for _, ref := range *refs {
			switch x := ref.(type) {
			case *ssa.DebugRef:
				continue
			case *ssa.Phi, *ssa.ChangeInterface:
				// the derived value is itself in `readers` if its type is a reader
				// type; a change to a non-reader interface hides it
				if v := x.(ssa.Value); !isReaderType(v.Type()) {
					nother++
					out = append(out, ReaderUse{Fn: fn, Ins: ref, Kind: OtherUse, What: "converted to " + v.Type().String(), Index: nother, Reader: r})
				}
				continue
			case *ssa.Call:
				cc := x.Common()
				if cc.IsInvoke() && cc.Value == r {
					if cc.Method.Name() == "Read" && len(cc.Args) == 1 {
						nread++
						out = append(out, ReaderUse{Fn: fn, Ins: ref, Kind: BareRead, Buf: cc.Args[0], Call: x, Index: nread, Reader: r})
					} else {
						nother++
						out = append(out, ReaderUse{Fn: fn, Ins: ref, Kind: OtherUse, What: "method " + cc.Method.Name() + " called on the reader", Index: nother, Reader: r})
					}
					continue
				}
				// reader passed as an argument
				sc := cc.StaticCallee()
				if sc != nil && sc.Blocks == nil {
					name := fullName(sc)
					switch {
					case name == "io.ReadFull" && len(cc.Args) == 2 && cc.Args[0] == r:
						nread++
						out = append(out, ReaderUse{Fn: fn, Ins: ref, Kind: FullRead, Buf: cc.Args[1], Call: x, Index: nread, Reader: r})
					case name == "io.ReadAtLeast" && len(cc.Args) == 3 && cc.Args[0] == r && isLenOf(cc.Args[2], cc.Args[1]):
						nread++
						out = append(out, ReaderUse{Fn: fn, Ins: ref, Kind: FullRead, Buf: cc.Args[1], Call: x, Index: nread, Reader: r})
					default:
						nother++
						out = append(out, ReaderUse{Fn: fn, Ins: ref, Kind: OtherUse, What: "passed to " + name, Index: nother, Reader: r})
					}
					continue
				}
				callees, ext := g.Callees(x)
				if ext || len(callees) == 0 {
					nother++
					out = append(out, ReaderUse{Fn: fn, Ins: ref, Kind: OtherUse, What: "passed to a dynamic/external call " + x.String(), Index: nother, Reader: r})
					continue
				}
				npass++
				out = append(out, ReaderUse{Fn: fn, Ins: ref, Kind: PassMQ, Call: x, Callee: callees, Index: npass, Reader: r})
			default:
				nother++
				out = append(out, ReaderUse{Fn: fn, Ins: ref, Kind: OtherUse, What: fmt.Sprintf("%T: %s", ref, ref.String()), Index: nother, Reader: r})
			}
		}
	}
	return out
}

// readPacketAnchor returns the exported entry point, checking its signature.
func (p *Prog) readPacketAnchor() (*ssa.Function, string) {
	fn := p.Func("ReadPacket")
	if fn == nil || fn.Blocks == nil {
		return nil, "exported function ReadPacket not found"
	}
	sig := fn.Signature
	if sig.Params().Len() != 1 || !isReaderType(sig.Params().At(0).Type()) || sig.Results().Len() != 2 {
		return nil, "ReadPacket does not have the shape func(io.Reader) (ControlPacket, error)"
	}
	return fn, ""
}

// ---------- CFG helpers ----------

// edgeDominates: does the CFG edge from->to dominate block b?  (to dominates b
// and every other predecessor of `to` is itself dominated by `to`.)
func edgeDominates(from, to, b *ssa.BasicBlock) bool {
	if !to.Dominates(b) {
		return false
	}
	for _, pr := range to.Preds {
		if pr == from {
			continue
		}
		if !to.Dominates(pr) {
			return false
		}
	}
	// from must actually be a predecessor
	for _, pr := range to.Preds {
		if pr == from {
			return true
		}
	}
	return false
}

// nilTest recognises `v != nil` / `v == nil` conditions on value v.  It returns
// the successor index (0 = true branch, 1 = false branch) on which v is
// non-nil.
func nilTest(cond ssa.Value, v ssa.Value) (nonNilSucc int, ok bool) {
	neg := false
	for {
		if u, isU := cond.(*ssa.UnOp); isU && u.Op.String() == "!" {
			neg = !neg
			cond = u.X
			continue
		}
		break
	}
	b, isB := cond.(*ssa.BinOp)
	if !isB {
		return 0, false
	}
	var other ssa.Value
	if b.X == v {
		other = b.Y
	} else if b.Y == v {
		other = b.X
	} else {
		return 0, false
	}
	if !isNilConst(other) {
		return 0, false
	}
	switch b.Op.String() {
	case "!=":
		nonNilSucc = 0
	case "==":
		nonNilSucc = 1
	default:
		return 0, false
	}
	if neg {
		nonNilSucc = 1 - nonNilSucc
	}
	return nonNilSucc, true
}

// errEdges finds, for error value e, the CFG edges on which e is known
// non-nil and known nil (from `if e != nil` tests on e itself).
type cfgEdge struct{ from, to *ssa.BasicBlock }

func errEdges(e ssa.Value) (nonNil, isNil []cfgEdge) {
	refs := e.Referrers()
	if refs == nil {
		return
	}
	for _, ref := range *refs {
		bo, ok := ref.(*ssa.BinOp)
		if !ok {
			continue
		}
		conds := []ssa.Value{bo}
		// follow negations
		for i := 0; i < len(conds); i++ {
			if rr := conds[i].Referrers(); rr != nil {
				for _, r2 := range *rr {
					if u, ok := r2.(*ssa.UnOp); ok && u.Op.String() == "!" {
						conds = append(conds, u)
					}
				}
			}
		}
		for _, c := range conds {
			rr := c.Referrers()
			if rr == nil {
				continue
			}
			for _, r2 := range *rr {
				iff, ok := r2.(*ssa.If)
				if !ok {
					continue
				}
				nn, ok := nilTest(iff.Cond, e)
				if !ok {
					continue
				}
				blk := iff.Block()
				nonNil = append(nonNil, cfgEdge{blk, blk.Succs[nn]})
				isNil = append(isNil, cfgEdge{blk, blk.Succs[1-nn]})
			}
		}
	}
	return
}

func dominatedByAny(edges []cfgEdge, b *ssa.BasicBlock) bool {
	for _, e := range edges {
		if edgeDominates(e.from, e.to, b) {
			return true
		}
	}
	return false
}

// behindSince: does every path from the instruction to block b cross one of the edges?  (b is then "behind" them as
// far as what the instruction produced is concerned — also when b is a join that other paths, which never passed the
// instruction, reach as well.)  A path that comes back to the instruction's block starts over there.
func behindSince(site ssa.Instruction, edges []cfgEdge, b *ssa.BasicBlock) bool {
	if dominatedByAny(edges, b) {
		return true
	}
	seen := map[*ssa.BasicBlock]bool{}
	var walk func(x *ssa.BasicBlock) bool
	walk = func(x *ssa.BasicBlock) bool {
	next:
		for _, s := range x.Succs {
			for _, e := range edges {
				if e.from == x && e.to == s {
					continue next
				}
			}
			if s == b {
				return true
			}
			if !seen[s] && s != site.Block() {
				seen[s] = true
				if walk(s) {
					return true
				}
			}
		}
		return false
	}
	if site.Block() == b {
		return false
	}
	return !walk(site.Block())
}

// reachableFrom: blocks reachable from the instruction's block (the block
// itself counts only for instructions after ins).
func blocksReachableFrom(b *ssa.BasicBlock) map[*ssa.BasicBlock]bool {
	seen := map[*ssa.BasicBlock]bool{}
	var walk func(x *ssa.BasicBlock)
	walk = func(x *ssa.BasicBlock) {
		for _, s := range x.Succs {
			if !seen[s] {
				seen[s] = true
				walk(s)
			}
		}
	}
	walk(b)
	return seen
}

func instrIndex(ins ssa.Instruction) int {
	for i, x := range ins.Block().Instrs {
		if x == ins {
			return i
		}
	}
	return -1
}

// after: is instruction y executed (possibly) after x on some path?
func mayFollow(x, y ssa.Instruction) bool {
	if x.Block() == y.Block() {
		if instrIndex(y) > instrIndex(x) {
			return true
		}
	}
	return blocksReachableFrom(x.Block())[y.Block()]
}

func extractOf(call ssa.Value, idx int) *ssa.Extract {
	refs := call.Referrers()
	if refs == nil {
		return nil
	}
	for _, r := range *refs {
		if ex, ok := r.(*ssa.Extract); ok && ex.Index == idx {
			return ex
		}
	}
	return nil
}

func isErrorType(t types.Type) bool {
	n, ok := types.Unalias(t).(*types.Named)
	return ok && n.Obj().Pkg() == nil && n.Obj().Name() == "error"
}

// isWriterType: an interface with Write([]byte) (int, error).
func isWriterType(t types.Type) bool {
	it, ok := t.Underlying().(*types.Interface)
	if !ok {
		return false
	}
	for i := 0; i < it.NumMethods(); i++ {
		m := it.Method(i)
		if m.Name() != "Write" {
			continue
		}
		sig := m.Type().(*types.Signature)
		if sig.Params().Len() == 1 && sig.Results().Len() == 2 {
			if sl, ok := sig.Params().At(0).Type().Underlying().(*types.Slice); ok {
				if b, ok := sl.Elem().Underlying().(*types.Basic); ok && b.Kind() == types.Uint8 {
					return true
				}
			}
		}
	}
	return false
}
