package main

import "golang.org/x/tools/go/ssa"

// C19 — String and Dump are total on every packet value.

func init() {
	register(&PropertyCheck{ID: "C19", Level: "proof", Run: checkC19, Canaries: []Canary{
		{Name: "byte-multiplier-wraps-before-the-bound", Rule: "R19.3", Where: "(*ConnAck).dump", Edits: []Edit{{"connack.go", "\tfmt.Fprintf(w, \"SessionPresent: %v\\n\", p.SessionPresent())", "\tfmt.Fprintf(w, \"SessionPresent: %v\\n\", p.SessionPresent())\n\tif r := byte(p.flags) &^ SessionPresent; r != 0 {\n\t\t// improper, bits 7-1 are reserved; list the ones that are set\n\t\tfmt.Fprint(w, \"ReservedFlags:\")\n\t\tfor i, m := 1, byte(1<<1); ; i, m = i+1, m<<1 {\n\t\t\tif m > 1<<7 {\n\t\t\t\tbreak\n\t\t\t}\n\t\t\tif r&m != 0 {\n\t\t\t\tfmt.Fprintf(w, \" %d\", i)\n\t\t\t}\n\t\t}\n\t\tfmt.Fprintln(w)\n\t}"}}},
		{Name: "byte-sized-counter-against-a-list-length", Rule: "R19.3", Where: "(*SubAck).dump", Edits: []Edit{{"suback.go", "\tfmt.Fprintf(w, \"ReasonCodes: %v\\n\", p.ReasonCodes())\n\tp.UserProperties.dump(w)\n}\n\nfunc (p *SubAck) SetPacketID", "\tcodes := p.ReasonCodes()\n\tfor i := uint8(0); int(i) < len(codes); i++ {\n\t\tfmt.Fprintf(w, \"ReasonCode: %v\\n\", codes[i])\n\t}\n\tp.UserProperties.dump(w)\n}\n\nfunc (p *SubAck) SetPacketID"}}},
		{Name: "method-value-bound-to-a-possibly-nil-pointer", Rule: "R19.2", Where: "(*Connect).dump", Edits: []Edit{{"connect.go", "\tif p.will != nil {\n\t\tfmt.Fprintln(w, \"Will\")\n\t\tp.will.dump(w)\n\t}\n", "\td := p.will.dump\n\tfmt.Fprintln(w, \"Will\")\n\td(w)\n"}}},
		{Name: "builder-grow-by-a-count-that-can-be-negative", Rule: "R19.2", Where: "UnsubAck", Edits: []Edit{{"unsuback.go", "\t\"fmt\"\n\t\"io\"\n)\n\n// UnsubAck and SubAck are exactly the same except for the fixed\n// byte. Keep for now.\n\nfunc NewUnsubAck() *UnsubAck {\n\treturn &UnsubAck{fixed: bits(UNSUBACK)}\n}\n\ntype UnsubAck struct {\n\tfixed    bits\n\tpacketID wuint16\n\tUserProperties\n\n\treasonString wstring\n\treasonCodes  []uint8\n}\n\nfunc (p *UnsubAck) String() string {\n\treturn fmt.Sprintf(\"%s p%v %v bytes\",\n\t\tfirstByte(p.fixed).String(),\n\t\tp.packetID,\n\t\tp.width(),\n\t)", "\t\"fmt\"\n\t\"io\"\n\t\"strings\"\n)\n\n// UnsubAck and SubAck are exactly the same except for the fixed\n// byte. Keep for now.\n\nfunc NewUnsubAck() *UnsubAck {\n\treturn &UnsubAck{fixed: bits(UNSUBACK)}\n}\n\ntype UnsubAck struct {\n\tfixed    bits\n\tpacketID wuint16\n\tUserProperties\n\n\treasonString wstring\n\treasonCodes  []uint8\n}\n\nfunc (p *UnsubAck) String() string {\n\treturn fmt.Sprintf(\"%s p%v %s %v bytes\",\n\t\tfirstByte(p.fixed).String(),\n\t\tp.packetID,\n\t\tp.reasonCodeString(),\n\t\tp.width(),\n\t)\n}\n\n// reasonCodeString returns the names of the reason codes, comma\n// separated, for use in String\nfunc (p *UnsubAck) reasonCodeString() string {\n\tsize := len(p.reasonCodes) - 1 // separators\n\tfor _, c := range p.reasonCodes {\n\t\tsize += len(ReasonCode(c).String())\n\t}\n\tvar sb strings.Builder\n\tsb.Grow(size)\n\tfor i, c := range p.reasonCodes {\n\t\tif i > 0 {\n\t\t\tsb.WriteByte(',')\n\t\t}\n\t\tsb.WriteString(ReasonCode(c).String())\n\t}\n\treturn sb.String()"}}},
		{Name: "will-guard-removed-in-dump", Rule: "R19.2", Where: "(*Connect).dump", Edits: []Edit{{"connect.go", "\tif p.will != nil {\n\t\tfmt.Fprintln(w, \"Will\")\n\t\tp.will.dump(w)\n\t}", "\tfmt.Fprintln(w, \"Will\")\n\tp.will.dump(w)"}}},
		{Name: "filterstring-without-length-test", Rule: "R19.2", Where: "(*Subscribe).filterString", Edits: []Edit{{"subscribe.go", "\tif len(p.filters) == 0 {\n\t\treturn \"\" // malformed\n\t}\n", ""}}},
		{Name: "flags-index-past-end", Rule: "R19.2", Where: "(firstByte).String", Edits: []Edit{{"wiretypes.go", "\t\tflags[3] = 'r'", "\t\tflags[4] = 'r'"}}},
		{Name: "mark-index-8", Rule: "R19.2", Where: "(connectFlags).String$1", Edits: []Edit{{"connect.go", "\tmark(7, Reserved, '!')", "\tmark(8, Reserved, '!')"}}},
		{Name: "will-flag-settable-alone", Rule: "R19.1", Where: "SetWillFlag", Edits: []Edit{{"connect.go", "func (p *Connect) HasFlag(v byte) bool { return p.flags.Has(v) }", "func (p *Connect) HasFlag(v byte) bool { return p.flags.Has(v) }\n\nfunc (p *Connect) SetWillFlag(v bool) { p.flags.toggle(WillFlag, v) }"}}},
		{Name: "willqos-shift-2-only-under-setwill", Silent: true, Edits: []Edit{{"connect.go", "\tp.flags.toggle(v<<3, v < 3)", "\tp.flags.toggle(v<<2, v < 3)"}}},
		{Name: "decode-sets-flag-without-will", Rule: "R19.1", Where: "(*Connect).UnmarshalBinary", Edits: []Edit{{"connect.go", "\tif bits(p.flags).Has(WillFlag) {\n\t\tp.will = NewPublish()", "\tif bits(p.flags).Has(WillFlag) && len(data) > 12 {\n\t\tp.will = NewPublish()"}}},
		{Name: "reasoncode-table-short", Rule: "R19.2", Where: "(ReasonCode).String", Edits: []Edit{{"reasoncode_string.go", "_ReasonCode_index_0 = [...]uint8{0, 7, 18, 29}", "_ReasonCode_index_0 = [...]uint8{0, 7, 18}"}}},
		{Name: "reasoncode-table-not-monotone", Rule: "R19.2", Where: "(ReasonCode).String", Edits: []Edit{{"reasoncode_string.go", "_ReasonCode_index_2 = [...]uint8{0, 21, 42}", "_ReasonCode_index_2 = [...]uint8{0, 42, 21}"}}},
		{Name: "vbint-fill-divides-by-one", Rule: "R19.3", Where: "(vbint).fill", Edits: []Edit{{"wiretypes.go", "\t\tx = x / 128\n", "\t\tx = x / 1\n"}}},
		{Name: "subscription-id-deref-unguarded", Rule: "R19.2", Where: "(*Subscribe).dump", Edits: []Edit{{"subscribe.go", "\tif p.subscriptionID != nil {\n\t\tfmt.Fprintf(w, \"SubscriptionID: %v\\n\", p.SubscriptionID())\n\t}", "\tfmt.Fprintf(w, \"SubscriptionID: %v\\n\", int(*p.subscriptionID))"}}},
		{Name: "byte-counter-loop-never-ends", Rule: "R19.3", Where: "stars", Edits: []Edit{{"connect.go", "\tif v == 0 {\n\t\treturn \"\"\n\t}\n\treturn \"*********\"", "\tif v == 0 {\n\t\treturn \"\"\n\t}\n\tn := 0\n\tfor b := byte(0); b <= 255; b++ {\n\t\tn++\n\t}\n\t_ = n\n\treturn \"*********\""}}},
		{Name: "descending-byte-counter-that-cannot-pass-zero", Rule: "R19.3", Where: "stars", Edits: []Edit{{"connect.go", "\tif v == 0 {\n\t\treturn \"\"\n\t}\n\treturn \"*********\"", "\tif v == 0 {\n\t\treturn \"\"\n\t}\n\tn := 0\n\tfor i := uint8(7); i >= 0; i-- {\n\t\tn++\n\t}\n\t_ = n\n\treturn \"*********\""}}},
		{Name: "descending-byte-counter-to-one", Silent: true, Edits: []Edit{{"connect.go", "\tif v == 0 {\n\t\treturn \"\"\n\t}\n\treturn \"*********\"", "\tif v == 0 {\n\t\treturn \"\"\n\t}\n\tn := 0\n\tfor i := uint8(7); i >= 1; i-- {\n\t\tn++\n\t}\n\t_ = n\n\treturn \"*********\""}}},
		{Name: "negative-capacity-in-a-renderer", Rule: "R19.2", Where: "(*Unsubscribe).filterString", Edits: []Edit{{"unsubscribe.go", "\tif len(p.filters) == 0 {\n\t\treturn \"no filters!\" // malformed\n\t}\n\treturn string(p.filters[0])", "\trest := make([]string, 0, len(p.filters)-1)\n\t_ = rest\n\tif len(p.filters) == 0 {\n\t\treturn \"no filters!\" // malformed\n\t}\n\treturn string(p.filters[0])"}}},
		{Name: "two-unknown-interfaces-compared", Rule: "R19.2", Where: "Dump", Edits: []Edit{{"packet.go", "func Dump(w io.Writer, p Packet) {\n", "func Dump(w io.Writer, p Packet) {\n\tif any(w) == any(p) {\n\t\treturn\n\t}\n"}}},
		{Name: "writer-compared-with-io-discard", Silent: true, Edits: []Edit{{"packet.go", "func Dump(w io.Writer, p Packet) {\n", "func Dump(w io.Writer, p Packet) {\n\tif w == io.Discard {\n\t\treturn\n\t}\n"}}},
		{Name: "helper-sets-will-flag-from-an-exported-setter", Rule: "R19.1", Where: "(*Connect).SetCleanStart", Edits: []Edit{{"connect.go", "func (p *Connect) SetCleanStart(v bool) { p.flags.toggle(CleanStart, v) }", "func (p *Connect) SetCleanStart(v bool) {\n\tp.flags.toggle(CleanStart, v)\n\tp.setWillQoS(1)\n}"}, {"connect.go", "\tp.flags.toggle(v<<3, v < 3)", "\tp.flags.toggle(v<<2, v < 3)"}}},
		{Name: "length-guard-as-switch", Silent: true, Edits: []Edit{{"subscribe.go", "\tif len(p.filters) == 0 {\n\t\treturn \"\" // malformed\n\t}\n\treturn p.filters[0].String()", "\tswitch {\n\tcase len(p.filters) > 0:\n\t\treturn p.filters[0].String()\n\t}\n\treturn \"\""}}},
	}})
}

func checkC19(p *Prog, c *Check) {
	c.Rule("R19.1", "representation invariant of CONNECT: whenever the will flag is set the will pointer is non-nil — established by every writer of either field")
	c.Rule("R19.2", "every instruction that can panic in every function reachable from String / Error / Dump / dump is proven safe for every receiver state satisfying R19.1")
	c.Rule("R19.3", "every loop reachable from the renderers terminates: ranges over slices/arrays/strings/maps, counted loops, the divisive loop of the variable-byte-integer encoder; no blocking primitive")
	c.Explanation = "Same obligation generator and prover as C04, run over the call trees of all renderers (including the dry-run encoders they use to print the size, and fmt's reflective String/Error calls) with the receiver's fields unconstrained."
	c.Trusted = []string{"go/types + go/ssa (x/tools v0.29.0) faithful IR", "fmt, strings.Builder, strconv, bytes.Repeat, time.Duration.String do not panic on the operands given (fmt recovers panics of String methods)", "out-of-memory / stack exhaustion are not panics"}
	c.Assumptions = []string{"API precondition K0: method receivers are non-nil", "caller-supplied io.Writer does not panic"}
	roots := p.Roots()
	e, _ := p.readOnlyEffects()
	st := p.runSafety(c, safetyCfg{rule: "R19.2", roots: roots.Render, eff: e, scopeTag: "ro", useInv: true, invRule: "R19.1"})
	c.Measured["functions_on_render_path"] = st.funcs
	for k, n := range st.byKind {
		c.Measured["obligations_"+k] = n
	}
	scope := p.Reach(append(append([]*ssa.Function{}, roots.Render...), roots.Encode...))
	p.cache["specctx"] = e
	p.cache["spectag"] = "ro"
	n := ruleLoops(p, c, "R19.3", scope)
	c.Measured["loops_on_render_and_encode_paths"] = n
	ruleNoBlocking(p, c, "R19.3", scope)
	delete(p.cache, "specctx")
	delete(p.cache, "spectag")
	c.Floor("render roots", len(roots.Render), 15+13, "String on 15 packet types, dump on the 13 with content")
}
