package main

// C03 — every valid MQTT v5.0 frame is accepted and decoded to the values it carries.

import (
	"fmt"
	"go/types"
	"sort"
	"strings"

	"golang.org/x/tools/go/ssa"
)

func init() {
	register(&PropertyCheck{ID: "C03", Level: "other", Run: checkC03, Canaries: []Canary{
		{Name: "four-byte-decoder-wants-a-fifth-byte", Rule: "R3.8", Where: "(*wuint32).UnmarshalBinary", Edits: []Edit{{"wiretypes.go", "func (v *wuint32) UnmarshalBinary(data []byte) error {\n\tif len(data) < 4 {", "func (v *wuint32) UnmarshalBinary(data []byte) error {\n\tif len(data) <= 4 {"}}},
		{Name: "connect-decoder-rejects-an-empty-user-name", Rule: "R3.3", Where: "Connect", Edits: []Edit{{"connect.go", "\t}\n\t// password\n\tif p.flags.Has(PasswordFlag) {\n\t\tget(&p.password)", "\t\tif buf.err == nil && len(p.username) == 0 {\n\t\t\tbuf.err = newMalformed(p, \"username\", \"empty\")\n\t\t}\n\t}\n\t// password\n\tif p.flags.Has(PasswordFlag) {\n\t\tget(&p.password)\n\t\tif buf.err == nil && len(p.password) == 0 {\n\t\t\tbuf.err = newMalformed(p, \"password\", \"empty\")\n\t\t}"}}},
		{Name: "decoder-rejects-the-highest-defined-reason-code", Rule: "R3.4", Where: "Disconnect", Edits: []Edit{{"disconnect.go", "\tb.get(&p.reasonCode)\n", "\tb.get(&p.reasonCode)\n\tif b.err == nil && p.reasonCode >= 0xA2 {\n\t\tb.err = ErrMissingData\n\t}\n"}}},
		{Name: "pair-decoder-rejects-an-empty-key", Rule: "R3.3", Where: "(*UserProp).UnmarshalBinary", Edits: []Edit{{"wiretypes.go", "\tv[0] = string(key)\n", "\tif len(key) == 0 {\n\t\treturn unmarshalErr(v, \"key\", \"empty\")\n\t}\n\tv[0] = string(key)\n"}}},
		{Name: "decoder-rejects-valid-option-bytes", Rule: "R3.4", Where: "Subscribe", Edits: []Edit{{"subscribe.go", "\t\tb.get(&f.options)\n", "\t\tb.get(&f.options)\n\t\tif b.err == nil && f.options > bits(OptRetain2) {\n\t\t\tb.err = ErrMissingData\n\t\t}\n"}}},
		{Name: "authdata-removed-from-auth-map", Rule: "R3.1", Where: "Auth", Edits: []Edit{{"auth.go", "\t\tAuthData:     func() wireType { return &p.authData },\n", ""}}},
		{Name: "descending-ids-rejected", Rule: "R3.2", Where: "ConnAck", Edits: []Edit{{"buffer.go", "\tvar id Ident\n\tfor b.i < end {\n\t\tb.get(&id)", "\tvar id, last Ident\n\tfor b.i < end {\n\t\tlast = id\n\t\tb.get(&id)\n\t\tif id < last {\n\t\t\tb.err = fmt.Errorf(\"properties out of order\")\n\t\t\treturn\n\t\t}"}}},
		{Name: "zero-value-property-rejected", Rule: "R3.3", Where: "wuint16", Edits: []Edit{{"wiretypes.go", "\t*v = wuint16(binary.BigEndian.Uint16(data))\n\treturn nil", "\t*v = wuint16(binary.BigEndian.Uint16(data))\n\tif *v == 0 {\n\t\treturn fmt.Errorf(\"zero value on the wire\")\n\t}\n\treturn nil"}}},
		{Name: "puback-requires-reason", Rule: "R3.4", Where: "PubAck", Edits: []Edit{{"puback.go", "\tif len(data) > 2 {\n\t\tb.get(&p.reasonCode)\n\t\tb.getAny(p.propertyMap(), p.appendUserProperty)\n\t}", "\tb.get(&p.reasonCode)\n\tb.getAny(p.propertyMap(), p.appendUserProperty)"}}},
		{Name: "server-keepalive-into-wrong-field", Rule: "R3.1", Where: "ConnAck", Edits: []Edit{{"connack.go", "\t\tServerKeepAlive:       func() wireType { return &p.serverKeepAlive },", "\t\tServerKeepAlive:       func() wireType { return &p.receiveMax },"}}},
		{Name: "disconnect-reason-only-rejected", Rule: "R3.4", Where: "Disconnect", Edits: []Edit{{"disconnect.go", "\tb.get(&p.reasonCode)\n\tb.getAny(p.propertyMap(), p.appendUserProperty)\n\treturn b.err", "\tb.get(&p.reasonCode)\n\tvar n vbint\n\tb.get(&n)\n\treturn b.err"}}},
		{Name: "vbi-width-by-thresholds-off-by-one", Rule: "R3.6", Where: "wire type vbint#width", Edits: []Edit{{"wiretypes.go", "func (v vbint) width() int {\n\treturn v.fill(_LEN, 0)\n}", "func (v vbint) width() int {\n\tswitch {\n\tcase v <= 127:\n\t\treturn 1\n\tcase v <= 16_383:\n\t\treturn 2\n\tcase v <= 2_097_152:\n\t\treturn 3\n\t}\n\treturn 4\n}"}}},
		{Name: "publish-second-subscription-id-dropped", Rule: "R3.1", Where: "Publish", Edits: []Edit{{"publish.go", "func (p *Publish) AddSubscriptionID(v uint32) {\n\tp.subscriptionIDs = append(p.subscriptionIDs, v)\n}", "func (p *Publish) AddSubscriptionID(v uint32) {\n\tp.subscriptionIDs = []uint32{v}\n}"}}},
		{Name: "switch-id-as-if-chain", Silent: true, Edits: []Edit{{"buffer.go", "\t\tswitch id {\n\t\tcase UserProperty:\n\t\t\tvar p UserProp\n\t\t\tb.get(&p)\n\t\t\taddProp(p)\n\n\t\tcase SubscriptionID:\n\t\t\tvar sub vbint\n\t\t\tb.get(&sub)\n\t\t\tif b.addSubscriptionID != nil {\n\t\t\t\tb.addSubscriptionID(uint32(sub))\n\t\t\t}\n\n\t\tdefault:\n\t\t\tb.err = fmt.Errorf(\"unknown property id 0x%02x\", id)\n\t\t}", "\t\tif id == UserProperty {\n\t\t\tvar p UserProp\n\t\t\tb.get(&p)\n\t\t\taddProp(p)\n\t\t} else if id == SubscriptionID {\n\t\t\tvar sub vbint\n\t\t\tb.get(&sub)\n\t\t\tif b.addSubscriptionID != nil {\n\t\t\t\tb.addSubscriptionID(uint32(sub))\n\t\t\t}\n\t\t} else {\n\t\t\tb.err = fmt.Errorf(\"unknown property id 0x%02x\", id)\n\t\t}"}}},
	}})
}

// an abstract specification frame: tokens after the fixed header plus the
// values the accessors must report afterwards
type specFrame struct {
	name   string
	toks   []wireToken
	expect map[string]string // accessor() -> rendered value
}

func (f *specFrame) total() int64 {
	var n int64
	for _, t := range f.toks {
		n += t.Width
	}
	return n
}

func vbiWidth(v int64) int64 {
	n := int64(1)
	for v >= 128 {
		v /= 128
		n++
	}
	return n
}

func strTok(tag string, n int64) (wireToken, string) {
	v := sv{k: 's', i: n, addr: "spec:" + tag}
	r := "\"\""
	if n > 0 {
		r = fmt.Sprintf("%d:%s+0", n, v.addr)
	}
	return wireToken{"lp", 2 + n, v, tag}, r
}

// propTokens: identifier + value tokens of one property with a non-zero (or,
// if zero is set, an explicitly transmitted zero) value.
func (p *Prog) propTokens(id int64, zero bool, seq int) ([]wireToken, string) {
	sp := specPropByID(id)
	idTok := wireToken{"ident", 1, sv{k: 'i', i: id}, fmt.Sprintf("id %#02x", id)}
	val := id + 100 + int64(seq)
	if zero {
		val = 0
	}
	switch sp.Kind {
	case "byte":
		// boolean properties take 0/1; Maximum QoS takes 0/1
		b := int64(1)
		if zero {
			b = 0
		}
		return []wireToken{idTok, {"byte", 1, sv{k: 'i', i: b}, sp.Name}}, fmt.Sprint(b)
	case "u16":
		return []wireToken{idTok, {"u16", 2, sv{k: 'i', i: val}, sp.Name}}, fmt.Sprint(val)
	case "u32":
		return []wireToken{idTok, {"u32", 4, sv{k: 'i', i: val}, sp.Name}}, fmt.Sprint(val)
	case "vbi":
		if zero {
			val = 1 // a subscription identifier of 0 is a protocol error
		}
		return []wireToken{idTok, {"vbi", vbiWidth(val), sv{k: 'i', i: val}, sp.Name}}, fmt.Sprint(val)
	case "str", "bin":
		n := int64(3)
		if zero {
			n = 0
		}
		t, r := strTok(fmt.Sprintf("%s#%d", sp.Name, seq), n)
		return []wireToken{idTok, t}, r
	case "pair":
		k := fmt.Sprintf("spec:upk#%d", seq)
		v := fmt.Sprintf("spec:upv#%d", seq)
		return []wireToken{idTok, {"pair", 8, sv{k: 'S', addr: "SPECPAIR" + fmt.Sprint(seq)}, "user property"}}, fmt.Sprintf("[2:%s+0 2:%s+0]", k, v)
	}
	return nil, ""
}

// specPairMem: backing memory of the user-property pair tokens.
func specPairMem(mem map[string]sv) {
	for seq := 0; seq < 4; seq++ {
		mem[fmt.Sprintf("SPECPAIR%d[0]", seq)] = sv{k: 's', i: 2, addr: fmt.Sprintf("spec:upk#%d", seq)}
		mem[fmt.Sprintf("SPECPAIR%d[1]", seq)] = sv{k: 's', i: 2, addr: fmt.Sprintf("spec:upv#%d", seq)}
	}
}

func boolRender(kind string, libKind string, v string) string {
	return v
}

// propSection builds property length + properties for the given ids in order.
func (p *Prog) propSection(tn, section string, ids []int64, zero bool, exp map[string]string, prefix string) []wireToken {
	var body []wireToken
	var ups []string
	var subs []string
	seq := 0
	for _, id := range ids {
		sp := specPropByID(id)
		toks, r := p.propTokens(id, zero, seq)
		body = append(body, toks...)
		switch {
		case id == 0x26:
			ups = append(ups, r)
			seq++
		case id == 0x0B:
			subs = append(subs, r)
			seq++
		case sp.Accessor != "":
			acc := sp.Accessor
			if section == "Will" && acc != "WillDelayInterval" {
				acc = "Will()." + acc
			} else if prefix != "" {
				acc = prefix + acc
			}
			exp[acc+"()"] = r
		}
	}
	if len(ups) > 0 {
		key := ".UserProperties"
		if section == "Will" {
			key = "Will()..UserProperties"
		}
		exp[key] = "[" + strings.Join(ups, " ") + "]"
	}
	if len(subs) > 0 {
		if tn == "Publish" {
			exp["SubscriptionIDs()"] = "[" + strings.Join(subs, " ") + "]"
		} else {
			exp["SubscriptionID()"] = subs[0]
		}
	}
	var n int64
	for _, t := range body {
		n += t.Width
	}
	out := []wireToken{{"vbi", vbiWidth(n), sv{k: 'i', i: n}, "property length of " + section}}
	return append(out, body...)
}

func reversed(ids []int64) []int64 {
	out := append([]int64(nil), ids...)
	sort.Slice(out, func(i, j int) bool { return out[i] > out[j] })
	return out
}

// specFrames generates the abstract valid frames of one packet type.
func (p *Prog) specFrames(tn string) []specFrame {
	var out []specFrame
	allowed := append([]int64(nil), specAllowed[tn]...)
	sort.Slice(allowed, func(i, j int) bool { return allowed[i] < allowed[j] })
	type variant struct {
		name string
		ids  []int64
		zero bool
	}
	withDup := append([]int64(nil), allowed...)
	for _, id := range allowed {
		if id == 0x26 || id == 0x0B && tn == "Publish" {
			withDup = append(withDup, id) // repeatable properties twice
		}
	}
	sort.Slice(withDup, func(i, j int) bool { return withDup[i] < withDup[j] })
	vars := []variant{{"no properties", nil, false}, {"all properties ascending", withDup, false}, {"all properties descending", reversed(withDup), false}, {"explicit zero values", allowed, true}}
	for _, id := range allowed {
		vars = append(vars, variant{fmt.Sprintf("only property %#02x", id), []int64{id}, false})
	}
	u16 := func(name string, v int64) wireToken { return wireToken{"u16", 2, sv{k: 'i', i: v}, name} }
	byt := func(name string, v int64) wireToken { return wireToken{"byte", 1, sv{k: 'i', i: v}, name} }
	for _, v := range vars {
		exp := map[string]string{}
		var toks []wireToken
		switch tn {
		case "Connect":
			for _, willKind := range []int{0, 1, 2} {
				will := willKind != 0
				for _, cred := range []int{0, 1, 2, 3} {
					exp = map[string]string{}
					toks = nil
					t, r := strTok("protocol name", 4)
					toks = append(toks, t)
					exp["ProtocolName()"] = r
					toks = append(toks, byt("protocol version", 5))
					exp["ProtocolVersion()"] = "5"
					flags := int64(2) // clean start
					if willKind == 1 {
						flags |= 0x04 | 0x08 | 0x20 // will, QoS 1, retain
					} else if willKind == 2 {
						flags |= 0x04 | 0x10 // will, QoS 2, no retain
					}
					if cred&1 != 0 {
						flags |= 0x80
					}
					if cred&2 != 0 {
						flags |= 0x40
					}
					toks = append(toks, byt("connect flags", flags))
					exp["CleanStart()"] = "true"
					toks = append(toks, u16("keep alive", 60))
					exp["KeepAlive()"] = "60"
					toks = append(toks, p.propSection(tn, "Connect", v.ids, v.zero, exp, "")...)
					// in the "explicit zero values" frames the fixed fields that may be empty are empty as well: a
					// zero-length client identifier, user name, password and will payload are valid (§1.5.4, §1.5.6,
					// §3.1.3) — the flags say they are present, their length prefix says 0
					ln := func(n int64) int64 {
						if v.zero {
							return 0
						}
						return n
					}
					t, r = strTok("client id", ln(3))
					toks = append(toks, t)
					exp["ClientID()"] = r
					if will {
						wids := append([]int64(nil), specAllowed["Will"]...)
						sort.Slice(wids, func(i, j int) bool { return wids[i] < wids[j] })
						if strings.Contains(v.name, "descending") {
							wids = reversed(wids)
						}
						if v.ids == nil {
							wids = nil
						}
						toks = append(toks, p.propSection(tn, "Will", wids, v.zero, exp, "")...)
						t, r = strTok("will topic", 5)
						toks = append(toks, t)
						exp["Will().TopicName()"] = r
						t, r = strTok("will payload", ln(6))
						toks = append(toks, t)
						exp["Will().Payload()"] = r
						exp["Will().QoS()"] = "1"
						exp["Will().Retain()"] = "true"
						if willKind == 2 {
							exp["Will().QoS()"] = "2"
							exp["Will().Retain()"] = "false"
						}
					}
					if cred&1 != 0 {
						t, r = strTok("user name", ln(4))
						toks = append(toks, t)
						exp["Username()"] = r
					}
					if cred&2 != 0 {
						t, r = strTok("password", ln(4))
						toks = append(toks, t)
						exp["Password()"] = r
					}
					out = append(out, specFrame{fmt.Sprintf("%s, will=%d, credentials=%d", v.name, willKind, cred), toks, exp})
				}
			}
			continue
		case "ConnAck":
			toks = append(toks, byt("acknowledge flags", 1), byt("reason code", 0x80))
			exp["SessionPresent()"] = "true"
			exp["ReasonCode()"] = "128"
			toks = append(toks, p.propSection(tn, tn, v.ids, v.zero, exp, "")...)
		case "Publish":
			for _, q := range []int64{0, 1, 2} {
				for _, payload := range []int64{0, 7} {
					exp = map[string]string{}
					toks = nil
					t, r := strTok("topic", 5)
					toks = append(toks, t)
					exp["TopicName()"] = r
					if q > 0 {
						toks = append(toks, u16("packet id", 77))
						exp["PacketID()"] = "77"
					}
					exp["QoS()"] = fmt.Sprint(q)
					toks = append(toks, p.propSection(tn, tn, v.ids, v.zero, exp, "")...)
					if payload > 0 {
						toks = append(toks, wireToken{"raw", payload, sv{k: 's', i: payload, addr: "spec:payload"}, "payload"})
						exp["Payload()"] = fmt.Sprintf("%d:spec:payload+0", payload)
					}
					out = append(out, specFrame{fmt.Sprintf("%s, QoS %d, payload %d", v.name, q, payload), toks, exp})
				}
			}
			continue
		case "PubAck", "PubRec", "PubRel", "PubComp":
			toks = append(toks, u16("packet id", 77))
			exp["PacketID()"] = "77"
			if v.ids == nil && !v.zero {
				// short forms: remaining length 2 and 3
				out = append(out, specFrame{"remaining length 2", append([]wireToken(nil), toks...), map[string]string{"PacketID()": "77", "ReasonCode()": "0"}})
				e3 := map[string]string{"PacketID()": "77", "ReasonCode()": "146"}
				out = append(out, specFrame{"remaining length 3", append(append([]wireToken(nil), toks...), byt("reason code", 0x92)), e3})
				e4 := map[string]string{"PacketID()": "77", "ReasonCode()": "0"}
				out = append(out, specFrame{"remaining length 4, reason 0, property length 0", append(append([]wireToken(nil), toks...), byt("reason code", 0), wireToken{"vbi", 1, sv{k: 'i', i: 0}, "property length"}), e4})
			}
			toks = append(toks, byt("reason code", 0x10))
			exp["ReasonCode()"] = "16"
			toks = append(toks, p.propSection(tn, tn, v.ids, v.zero, exp, "")...)
		case "Subscribe":
			toks = append(toks, u16("packet id", 77))
			exp["PacketID()"] = "77"
			toks = append(toks, p.propSection(tn, tn, v.ids, v.zero, exp, "")...)
			var fl []string
			for k := 0; k < 3; k++ {
				t, r := strTok(fmt.Sprintf("filter%d", k), 3)
				// the largest valid option bytes: retain handling 2, RAP, NL, QoS 2 — and retain handling 1, RAP, QoS 1 —
				// and the plain subscription: QoS 0, nothing else (a zero byte that must still be there)
				opt := []int64{0x2E, 0x19, 0x00}[k]
				toks = append(toks, t, byt("options", opt))
				fl = append(fl, fmt.Sprintf("{%s %d}", r, opt))
			}
			exp["Filters()"] = "[" + strings.Join(fl, " ") + "]"
		case "Unsubscribe":
			toks = append(toks, u16("packet id", 77))
			exp["PacketID()"] = "77"
			toks = append(toks, p.propSection(tn, tn, v.ids, v.zero, exp, "")...)
			var fl []string
			for k := 0; k < 2; k++ {
				t, r := strTok(fmt.Sprintf("filter%d", k), 3)
				toks = append(toks, t)
				fl = append(fl, r)
			}
			exp["Filters()"] = "[" + strings.Join(fl, " ") + "]"
		case "SubAck", "UnsubAck":
			toks = append(toks, u16("packet id", 77))
			exp["PacketID()"] = "77"
			toks = append(toks, p.propSection(tn, tn, v.ids, v.zero, exp, "")...)
			toks = append(toks, byt("reason code", 1), byt("reason code", 0x80))
			exp["ReasonCodes()"] = "[1 128]"
		case "PingReq", "PingResp":
			if v.ids != nil || v.zero {
				continue
			}
		case "Disconnect":
			if v.ids == nil && !v.zero {
				out = append(out, specFrame{"remaining length 0", nil, map[string]string{"ReasonCode()": "0"}})
				out = append(out, specFrame{"remaining length 1", []wireToken{byt("reason code", 0x8B)}, map[string]string{"ReasonCode()": "139"}})
			}
			toks = append(toks, byt("reason code", 0x81))
			exp["ReasonCode()"] = "129"
			toks = append(toks, p.propSection(tn, tn, v.ids, v.zero, exp, "")...)
		case "Auth":
			if v.ids == nil && !v.zero {
				out = append(out, specFrame{"remaining length 0", nil, map[string]string{"ReasonCode()": "0"}})
			}
			toks = append(toks, byt("reason code", 0x18))
			exp["ReasonCode()"] = "24"
			toks = append(toks, p.propSection(tn, tn, v.ids, v.zero, exp, "")...)
		}
		out = append(out, specFrame{v.name, toks, exp})
	}
	// every reason code the specification defines for this packet type, in a frame without properties
	vbi0 := wireToken{"vbi", 1, sv{k: 'i', i: 0}, "property length"}
	codes := specReasonCodes[tn]
	switch tn {
	case "SubAck", "UnsubAck":
		toks := []wireToken{u16("packet id", 77), vbi0}
		var rs []string
		for _, rc := range codes {
			toks = append(toks, byt("reason code", rc))
			rs = append(rs, fmt.Sprint(rc))
		}
		out = append(out, specFrame{"no properties, every defined reason code in the list", toks, map[string]string{"PacketID()": "77", "ReasonCodes()": "[" + strings.Join(rs, " ") + "]"}})
	default:
		for _, rc := range codes {
			var toks []wireToken
			switch tn {
			case "ConnAck":
				toks = []wireToken{byt("acknowledge flags", 0), byt("reason code", rc), vbi0}
			case "PubAck", "PubRec", "PubRel", "PubComp":
				toks = []wireToken{u16("packet id", 77), byt("reason code", rc)} // remaining length 3
			case "Disconnect":
				toks = []wireToken{byt("reason code", rc)} // remaining length 1
			case "Auth":
				toks = []wireToken{byt("reason code", rc), vbi0}
			}
			out = append(out, specFrame{fmt.Sprintf("no properties, reason code %#02x", rc), toks, map[string]string{"ReasonCode()": fmt.Sprint(rc)}})
		}
	}
	return out
}

func checkC03(p *Prog, c *Check) {
	c.Rule("R3.1", "table completeness and targets: every property the specification allows for a packet (alone, all together, repeated where repeatable) is accepted by that packet's decoder and its value ends up behind the accessor of that name")
	c.Rule("R3.2", "order independence: the same properties in descending identifier order are accepted and give the same accessor values")
	c.Rule("R3.3", "explicitly transmitted zero-valued properties are accepted and read back as zero / empty")
	c.Rule("R3.4", "legal short forms: PUBACK-family frames of remaining length 2, 3 and 4; DISCONNECT of length 0 and 1; AUTH of length 0; frames without properties; PUBLISH with and without payload and packet identifier")
	c.Rule("R3.7", "per wire kind the decoder primitive is structurally the inverse of the encoding (same width and byte order, prefix = length, region [2,2+len), key and value of a pair in their own fresh strings) — the contracts the replay assumes for the primitives (shared with C01 R1.4)")
	c.Rule("R3.6", "the sequential reader advances by width() of the decoded value, and width() is what the encoder emits for that value: a valid frame's next field is read from the right offset (shared with C01 R1.4 / C15 R15.5)")
	c.Rule("R3.5", "the length-prefixed decoder's arithmetic is free of wrap-around, so strings of 65 534 / 65 535 bytes take the same path as short ones (C04 R4.2, re-used)")
	c.Explanation = "Oracle: abstract valid frames generated from the MQTT v5.0 layout table carried by the checker — not from the library's encoder. Each frame is a token stream (kinds and widths from the specification, values as abstract tags); the decoder's SSA form is evaluated on it with the wire primitives replaced by their contracts, and afterwards every value the frame carries is compared with what the exported accessors report. Variants per packet type: no properties, every allowed property alone, all together ascending and descending (repeatable ones twice), all with explicit zero values, and the legal short forms."
	c.Trusted = []string{"go/types + go/ssa (x/tools v0.29.0) faithful IR", "the layout table transcribed from the MQTT v5.0 specification (DESIGN Appendix A)", "contracts of the wire primitives as used by the replay; their bodies are checked by C01 R1.4, C04, C09, C15"}
	c.NotDecided = []string{"all permutations of properties (two orders are replayed; order independence of the loop itself is structural: dispatch on the identifier read in the same iteration, C09 R9.5)", "multi-byte property lengths and boundary string lengths as concrete values (covered by the no-wrap proofs)"}
	codeOf := map[string]int64{}
	for k, n := range specPacketTypes {
		codeOf[n] = k
	}
	nframes := 0
	for _, tn := range packetTypeNames() {
		um := p.Method(tn, "UnmarshalBinary")
		if um == nil {
			c.Bad("anchor", tn, "-", "UnmarshalBinary not found")
			continue
		}
		c.Fn(qname(um))
		errs := map[string]string{}
		base := map[string]sv{}
		specPairMem(base)
		n := 0
		for _, f := range p.specFrames(tn) {
			n++
			rule := "R3.1"
			switch {
			case strings.Contains(f.name, "descending"):
				rule = "R3.2"
			case strings.Contains(f.name, "zero"):
				rule = "R3.3"
			case strings.Contains(f.name, "remaining length") || strings.Contains(f.name, "no properties"):
				rule = "R3.4"
			}
			header := sv{k: 'i', i: codeOf[tn] | specReservedBits[tn]}
			if tn == "Publish" {
				var q int64
				fmt.Sscanf(f.name[strings.Index(f.name, "QoS ")+4:], "%d", &q)
				header.i |= q << 1
			}
			r := p.decoderReplay(tn, header, f.toks, f.total(), base)
			where := "valid frame \"" + f.name + "\": "
			switch {
			case r.Why != "":
				if errs[rule] == "" {
					errs[rule] = where + "cannot evaluate the decoder: " + r.Why
				}
				continue
			case r.Mismatch != "":
				if errs[rule] == "" {
					errs[rule] = where + r.Mismatch
				}
				continue
			case r.Err.k != 'z':
				if errs[rule] == "" {
					what := "end of frame"
					if r.Consumed < len(f.toks) {
						what = f.toks[r.Consumed].What
						if r.Consumed > 0 && f.toks[r.Consumed-1].Kind == "ident" {
							what = f.toks[r.Consumed-1].What + " (" + what + ")"
						}
					}
					errs[rule] = where + fmt.Sprintf("rejected after %d of %d items, at %s", r.Consumed, len(f.toks), what)
				}
				continue
			case r.Consumed != len(f.toks):
				if errs[rule] == "" {
					errs[rule] = where + fmt.Sprintf("the decoder stops after %d of %d items (next: %s)", r.Consumed, len(f.toks), f.toks[r.Consumed].What)
				}
				continue
			}
			obs, why := p.observe(tn, r.Recv, r.Mem, r.Maps, 0)
			if why != "" {
				if errs[rule] == "" {
					errs[rule] = where + why
				}
				continue
			}
			var ks []string
			for k := range f.expect {
				ks = append(ks, k)
			}
			sort.Strings(ks)
			for _, k := range ks {
				got, has := obs[k]
				want := f.expect[k]
				if !has {
					if errs[rule] == "" {
						errs[rule] = where + "the packet type has no accessor " + k + " for a value the frame carries"
					}
					continue
				}
				if got == "true" && want == "1" || got == "false" && want == "0" {
					continue
				}
				if got != want && errs[rule] == "" {
					errs[rule] = where + fmt.Sprintf("%s reports %s, the frame carries %s", k, got, want)
				}
			}
		}
		nframes += n
		for _, rule := range []string{"R3.1", "R3.2", "R3.3", "R3.4"} {
			if e, bad := errs[rule]; bad {
				c.Bad(rule, tn, p.Pos(um.Pos()), e)
			} else {
				c.OK(rule, tn, p.Pos(um.Pos()), fmt.Sprintf("all of the %d abstract valid frames of this type that fall under the rule are accepted with the right values", n))
			}
		}
	}
	c.Measured["abstract_valid_frames"] = nframes
	// R3.3 (structural half): the fixed-width wire decoders do not branch on the decoded content, and the
	// length-prefixed one only compares its prefix with the bytes present (error) or with zero (success)
	for _, d := range p.cachedWireDecoders() {
		pt := d.Params[0].Type().Underlying().(*types.Pointer)
		kind := p.wireKindOf(pt.Elem())
		if nt := namedOf(pt.Elem()); nt != nil && nt.Obj().Name() == "Ident" {
			kind = "byte"
		}
		if kind != "byte" && kind != "u16" && kind != "u32" && kind != "lp" && kind != "pair" && kind != "raw" {
			continue
		}
		// locals that a wire decoder called from here decodes into (key and value of a pair)
		decodedLocal := map[ssa.Value]bool{}
		for _, b := range d.Blocks {
			for _, ins := range b.Instrs {
				if call, ok := ins.(*ssa.Call); ok && len(call.Call.Args) == 2 {
					if sc := call.Call.StaticCallee(); sc != nil && p.isWireDecoder(sc) {
						if al, ok := call.Call.Args[0].(*ssa.Alloc); ok {
							decodedLocal[al] = true
						}
					}
				}
			}
		}
		var data *ssa.Parameter
		for _, prm := range d.Params[1:] {
			if isByteSlice(prm.Type()) {
				data = prm
			}
		}
		isContent := func(v ssa.Value) bool {
			switch x := v.(type) {
			case *ssa.UnOp:
				if ia, ok := x.X.(*ssa.IndexAddr); ok && ia.X == ssa.Value(data) {
					return true
				}
				if x.X == ssa.Value(d.Params[0]) {
					return true // the value just decoded into the receiver
				}
				if decodedLocal[x.X] {
					return true // a component decoded by another wire decoder
				}
				if ia, ok := x.X.(*ssa.IndexAddr); ok && ia.X == ssa.Value(d.Params[0]) {
					return true // an element of the receiver (pair)
				}
			case *ssa.Call:
				if sc := x.Call.StaticCallee(); sc != nil && strings.Contains(fullName(sc), "bigEndian).Uint") {
					return true
				}
			}
			return false
		}
		bad := ""
		// for a composite decoder (pair) the error result of a component decoder is not content: the dependency is
		// not followed into the calls of wire decoders
		seenStop := func() map[ssa.Value]bool {
			m := map[ssa.Value]bool{}
			if kind == "pair" || kind == "raw" {
				for _, b := range d.Blocks {
					for _, ins := range b.Instrs {
						if call, ok := ins.(*ssa.Call); ok {
							if sc := call.Call.StaticCallee(); sc != nil && p.isWireDecoder(sc) {
								m[call] = true
							}
						}
					}
				}
			}
			return m
		}
		for _, b := range d.Blocks {
			iff, ok := terminator(b).(*ssa.If)
			if !ok || !dependsOn(iff.Cond, isContent, seenStop()) {
				continue
			}
			if kind != "lp" {
				bad = "branches on the decoded value at " + posOf(p, iff)
				continue
			}
			// lp: which side is taken on what?
			for k, succ := range b.Succs {
				errOnly := true
				for _, r := range returnsReachable(succ) {
					if isNilConst(r.Results[0]) {
						errOnly = false
					}
				}
				_ = k
				if errOnly {
					// an error edge: the condition must involve len(data)
					usesLen := dependsOn(iff.Cond, func(v ssa.Value) bool {
						if call, ok := v.(*ssa.Call); ok {
							if bi, ok := call.Call.Value.(*ssa.Builtin); ok && bi.Name() == "len" && call.Call.Args[0] == ssa.Value(data) {
								return true
							}
						}
						return false
					}, map[ssa.Value]bool{})
					if !usesLen {
						bad = "rejects input depending on the decoded length alone at " + posOf(p, iff)
					}
				}
			}
		}
		if bad != "" {
			c.Bad("R3.3", qname(d), p.Pos(d.Pos()), "the wire decoder "+bad+": explicitly transmitted values (such as zero) could be treated differently")
		} else {
			c.OK("R3.3", qname(d), p.Pos(d.Pos()), "no branch of this wire decoder rejects input because of the decoded value")
		}
	}
	// R3.5
	okWrap := false
	for _, d := range p.cachedWireDecoders() {
		pt := d.Params[0].Type().Underlying().(*types.Pointer)
		if p.wireKindOf(pt.Elem()) != "lp" {
			continue
		}
		c.Fn(qname(d))
		if K, ok := p.lenPrefixLemma(d); ok {
			okWrap = true
			c.OK("R3.5", qname(d), p.Pos(d.Pos()), fmt.Sprintf("nil is returned only with len(data) >= %d + len(value), proven over mathematical integers with the prefix converted to int before the addition (no uint16 wrap)", K))
		} else {
			c.Bad("R3.5", qname(d), p.Pos(d.Pos()), "the length-prefix post-condition cannot be proven (possible wrap-around of the length arithmetic)")
		}
	}
	if !okWrap {
		c.Unk("R3.5", "length-prefixed decoder", "-", "no length-prefixed decoder found")
	}
	// R3.6
	p.widthAgreement(c, "R3.6")
	// R3.7: the wire primitives the replay replaced by contracts really honour them (C01 R1.4, shared)
	{
		sub := NewCheck(c.ID, p)
		p.checkCodecPairing(sub)
		for _, o := range sub.Obls {
			if o.Rule == "R1.4" {
				c.add("R3.7", o.Construct, o.Pos, o.Status, o.Detail)
			}
		}
	}
	// R3.8: a wire decoder accepts an input of exactly its width (the replay's contract "succeeds whenever the item
	// fits" is an assumption otherwise): evaluated on concrete bytes
	checkWireDecodersAcceptWhatFits(p, c)
	c.Floor("packet types", len(packetTypeNames()), 15, "15 MQTT packet types")
	var _ ssa.Value
}

// checkWireDecodersAcceptWhatFits (R3.8): every fixed-width and length-prefixed wire decoder, evaluated in SSA form
// on an input that holds exactly one item (and on one with three more bytes after it), returns nil and stores the
// big-endian value / the announced number of bytes.  A guard that is stricter than the item's width (`len(data) <=
// 4` for a four-byte integer) rejects the last field of a frame.
func checkWireDecodersAcceptWhatFits(p *Prog, c *Check) {
	c.Rule("R3.8", "every fixed-width, length-prefixed and pair wire decoder, evaluated on concrete input holding exactly one item (and on the same with trailing bytes), succeeds and stores the big-endian value / the announced bytes")
	decs, _ := p.wireDecoders()
	n := 0
	for _, d := range decs {
		if t := delegateDecoder(d); t != d {
			continue
		}
		pt, ok := d.Params[0].Type().Underlying().(*types.Pointer)
		if !ok {
			continue
		}
		kind := p.wireKindOf(pt.Elem())
		var item []int64
		var want int64 = -1
		wantLen := int64(-1)
		switch kind {
		case "byte":
			item, want = []int64{0xA7}, 0xA7
		case "u16":
			item, want = []int64{0x12, 0x34}, 0x1234
		case "u32":
			item, want = []int64{0x12, 0x34, 0x56, 0x78}, 0x12345678
		case "lp":
			item, wantLen = []int64{0x00, 0x03, 0x61, 0x62, 0x63}, 3
		default:
			continue
		}
		n++
		cons := qname(d) + "#accepts-what-fits"
		bad, unk := "", ""
		inputs := [][]int64{item, append(append([]int64(nil), item...), 0xEE, 0xEE, 0xEE)}
		if kind == "lp" {
			inputs = append(inputs, []int64{0x00, 0x00}, []int64{0x00, 0x01, 0x7A})
		}
		for _, in := range inputs {
			ctx := p.newSym(p.globalInput())
			ctx.opaqueNonNil["unmarshalErr"] = true
			ctx.opaqueNonNil["newMalformed"] = true
			ctx.mem["V"] = zeroOf(pt.Elem(), "V")
			for k, b := range in {
				ctx.mem[fmt.Sprintf("DATA[%d]", k)] = sv{k: 'i', i: b}
			}
			rs, ok := ctx.evalPure(d, []sv{{k: 'p', addr: "V"}, {k: 's', i: int64(len(in)), addr: "DATA"}}, nil, 0)
			if !ok || len(rs) != 1 {
				unk = fmt.Sprintf("cannot evaluate the decoder on % x: %s", in, ctx.why)
				break
			}
			if !isNilResult(rs[0]) {
				bad = fmt.Sprintf("the input % x, which holds a complete %s item, is rejected", in, kind)
				break
			}
			got := ctx.mem["V"]
			switch {
			case want >= 0 && (got.k != 'i' || got.i != want):
				bad = fmt.Sprintf("the input % x decodes to %v, not %#x", in, got, want)
			case wantLen >= 0:
				wl := int64(in[1])
				if got.k != 's' || got.i != wl {
					bad = fmt.Sprintf("the input % x decodes to %v, not to %d byte(s)", in, got, wl)
				}
			}
			if bad != "" {
				break
			}
		}
		switch {
		case unk != "":
			c.Unk("R3.8", cons, p.Pos(d.Pos()), unk)
		case bad != "":
			c.Bad("R3.8", cons, p.Pos(d.Pos()), bad)
		default:
			c.OK("R3.8", cons, p.Pos(d.Pos()), fmt.Sprintf("accepts an input of exactly one %s item, and the same followed by other bytes, with the right value", kind))
		}
	}
	c.Floor("wire decoders evaluated on exact-width input", n, 4, "byte, two-byte, four-byte and length-prefixed decoders")
}
