package mq

import (
	"fmt"
	"io"
)

func NewAuth() *Auth {
	return &Auth{fixed: bits(AUTH)}
}

type Auth struct {
	fixed        bits
	reasonCode   wuint8
	reasonString wstring
	authMethod   wstring
	authData     bindata
	UserProperties
}

func (p *Auth) SetReasonCode(v ReasonCode) { p.reasonCode = wuint8(v) }
func (p *Auth) ReasonCode() ReasonCode     { return ReasonCode(p.reasonCode) }

func (p *Auth) SetAuthMethod(v string) { p.authMethod = wstring(v) }
func (p *Auth) AuthMethod() string     { return string(p.authMethod) }

func (p *Auth) SetAuthData(v []byte) { p.authData = bindata(v) }
func (p *Auth) AuthData() []byte     { return []byte(p.authData) }

func (p *Auth) SetReasonString(v string) { p.reasonString = wstring(v) }
func (p *Auth) ReasonString() string     { return string(p.reasonString) }

func (p *Auth) String() string {
	return fmt.Sprintf("%s %v bytes",
		firstByte(p.fixed).String(),
		p.width(),
	)
}

func (p *Auth) dump(w io.Writer) {
	fmt.Fprintf(w, "AuthData: %q\n", string(p.AuthData()))
	fmt.Fprintf(w, "AuthMethod: %q\n", p.AuthMethod())
	fmt.Fprintf(w, "ReasonCode: %v\n", p.ReasonCode())
	fmt.Fprintf(w, "ReasonString: %q\n", p.ReasonString())
	p.UserProperties.dump(w)
}

func (p *Auth) WriteTo(w io.Writer) (int64, error) {
	b := make([]byte, p.width())
	p.fill(b, 0)
	n, err := w.Write(b)
	return int64(n), err
}

func (p *Auth) UnmarshalBinary(data []byte) error {
	b := &buffer{data: data}
	b.get(&p.reasonCode)
	b.getAny(p.propertyMap(), p.appendUserProperty)
	return b.err
}

func (p *Auth) width() int {
	return p.fill(_LEN, 0)
}

func (p *Auth) fill(b []byte, i int) int {
	remainingLen := vbint(p.variableHeader(_LEN, 0))
	i += p.fixed.fill(b, i)      // firstByte header
	i += remainingLen.fill(b, i) // remaining length
	i += p.variableHeader(b, i)

	return i
}

func (p *Auth) variableHeader(b []byte, i int) int {
	n := i
	proplen := p.properties(_LEN, 0)
	if p.reasonCode == 0 && proplen == 0 {
		return 0
	}
	i += p.reasonCode.fill(b, i)
	i += vbint(proplen).fill(b, i)
	i += p.properties(b, i)
	return i - n
}

func (p *Auth) properties(b []byte, i int) int {
	n := i

	// using c.propertyMap is slow compared to direct field access
	i += p.authMethod.fillProp(b, i, AuthMethod)
	i += p.authData.fillProp(b, i, AuthData)
	i += p.reasonString.fillProp(b, i, ReasonString)
	i += p.UserProperties.properties(b, i)
	return i - n
}

func (p *Auth) propertyMap() map[Ident]func() wireType {
	return map[Ident]func() wireType{
		AuthMethod:   func() wireType { return &p.authMethod },
		AuthData:     func() wireType { return &p.authData },
		ReasonString: func() wireType { return &p.reasonString },
	}
}
