package mq

import (
	"fmt"
	"io"
)

type UserProperties []UserProp

// AddUserProp adds key value pair user properties. The same key is is
// allowed to appear more than once.
func (p *UserProperties) AddUserProp(kvPair ...string) {
	for i := 0; i < len(kvPair); i += 2 {
		p.appendUserProperty(UserProp{kvPair[i], kvPair[i+1]})
	}
}

func (p *UserProperties) appendUserProperty(prop UserProp) {
	*p = append(*p, prop)
}

func (p *UserProperties) properties(b []byte, i int) int {
	n := i
	for _, v := range *p {
		i += v.fillProp(b, i, UserProperty)
	}
	return i - n
}

func (p *UserProperties) dump(w io.Writer) {
	if len(*p) == 0 {
		return
	}
	fmt.Fprintln(w, "UserProperties")
	for i, prop := range *p {
		fmt.Fprintf(w, "  %v. %s: %q\n", i, prop[0], prop[1])
	}
}
