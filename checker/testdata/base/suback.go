package mq

import (
	"fmt"
	"io"
)

// NewSubAck returns a suback packet without reason codes.
func NewSubAck() *SubAck {
	return &SubAck{fixed: bits(SUBACK)}
}

type SubAck struct {
	fixed    bits
	packetID wuint16
	UserProperties

	reasonString wstring
	reasonCodes  []uint8
}

func (p *SubAck) String() string {
	return fmt.Sprintf("%s p%v %v bytes",
		firstByte(p.fixed).String(),
		p.packetID,
		p.width(),
	)
}

func (p *SubAck) dump(w io.Writer) {
	fmt.Fprintf(w, "PacketID: %v\n", p.PacketID())
	fmt.Fprintf(w, "ReasonString: %v\n", p.ReasonString())
	fmt.Fprintf(w, "ReasonCodes: %v\n", p.ReasonCodes())
	p.UserProperties.dump(w)
}

func (p *SubAck) SetPacketID(v uint16) { p.packetID = wuint16(v) }
func (p *SubAck) PacketID() uint16     { return uint16(p.packetID) }

func (p *SubAck) SetReasonString(v string) { p.reasonString = wstring(v) }
func (p *SubAck) ReasonString() string     { return string(p.reasonString) }

func (p *SubAck) AddReasonCode(v ReasonCode) {
	p.reasonCodes = append(p.reasonCodes, uint8(v))
}
func (p *SubAck) ReasonCodes() []uint8 { return p.reasonCodes }

func (p *SubAck) WriteTo(w io.Writer) (int64, error) {
	b := make([]byte, p.width())
	p.fill(b, 0)
	n, err := w.Write(b)
	return int64(n), err
}

func (p *SubAck) width() int {
	return p.fill(_LEN, 0)
}

func (p *SubAck) fill(b []byte, i int) int {
	remainingLen := vbint(
		p.variableHeader(_LEN, 0) + p.payload(_LEN, 0),
	)
	i += p.fixed.fill(b, i)      // firstByte header
	i += remainingLen.fill(b, i) // remaining length
	i += p.variableHeader(b, i)
	i += p.payload(b, i)

	return i
}

func (p *SubAck) variableHeader(b []byte, i int) int {
	n := i
	i += p.packetID.fill(b, i)
	i += vbint(p.properties(_LEN, 0)).fill(b, i)
	i += p.properties(b, i)
	return i - n
}

func (p *SubAck) properties(b []byte, i int) int {
	n := i
	for id, v := range p.propertyMap() {
		i += v().fillProp(b, i, id)
	}
	i += p.UserProperties.properties(b, i)
	return i - n
}

func (p *SubAck) payload(b []byte, i int) int {
	n := i
	for j, _ := range p.reasonCodes {
		i += wuint8(p.reasonCodes[j]).fill(b, i)
	}
	return i - n
}

func (p *SubAck) UnmarshalBinary(data []byte) error {
	b := &buffer{data: data}
	b.get(&p.packetID)
	b.getAny(p.propertyMap(), p.appendUserProperty)

	p.reasonCodes = make([]uint8, len(data)-b.i)

	for i, _ := range p.reasonCodes {
		var v wuint8
		b.get(&v)
		p.reasonCodes[i] = uint8(v)
	}
	return b.err
}

func (p *SubAck) propertyMap() map[Ident]func() wireType {
	return map[Ident]func() wireType{
		ReasonString: func() wireType { return &p.reasonString },
	}
}
