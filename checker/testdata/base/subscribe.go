package mq

import (
	"fmt"
	"io"
)

func NewSubscribe() *Subscribe {
	// wonder why bit 1 needs to be set? specification doesn't say
	return &Subscribe{fixed: bits(SUBSCRIBE | 1<<1)}
}

type Subscribe struct {
	fixed          bits
	packetID       wuint16
	subscriptionID *vbint
	UserProperties
	filters []TopicFilter
}

func (p *Subscribe) String() string {
	return withForm(p, fmt.Sprintf("%s p%v %s %v bytes",
		firstByte(p.fixed).String(),
		p.packetID,
		p.filterString(),
		p.width(),
	))
}

func (p *Subscribe) WellFormed() *Malformed {
	if len(p.filters) == 0 {
		return newMalformed(p, "filters", "no")
	}
	if v := p.subscriptionID; v != nil && *v > 268_435_455 {
		return newMalformed(p, "sub ID", "too large")
	}
	for _, f := range p.filters {
		if err := f.WellFormed(); err != nil {
			return err
		}
	}
	return nil
}

func (p *Subscribe) dump(w io.Writer) {
	fmt.Fprintf(w, "PacketID: %v\n", p.PacketID())
	if p.subscriptionID != nil {
		fmt.Fprintf(w, "SubscriptionID: %v\n", p.SubscriptionID())
	}

	if len(p.filters) > 0 {
		fmt.Fprintln(w, "Filters")
		for i, f := range p.filters {
			fmt.Fprintf(w, "  %v. %s\n", i, f)
		}
	}
	p.UserProperties.dump(w)
}

// filterString returns string representing filters for use in String
func (p *Subscribe) filterString() string {
	if len(p.filters) == 0 {
		return "" // malformed
	}
	return p.filters[0].String()
}

func (p *Subscribe) SetPacketID(v uint16) { p.packetID = wuint16(v) }
func (p *Subscribe) PacketID() uint16     { return uint16(p.packetID) }

func (p *Subscribe) SetSubscriptionID(v int) {
	if p.subscriptionID == nil {
		p.subscriptionID = new(vbint)
	}
	*p.subscriptionID = vbint(v)
}
func (p *Subscribe) SubscriptionID() int {
	if p.subscriptionID == nil {
		return -1
	}
	return int(*p.subscriptionID)
}

func (p *Subscribe) AddFilters(v ...TopicFilter) {
	p.filters = append(p.filters, v...)
}
func (p *Subscribe) Filters() []TopicFilter {
	return p.filters
}

func (p *Subscribe) WriteTo(w io.Writer) (int64, error) {
	b := make([]byte, p.width())
	p.fill(b, 0)
	n, err := w.Write(b)
	return int64(n), err
}

func (p *Subscribe) width() int {
	return p.fill(_LEN, 0)
}

func (p *Subscribe) fill(b []byte, i int) int {
	remainingLen := vbint(
		p.variableHeader(_LEN, 0) + p.payload(_LEN, 0),
	)
	i += p.fixed.fill(b, i)      // firstByte header
	i += remainingLen.fill(b, i) // remaining length
	i += p.variableHeader(b, i)
	i += p.payload(b, i)

	return i
}

func (p *Subscribe) variableHeader(b []byte, i int) int {
	n := i
	i += p.packetID.fill(b, i)
	i += vbint(p.properties(_LEN, 0)).fill(b, i)
	i += p.properties(b, i)
	return i - n
}

func (p *Subscribe) properties(b []byte, i int) int {
	n := i
	for id, v := range p.propertyMap(false) {
		out := v()
		if out == nil {
			continue
		}
		i += out.fillProp(b, i, id)
	}
	i += p.UserProperties.properties(b, i)
	return i - n
}

func (p *Subscribe) payload(b []byte, i int) int {
	n := i
	for j, _ := range p.filters {
		i += p.filters[j].fill(b, i)
	}
	return i - n
}

func (p *Subscribe) UnmarshalBinary(data []byte) error {
	b := &buffer{data: data}
	b.get(&p.packetID)
	b.getAny(p.propertyMap(true), p.appendUserProperty)

	for {
		var f TopicFilter
		b.get(&f.filter)
		b.get(&f.options)
		if b.err != nil {
			break
		}
		p.filters = append(p.filters, f)
		if b.i == len(data) {
			break
		}
	}
	return b.err
}

func (p *Subscribe) propertyMap(unmarshal bool) map[Ident]func() wireType {
	return map[Ident]func() wireType{
		SubscriptionID: func() wireType {
			if unmarshal {
				p.subscriptionID = new(vbint)
			}
			if p.subscriptionID == nil {
				return nil
			}
			return p.subscriptionID
		},
	}
}
