package mq

import (
	"encoding"
	"encoding/binary"
	"fmt"
	"io"
	"strings"
)

// wireType defines the interface for types that can be send over the
// wire
type wireType interface {
	encoding.BinaryUnmarshaler

	// fill unmarshals the data type into buf at position i. The
	// returned value is the width of the data marshaled.  fill should
	// work with a nil buf as a noop but return the width.  This
	// enables efficient calculation of partial lengths without
	// actually allocating a buf.
	fill(buf []byte, i int) int

	// fillProp fills the identified UserProp if not empty as this is
	// the case for most UserProp values.
	fillProp(buf []byte, i int, id Ident) int

	// returns the width of the wire data in bytes
	width() int
}

// firstByte represents the first byte in a control packet.
type firstByte byte

// String returns a readable string TYPEFLAGS, e.g. PUBLISH d1-r
func (f firstByte) String() string {
	var sb strings.Builder
	sb.WriteString(typeNames[byte(f)&0b1111_0000])
	sb.WriteString(" ")
	flags := []byte("----")
	if bits(f).Has(DUP) {
		flags[0] = 'd'
	}
	switch {
	case bits(f).Has(QoS3):
		flags[1] = '!' // malformed
		flags[2] = '!' // malformed
	case bits(f).Has(QoS1):
		flags[2] = '1'
	case bits(f).Has(QoS2):
		flags[1] = '2'
	}
	if bits(f).Has(RETAIN) {
		flags[3] = 'r'
	}
	sb.Write(flags)
	return sb.String()
}

// https://docs.oasis-open.org/mqtt/mqtt/v5.0/os/mqtt-v5.0-os.html#_Toc3901013
type UserProp [2]string

func (v UserProp) fillProp(data []byte, i int, id Ident) int {
	if len(v[0]) == 0 {
		return 0
	}
	n := i
	i += id.fill(data, i)
	i += v.fill(data, i)
	return i - n
}
func (v UserProp) fill(data []byte, i int) int {
	i += wstring(v[0]).fill(data, i)
	_ = wstring(v[1]).fill(data, i)
	return v.width()
}

func (v *UserProp) UnmarshalBinary(data []byte) error {
	var key wstring
	if err := key.UnmarshalBinary(data); err != nil {
		return unmarshalErr(v, "key", err.(*Malformed))
	}
	v[0] = string(key)

	i := len(v[0]) + 2
	var val wstring
	if err := val.UnmarshalBinary(data[i:]); err != nil {
		return unmarshalErr(v, "value", err.(*Malformed))
	}
	v[1] = string(val)
	return nil
}
func (v UserProp) String() string {
	return fmt.Sprintf("%s:%s", v[0], v[1])
}
func (v UserProp) width() int {
	return wstring(v[0]).width() + wstring(v[1]).width()
}

// https://docs.oasis-open.org/mqtt/mqtt/v5.0/os/mqtt-v5.0-os.html#_Toc3901010
type wstring = bindata

// https://docs.oasis-open.org/mqtt/mqtt/v5.0/os/mqtt-v5.0-os.html#_Toc3901012
type bindata []byte

func (v bindata) fillProp(data []byte, i int, id Ident) int {
	if len(v) == 0 {
		return 0
	}
	n := i
	i += id.fill(data, i)
	i += v.fill(data, i)
	return i - n
}
func (v bindata) fill(data []byte, i int) int {
	if len(data) >= i+v.width() {
		i += wuint16(len(v)).fill(data, i)
		copy(data[i:], []byte(v))
	}
	return v.width()
}

func (v *bindata) UnmarshalBinary(data []byte) error {
	if len(data) < 2 {
		return unmarshalErr(v, "", "missing data")
	}
	length := int(binary.BigEndian.Uint16(data))
	if len(data) < length+2 {
		return unmarshalErr(v, "", "missing data")
	}
	if length == 0 {
		return nil
	}
	*v = make([]byte, length)
	copy(*v, data[2:length+2])
	return nil
}

func (v bindata) width() int {
	return 2 + len(v)
}

type rawdata []byte

func (v *rawdata) UnmarshalBinary(data []byte) error {
	*v = make([]byte, len(data))
	copy(*v, data)
	return nil
}
func (v rawdata) fill(data []byte, i int) int {
	if len(data) >= i+v.width() {
		return copy(data[i:], []byte(v))
	}
	return v.width()
}
func (v rawdata) width() int {
	return len(v)
}

// fillProp is here to fullfill the wireType interface, though it
// cannot be used as a property as the length is not written. fillProp
// always panics.
func (v rawdata) fillProp(data []byte, i int, id Ident) int {
	panic("cannot use rawdata as property")
}

// https://docs.oasis-open.org/mqtt/mqtt/v5.0/os/mqtt-v5.0-os.html#_Toc3901011
type vbint uint

func (v vbint) fillProp(data []byte, i int, id Ident) int {
	if v == 0 {
		return 0
	}
	n := i
	i += id.fill(data, i)
	i += v.fill(data, i)
	return i - n
}

func (v vbint) fill(data []byte, i int) int {
	x := v
	n := i
	for {
		encodedByte := byte(x % 128)
		x = x / 128
		if x > 0 {
			encodedByte = encodedByte | 128
		}
		if i < len(data) {
			data[i] = encodedByte
		}
		i++
		if x == 0 {
			break
		}
	}
	return i - n
}

func (v vbint) width() int {
	return v.fill(_LEN, 0)
}

func (v *vbint) ReadFrom(r io.Reader) (int64, error) {
	var multiplier uint = 1
	var value uint
	data := make([]byte, 1)
	var i int64
	for {
		if _, err := io.ReadFull(r, data); err != nil {
			return i, err
		}
		i++
		encodedByte := data[0]
		value += uint(encodedByte) & uint(127) * multiplier
		if multiplier > 128*128*128 {
			return i, unmarshalErr(v, "", "size exceeded")
		}
		if encodedByte&128 == 0 {
			break
		}
		multiplier = multiplier * 128
	}
	*v = vbint(value)
	return i, nil
}

// UnmarshalBinary data, returns nil or *Malformed error
func (v *vbint) UnmarshalBinary(data []byte) error {
	if len(data) == 0 {
		return unmarshalErr(v, "", "missing data")
	}
	var multiplier uint = 1
	var value uint
	for _, encodedByte := range data {
		value += uint(encodedByte) & uint(127) * multiplier
		if multiplier > 128*128*128 {
			return unmarshalErr(v, "", "size exceeded")
		}
		if encodedByte&128 == 0 {
			*v = vbint(value)
			return nil
		}
		multiplier = multiplier * 128
	}
	return unmarshalErr(v, "", "missing data")
}

// wire types
type (
	wuint8 = bits // byte
)

type wbool bool

func (v wbool) fillProp(data []byte, i int, id Ident) int {
	if !v {
		return 0
	}
	n := i
	i += id.fill(data, i)
	i += v.fill(data, i)
	return i - n
}
func (v wbool) fill(data []byte, i int) int {
	if len(data) >= i+1 {
		if v {
			data[i] = 0x01
		} else {
			data[i] = 0x00
		}
	}
	return 1
}
func (v *wbool) UnmarshalBinary(data []byte) error {
	if len(data) < 1 {
		return ErrMissingData
	}
	switch data[0] {
	case 0:
		*v = wbool(false)
	case 1:
		*v = wbool(true)
	default:
		return fmt.Errorf("malformed bool")
	}
	return nil
}
func (v wbool) width() int { return 1 }

// https://docs.oasis-open.org/mqtt/mqtt/v5.0/os/mqtt-v5.0-os.html#_Toc3901007
type bits byte

func (v bits) Has(b byte) bool { return byte(v)&b == b }

func (v bits) fillProp(data []byte, i int, id Ident) int {
	if v == 0 {
		return 0
	}
	n := i
	i += id.fill(data, i)
	i += v.fill(data, i)
	return i - n
}

func (v bits) fill(data []byte, i int) int {
	if len(data) >= i+1 {
		data[i] = byte(v)
	}
	return 1
}

// fillOpt fills the bits if > 0
func (v bits) fillOpt(data []byte, i int) int {
	if v == 0 {
		return 0
	}
	return v.fill(data, i)
}

func (v *bits) ReadFrom(r io.Reader) (int64, error) {
	data := make([]byte, 1)
	if n, err := io.ReadFull(r, data); err != nil {
		return int64(n), err
	}
	return 1, v.UnmarshalBinary(data)
}
func (v *bits) UnmarshalBinary(data []byte) error {
	if len(data) < 1 {
		return ErrMissingData
	}
	*v = bits(data[0])
	return nil
}
func (v bits) width() int { return 1 }
func (v *bits) toggle(flag byte, on bool) {
	if on {
		*v = *v | bits(flag)
		return
	}
	*v = *v & bits(^flag)
}

// https://docs.oasis-open.org/mqtt/mqtt/v5.0/os/mqtt-v5.0-os.html#_Toc3901008
type wuint16 uint16

func (v wuint16) fillProp(data []byte, i int, id Ident) int {
	if v == 0 {
		return 0
	}
	n := i
	i += id.fill(data, i)
	i += v.fill(data, i)
	return i - n
}

func (v wuint16) fill(data []byte, i int) int {
	if len(data) >= i+2 {
		binary.BigEndian.PutUint16(data[i:], uint16(v))
	}
	return 2
}

func (v *wuint16) UnmarshalBinary(data []byte) error {
	if len(data) < 2 {
		return ErrMissingData
	}
	*v = wuint16(binary.BigEndian.Uint16(data))
	return nil
}

func (v wuint16) width() int { return 2 }

// https://docs.oasis-open.org/mqtt/mqtt/v5.0/os/mqtt-v5.0-os.html#_Toc3901009
type wuint32 uint32

func (v wuint32) fillProp(data []byte, i int, id Ident) int {
	if v == 0 {
		return 0
	}
	n := i
	i += id.fill(data, i)
	i += v.fill(data, i)
	return i - n
}

func (v wuint32) fill(data []byte, i int) int {
	if len(data) >= i+v.width() {
		binary.BigEndian.PutUint32(data[i:], uint32(v))
	}
	return v.width()
}

func (v *wuint32) UnmarshalBinary(data []byte) error {
	if len(data) < 4 {
		return ErrMissingData
	}
	*v = wuint32(binary.BigEndian.Uint32(data))
	return nil
}

func (v wuint32) width() int { return 4 }

// only here to fulfill interface
func (v Ident) fillProp(data []byte, i int, id Ident) int { return 0 }

func (v Ident) fill(data []byte, i int) int {
	if len(data) >= i+1 {
		data[i] = byte(v)
	}
	return 1
}

func (v *Ident) UnmarshalBinary(data []byte) error {
	if len(data) < 1 {
		return ErrMissingData
	}
	*v = Ident(data[0])
	return nil
}

func (v Ident) width() int { return 1 }
