package mq

type ReasonCode byte

//go:generate stringer -type ReasonCode
const (
	Success               ReasonCode = 0x00 // ConnAck, PubAck, PubRec, PubRel, PubComp, UnsubAck, Auth
	NormalDisconnect      ReasonCode = 0x00 // Disconnect
	GrantedQoS0           ReasonCode = 0x00 // SubAck
	GrantedQoS1           ReasonCode = 0x01 // SubAck
	GrantedQoS2           ReasonCode = 0x02 // SubAck
	DisconnectWithWill    ReasonCode = 0x04 // Disconnect
	NoMatchingSubscribers ReasonCode = 0x10 // PubAck, PubRec
	NoSubscriptionExisted ReasonCode = 0x11 // UnsubAck
	ContinueAuth          ReasonCode = 0x18 // Auth
	ReAuthenticate        ReasonCode = 0x19 // Auth

	// failures >= 0x80
	UnspecifiedError                    ReasonCode = 0x80 // ConnAck, PubAck, PubRec, SubAck, UnsubAck, Disconnect
	MalformedPacket                     ReasonCode = 0x81 // ConnAck, Disconnect
	ProtocolError                       ReasonCode = 0x82 // ConnAck, Disconnect
	ImplementationSpecificError         ReasonCode = 0x83 // ConnAck, PubAck, PubRec, SubAck, UnsubAck, Disconnect
	UnsupportedProtocolVersion          ReasonCode = 0x84 // ConnAck
	ClientIdentifierNotValid            ReasonCode = 0x85 // ConnAck
	BadUserNameOrPassword               ReasonCode = 0x86 // ConnAck
	NotAuthorized                       ReasonCode = 0x87 // ConnAck, PubAck, PubRec, SubAck, UnsubAck, Disconnect
	ServerUnavailable                   ReasonCode = 0x88 // ConnAck
	ServerBusy                          ReasonCode = 0x89 // ConnAck, Disconnect
	Banned                              ReasonCode = 0x8A // ConnAck
	ServerShuttingDown                  ReasonCode = 0x8B // Disconnect
	BadAuthenticationMethod             ReasonCode = 0x8C // ConnAck, Disconnect
	KeepAliveTimeout                    ReasonCode = 0x8D // Disconnect
	SessionTakenOver                    ReasonCode = 0x8E // Disconnect
	TopicFilterInvalid                  ReasonCode = 0x8F // SubAck, UnsubAck, Disconnect
	TopicNameInvalid                    ReasonCode = 0x90 // ConnAck, PubAck, PubRec, Disconnect
	PacketIdentifierInUse               ReasonCode = 0x91 // PubAck, PubRec, SubAck, UnsubAck
	PacketIdentifierNotFound            ReasonCode = 0x92 // PubRel, PubComp
	ReceiveMaximumExceeded              ReasonCode = 0x93 // Disconnect
	TopicAliasInvalid                   ReasonCode = 0x94 // Disconnect
	PacketTooLarge                      ReasonCode = 0x95 // ConnAck, Disconnect
	MessageRateToHigh                   ReasonCode = 0x96 // Disconnect
	QuotaExceeded                       ReasonCode = 0x97 // ConnAck, PubAck, PubRec, SubAck, Disconnect
	AdministrativeAction                ReasonCode = 0x98 // Disconnect
	PayloadFormatInvalid                ReasonCode = 0x99 // ConnAck, PubAck, PubRec, Disconnect
	RetainNotSupported                  ReasonCode = 0x9A // ConnAck, Disconnect
	QoSNotSupported                     ReasonCode = 0x9B // ConnAck, Disconnect
	UseAnotherServer                    ReasonCode = 0x9C // ConnAck, Disconnect
	ServerMoved                         ReasonCode = 0x9D // ConnAck, Disconnect
	SharedSubscriptionsNotSupported     ReasonCode = 0x9E // SubAck, Disconnect
	ConnectionRateExceeded              ReasonCode = 0x9F // ConnAck, Disconnect
	MaximumConnectTime                  ReasonCode = 0xA0 // Disconnect
	SubscriptionIdentifiersNotSupported ReasonCode = 0xA1 // SubAck, Disconnect
	WildcardSubscriptionsNotSupported   ReasonCode = 0xA2 // SubAck, Disconnect
)
