package mq

import (
	"fmt"
	"io"
)

// NewDisconnect returns a disconnect packet with reason code
// NormalDisconnect.
func NewDisconnect() *Disconnect {
	return &Disconnect{fixed: bits(DISCONNECT)}
}

type Disconnect struct {
	fixed bits

	reasonCode wuint8
	UserProperties

	sessionExpiryInterval wuint32
	reasonString          wstring
	serverReference       wstring
}

func (p *Disconnect) SetReasonCode(v ReasonCode) { p.reasonCode = wuint8(v) }
func (p *Disconnect) ReasonCode() ReasonCode     { return ReasonCode(p.reasonCode) }

func (p *Disconnect) SetSessionExpiryInterval(v uint32) { p.sessionExpiryInterval = wuint32(v) }
func (p *Disconnect) SessionExpiryInterval() uint32     { return uint32(p.sessionExpiryInterval) }

func (p *Disconnect) SetReasonString(v string) { p.reasonString = wstring(v) }
func (p *Disconnect) ReasonString() string     { return string(p.reasonString) }

func (p *Disconnect) SetServerReference(v string) { p.serverReference = wstring(v) }
func (p *Disconnect) ServerReference() string     { return string(p.serverReference) }

func (p *Disconnect) String() string {
	return withReason(p, fmt.Sprintf("%s %v bytes",
		firstByte(p.fixed).String(),
		p.width(),
	))
}

func (p *Disconnect) dump(w io.Writer) {
	fmt.Fprintf(w, "ReasonCode: %v\n", p.ReasonCode())
	fmt.Fprintf(w, "ReasonString: %q\n", p.ReasonString())
	fmt.Fprintf(w, "ServerReference: %q\n", p.ServerReference())
	fmt.Fprintf(w, "SessionExpiryInterval: %v\n", p.SessionExpiryInterval())
	p.UserProperties.dump(w)
}

func (p *Disconnect) WriteTo(w io.Writer) (int64, error) {
	b := make([]byte, p.width())
	p.fill(b, 0)
	n, err := w.Write(b)
	return int64(n), err
}

func (p *Disconnect) width() int {
	return p.fill(_LEN, 0)
}

func (p *Disconnect) fill(b []byte, i int) int {
	remainingLen := vbint(p.variableHeader(_LEN, 0))
	i += p.fixed.fill(b, i)      // firstByte header
	i += remainingLen.fill(b, i) // remaining length
	i += p.variableHeader(b, i)

	return i
}

func (p *Disconnect) variableHeader(b []byte, i int) int {
	n := i
	proplen := p.properties(_LEN, 0)
	if p.reasonCode == 0 && proplen == 0 {
		return 0
	}
	i += p.reasonCode.fill(b, i)
	i += vbint(proplen).fill(b, i)
	i += p.properties(b, i)
	return i - n
}

func (p *Disconnect) UnmarshalBinary(data []byte) error {
	b := &buffer{data: data}
	b.get(&p.reasonCode)
	b.getAny(p.propertyMap(), p.appendUserProperty)
	return b.err
}

func (p *Disconnect) properties(b []byte, i int) int {
	n := i
	i += p.sessionExpiryInterval.fillProp(b, i, SessionExpiryInterval)
	i += p.reasonString.fillProp(b, i, ReasonString)
	i += p.serverReference.fillProp(b, i, ServerReference)
	i += p.UserProperties.properties(b, i)
	return i - n
}

func (p *Disconnect) propertyMap() map[Ident]func() wireType {
	return map[Ident]func() wireType{
		SessionExpiryInterval: func() wireType { return &p.sessionExpiryInterval },
		ReasonString:          func() wireType { return &p.reasonString },
		ServerReference:       func() wireType { return &p.serverReference },
	}
}
