package mq

import (
	"fmt"
	"io"
)

func NewPingReq() *PingReq {
	return &PingReq{fixed: bits(PINGREQ)}
}

type PingReq struct {
	fixed bits
}

func (p *PingReq) String() string {
	return fmt.Sprintf("%s %v bytes",
		firstByte(p.fixed).String(),
		p.width(),
	)
}

func (p *PingReq) WriteTo(w io.Writer) (int64, error) {
	b := make([]byte, p.width())
	p.fill(b, 0)
	n, err := w.Write(b)
	return int64(n), err
}

func (p *PingReq) width() int {
	return p.fill(_LEN, 0)
}

func (p *PingReq) fill(b []byte, i int) int {
	i += p.fixed.fill(b, i)  // firstByte header
	i += vbint(0).fill(b, i) // remaining length none
	return i
}

func (p *PingReq) UnmarshalBinary(data []byte) error {
	// there should not be any data
	return nil
}
