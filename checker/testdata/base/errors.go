package mq

import (
	"fmt"
	"strings"
)

func unmarshalErr(v interface{}, ref string, err interface{}) *Malformed {
	e := newMalformed(v, ref, err)
	e.method = "unmarshal"
	return e
}

func newMalformed(v interface{}, ref string, reason interface{}) *Malformed {
	var r string
	switch e := reason.(type) {
	case *Malformed:
		r = e.reason
	case string:
		r = e
	}
	return &Malformed{
		t:      fmt.Sprintf("%T", v),
		ref:    ref,
		reason: r,
	}
}

type Malformed struct {
	t      string // the control packet
	method string // fill or unmarshal
	ref    string
	reason string
}

func (e *Malformed) SetPacket(p Packet) {
	e.t = fmt.Sprintf("%T", p)
}

func (e *Malformed) SetReasonString(v string) { e.reason = v }

func (e *Malformed) Error() string {
	var buf strings.Builder
	buf.WriteString("malformed")
	add := func(v string) {
		if v == "" {
			return
		}
		buf.WriteString(" ")
		buf.WriteString(v)
	}
	add(e.t)
	add(e.method)
	buf.WriteString(":")
	add(e.ref)
	add(e.reason)
	return buf.String()
}

func withForm(p HasWellFormed, v string) string {
	if err := p.WellFormed(); err != nil {
		return fmt.Sprintf("%s, malformed! %s %s", v, err.reason, err.ref)
	}
	return v
}
