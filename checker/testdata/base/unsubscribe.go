package mq

import (
	"fmt"
	"io"
)

func NewUnsubscribe() *Unsubscribe {
	// wonder why bit 1 needs to be set? specification doesn't say
	return &Unsubscribe{fixed: bits(UNSUBSCRIBE | 1<<1)}
}

type Unsubscribe struct {
	fixed    bits
	packetID wuint16

	UserProperties
	filters []wstring
}

func (p *Unsubscribe) String() string {
	return fmt.Sprintf("%s p%v, %s, %v bytes",
		firstByte(p.fixed).String(),
		p.packetID,
		p.filterString(),
		p.width(),
	)
}

func (p *Unsubscribe) dump(w io.Writer) {
	fmt.Fprintf(w, "PacketID: %v\n", p.PacketID())

	if len(p.filters) > 0 {
		fmt.Fprintln(w, "Filters")
		for i, f := range p.filters {
			fmt.Fprintf(w, "  %v. %s\n", i, f)
		}
	}
	p.UserProperties.dump(w)
}

func (p *Unsubscribe) filterString() string {
	if len(p.filters) == 0 {
		return "no filters!" // malformed
	}
	return string(p.filters[0])
}

func (p *Unsubscribe) SetPacketID(v uint16) { p.packetID = wuint16(v) }
func (p *Unsubscribe) PacketID() uint16     { return uint16(p.packetID) }

func (p *Unsubscribe) AddFilter(filter string) {
	p.filters = append(p.filters, wstring(filter))
}
func (p *Unsubscribe) Filters() []string {
	res := make([]string, len(p.filters))
	for i, v := range p.filters {
		res[i] = string(v)
	}
	return res
}

func (p *Unsubscribe) WriteTo(w io.Writer) (int64, error) {
	b := make([]byte, p.width())
	p.fill(b, 0)
	n, err := w.Write(b)
	return int64(n), err
}

func (p *Unsubscribe) width() int {
	return p.fill(_LEN, 0)
}

func (p *Unsubscribe) fill(b []byte, i int) int {
	remainingLen := vbint(
		p.variableHeader(_LEN, 0) + p.payload(_LEN, 0),
	)
	i += p.fixed.fill(b, i)      // firstByte header
	i += remainingLen.fill(b, i) // remaining length
	i += p.variableHeader(b, i)
	i += p.payload(b, i)

	return i
}

func (p *Unsubscribe) variableHeader(b []byte, i int) int {
	n := i
	i += p.packetID.fill(b, i)
	i += vbint(p.properties(_LEN, 0)).fill(b, i)
	i += p.properties(b, i)
	return i - n
}

func (p *Unsubscribe) payload(b []byte, i int) int {
	n := i
	for j, _ := range p.filters {
		i += p.filters[j].fill(b, i)
	}
	return i - n
}

func (p *Unsubscribe) UnmarshalBinary(data []byte) error {
	b := &buffer{data: data}
	b.get(&p.packetID)
	b.getAny(nil, p.appendUserProperty)

	for {
		var f wstring
		b.get(&f)
		if b.err != nil {
			break
		}
		p.filters = append(p.filters, f)
		if b.i == len(data) {
			break
		}
	}
	return b.err
}
