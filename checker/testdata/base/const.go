package mq

// 2.1.2 MQTT Control Packet type
//
// https://docs.oasis-open.org/mqtt/mqtt/v5.0/os/mqtt-v5.0-os.html#_MQTT_Control_Packet
const (
	UNDEFINED   byte = (iota << 4) // 0 Forbidden Reserved
	CONNECT                        // 1 Client to Server Connection request
	CONNACK                        // 2 Server to Client Connect acknowledgment
	PUBLISH                        // 3 Client to Server or Publish message
	PUBACK                         // 4 Client to Server or Publish acknowledgment (QoS 1)
	PUBREC                         // 5 Client to Server or Publish received (QoS 2 delivery part 1)
	PUBREL                         // 6 Client to Server or Publish release (QoS 2 delivery part 2)
	PUBCOMP                        // 7 Client to Server or Publish complete (QoS 2 delivery part 3)
	SUBSCRIBE                      // 8 Client to Server Subscribe request
	SUBACK                         // 9 Server to Client Subscribe acknowledgment
	UNSUBSCRIBE                    // 10 Client to Server Unsubscribe request
	UNSUBACK                       // 11 Server to Client Unsubscribe acknowledgment
	PINGREQ                        // 12 Client to Server PING request
	PINGRESP                       // 13 Server to Client PING response
	DISCONNECT                     // 14 Client to Server or Disconnect notification
	AUTH                           // 15 Client to Server or Server to Client Authentication exchange
)

// MQTT Packet UserProp identifier codes
// Ident is the same as wuint16 but is used to name the identifier codes
type Ident uint8

const (
	PayloadFormatIndicator Ident = 0x01
	MessageExpiryInterval  Ident = 0x02
	ContentType            Ident = 0x03
	ResponseTopic          Ident = 0x08
	CorrelationData        Ident = 0x09
	SubscriptionID         Ident = 0x0b
	SessionExpiryInterval  Ident = 0x11
	AssignedClientID       Ident = 0x12
	ServerKeepAlive        Ident = 0x13
	AuthMethod             Ident = 0x15
	AuthData               Ident = 0x16
	RequestProblemInfo     Ident = 0x17
	WillDelayInterval      Ident = 0x18
	RequestResponseInfo    Ident = 0x19
	ResponseInformation    Ident = 0x1a
	ServerReference        Ident = 0x1c
	ReasonString           Ident = 0x1f
	ReceiveMax             Ident = 0x21
	TopicAliasMax          Ident = 0x22
	TopicAlias             Ident = 0x23
	MaxQoS                 Ident = 0x24
	RetainAvailable        Ident = 0x25
	UserProperty           Ident = 0x26
	MaxPacketSize          Ident = 0x27
	WildcardSubAvailable   Ident = 0x28
	SubIDsAvailable        Ident = 0x29
	SharedSubAvailable     Ident = 0x2a
)

const (
	maxUint16 = 1<<16 - 1
)

var typeNames = map[byte]string{
	UNDEFINED:   "UNDEFINED",
	CONNECT:     "CONNECT",
	CONNACK:     "CONNACK",
	PUBLISH:     "PUBLISH",
	PUBACK:      "PUBACK",
	PUBREC:      "PUBREC",
	PUBREL:      "PUBREL",
	PUBCOMP:     "PUBCOMP",
	SUBSCRIBE:   "SUBSCRIBE",
	SUBACK:      "SUBACK",
	UNSUBSCRIBE: "UNSUBSCRIBE",
	UNSUBACK:    "UNSUBACK",
	PINGREQ:     "PINGREQ",
	PINGRESP:    "PINGRESP",
	DISCONNECT:  "DISCONNECT",
	AUTH:        "AUTH",
}

// firstByte header flags
const (
	RETAIN byte = 0b0000_0001
	QoS1   byte = 0b0000_0010
	QoS2   byte = 0b0000_0100
	QoS3   byte = 0b0000_0110 // malformed!
	DUP    byte = 0b0000_1000
)

// Name an empty slice for increased readability when fill methods are
// used to only calculate length.
var _LEN []byte

// Filter option, used in Subscribe
type FilterOption byte
type Opt = FilterOption

const (
	OptQoS1    Opt = 1
	OptQoS2    Opt = 2
	OptQoS3    Opt = 3 // malformed
	OptNL      Opt = 1 << 2
	OptRAP     Opt = 1 << 3
	OptRetain1 Opt = 1 << 4
	OptRetain2 Opt = 2 << 4
	OptRetain3 Opt = 3 << 4 // malformed
)
