package mq

import (
	"bytes"
	"fmt"
)

func NewTopicFilter(filter string, options Opt) TopicFilter {
	return TopicFilter{
		filter:  wstring(filter),
		options: bits(options),
	}
}

type TopicFilter struct {
	filter  wstring
	options bits
}

func (c *TopicFilter) SetFilter(v string) { c.filter = wstring(v) }
func (c *TopicFilter) Filter() string     { return string(c.filter) }

func (c *TopicFilter) SetOptions(v Opt) { c.options = bits(v) }
func (c *TopicFilter) Options() Opt     { return Opt(c.options) }

func (c *TopicFilter) WellFormed() *Malformed {
	if len(c.filter) == 0 {
		return newMalformed(c, "filter", "empty")
	}
	if c.options.Has(byte(OptQoS3)) {
		return newMalformed(c, "QoS", "invalid")
	}
	return nil
}

func (c TopicFilter) fill(b []byte, i int) int {
	n := i
	i += c.filter.fill(b, i)
	i += c.options.fill(b, i)
	return i - n
}

func (c TopicFilter) String() string {
	flags := bytes.Repeat([]byte("-"), 8)

	mark := func(i int, flag byte, v byte) {
		if !c.options.Has(flag) {
			return
		}
		flags[i] = v
	}

	// QoS
	mark(7, byte(OptQoS1), '1')
	mark(6, byte(OptQoS2), '2')
	if c.options.Has(byte(OptQoS3)) {
		flags[7] = '!'
		flags[6] = '!'
	}
	if c.options.Has(byte(OptNL)) {
		flags[5] = 'n'
	}
	if c.options.Has(byte(OptRAP)) {
		flags[4] = 'p'
	}
	// Retain
	flags[3] = '0'
	flags[2] = 'r'
	if c.options.Has(byte(OptRetain1)) {
		flags[3] = '1'
		flags[2] = 'r'
	}
	if c.options.Has(byte(OptRetain2)) {
		flags[3] = '2'
		flags[2] = 'r'
	}
	if c.options.Has(byte(OptRetain3)) {
		flags[3] = '!'
		flags[2] = '!'
	}

	// Reserved
	mark(1, 1<<6, '!')
	mark(0, 1<<7, '!')

	return fmt.Sprintf("%s %s", c.filter, string(flags))
}
