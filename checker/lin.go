package main

// E2 — linear forms over mathematical integers and a small Fourier–Motzkin
// entailment procedure.  No solver, no enumeration of program inputs.

import (
	"fmt"
	"math/big"
	"sort"
	"strings"
)

// Lin is Σ coef[a]·a + c.
type Lin struct {
	coef map[string]int64
	c    int64
}

func linConst(c int64) Lin { return Lin{coef: map[string]int64{}, c: c} }
func linAtom(a string) Lin { return Lin{coef: map[string]int64{a: 1}} }

func (l Lin) clone() Lin {
	m := make(map[string]int64, len(l.coef))
	for k, v := range l.coef {
		m[k] = v
	}
	return Lin{coef: m, c: l.c}
}

func (l Lin) add(o Lin) Lin {
	r := l.clone()
	for k, v := range o.coef {
		r.coef[k] += v
		if r.coef[k] == 0 {
			delete(r.coef, k)
		}
	}
	r.c += o.c
	return r
}

func (l Lin) scale(k int64) Lin {
	r := Lin{coef: map[string]int64{}, c: l.c * k}
	if k == 0 {
		return r
	}
	for a, v := range l.coef {
		r.coef[a] = v * k
	}
	return r
}

func (l Lin) sub(o Lin) Lin        { return l.add(o.scale(-1)) }
func (l Lin) addConst(k int64) Lin { r := l.clone(); r.c += k; return r }
func (l Lin) isConst() bool        { return len(l.coef) == 0 }

func (l Lin) atoms() []string {
	var out []string
	for a := range l.coef {
		out = append(out, a)
	}
	sort.Strings(out)
	return out
}

func (l Lin) String() string {
	var parts []string
	for _, a := range l.atoms() {
		k := l.coef[a]
		switch k {
		case 1:
			parts = append(parts, a)
		case -1:
			parts = append(parts, "-"+a)
		default:
			parts = append(parts, fmt.Sprintf("%d·%s", k, a))
		}
	}
	if l.c != 0 || len(parts) == 0 {
		parts = append(parts, fmt.Sprint(l.c))
	}
	return strings.Join(parts, " + ")
}

func (l Lin) equal(o Lin) bool {
	d := l.sub(o)
	return d.isConst() && d.c == 0
}

// ---------- Fourier–Motzkin ----------

type ineq struct { // Σ coef·atom + c >= 0, rational coefficients
	coef map[string]*big.Rat
	c    *big.Rat
}

func toIneq(l Lin) ineq {
	q := ineq{coef: map[string]*big.Rat{}, c: big.NewRat(l.c, 1)}
	for a, k := range l.coef {
		q.coef[a] = big.NewRat(k, 1)
	}
	return q
}

// infeasible reports whether the conjunction of `facts` (each >= 0) has no
// rational solution.  Sound for integers: no rational solution ⇒ no integer
// solution.
func infeasible(facts []Lin) bool {
	var sys []ineq
	atoms := map[string]bool{}
	for _, f := range facts {
		q := toIneq(f)
		for a := range q.coef {
			atoms[a] = true
		}
		sys = append(sys, q)
	}
	var order []string
	for a := range atoms {
		order = append(order, a)
	}
	sort.Strings(order)
	zero := new(big.Rat)
	for _, x := range order {
		var pos, neg, rest []ineq
		for _, q := range sys {
			k, ok := q.coef[x]
			switch {
			case !ok || k.Sign() == 0:
				rest = append(rest, q)
			case k.Sign() > 0:
				pos = append(pos, q)
			default:
				neg = append(neg, q)
			}
		}
		if len(pos)*len(neg) > 4000 {
			return false // give up: not proven
		}
		for _, p := range pos {
			for _, n := range neg {
				// p: a·x + P >= 0 (a>0) ; n: b·x + N >= 0 (b<0)
				// combine: (-b)·p + a·n  eliminates x
				a := p.coef[x]
				b := new(big.Rat).Neg(n.coef[x])
				r := ineq{coef: map[string]*big.Rat{}, c: new(big.Rat)}
				r.c.Add(new(big.Rat).Mul(b, p.c), new(big.Rat).Mul(a, n.c))
				for k, v := range p.coef {
					if k == x {
						continue
					}
					r.coef[k] = new(big.Rat).Mul(b, v)
				}
				for k, v := range n.coef {
					if k == x {
						continue
					}
					t := new(big.Rat).Mul(a, v)
					if old, ok := r.coef[k]; ok {
						t.Add(t, old)
					}
					if t.Sign() == 0 {
						delete(r.coef, k)
					} else {
						r.coef[k] = t
					}
				}
				rest = append(rest, r)
			}
		}
		sys = rest
		// early contradiction among constants
		for _, q := range sys {
			if len(q.coef) == 0 && q.c.Cmp(zero) < 0 {
				return true
			}
		}
	}
	for _, q := range sys {
		if len(q.coef) == 0 && q.c.Cmp(zero) < 0 {
			return true
		}
	}
	return false
}

// entails: do the facts (each >= 0) imply goal >= 0 over the integers?
// Checked as infeasibility of facts ∧ (goal <= -1).
func entails(facts []Lin, goal Lin) bool {
	if goal.isConst() {
		if goal.c >= 0 {
			return true
		}
	}
	neg := goal.scale(-1).addConst(-1) // -goal - 1 >= 0
	// keep only facts connected (through shared atoms) to the goal
	rel := map[string]bool{}
	for a := range goal.coef {
		rel[a] = true
	}
	used := make([]bool, len(facts))
	var sel []Lin
	for changed := true; changed; {
		changed = false
		for i, f := range facts {
			if used[i] {
				continue
			}
			touch := len(f.coef) == 0
			for a := range f.coef {
				if rel[a] {
					touch = true
				}
			}
			if touch {
				used[i] = true
				sel = append(sel, f)
				for a := range f.coef {
					if !rel[a] {
						rel[a] = true
						changed = true
					}
				}
			}
		}
	}
	if len(sel) > 60 {
		sel = sel[:60]
	}
	return infeasible(append(sel, neg))
}
