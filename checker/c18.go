package main

// C18 — diagnostics never disclose credentials (E5: secrecy taint).

import (
	"fmt"
	"go/token"
	"go/types"
	"os"
	"sort"
	"strings"

	"golang.org/x/tools/go/ssa"
)

func init() {
	register(&PropertyCheck{ID: "C18", Level: "proof", Run: checkC18, Canaries: []Canary{
		{Name: "collecting-dumper-with-stars", Silent: true, Edits: []Edit{{"connect.go", "\t\"time\"\n)\n\n// If we want to be able to handle large packets each must implement\n// io.ReaderFrom This allows a client decide if it should read in all\n// the data in one slice and wrap it in a reader or not.\n\n// The other direction is also important to be able to write out large\n// packets without loading everything into memory each packet must\n// implement io.WriterTo.\n\nvar mqtt5 = []byte(\"MQTT\")\n\n// NewConnect returns an empty MQTT v5 connect packet.\nfunc NewConnect() *Connect {\n\treturn &Connect{\n\t\tfixed:           bits(CONNECT),\n\t\tprotocolName:    mqtt5,\n\t\tprotocolVersion: 5,\n\t}\n}\n\ntype Connect struct {\n\t// Fields are kept hidden so\n\t// - we can optimize memory storage without affecting the API\n\t// - users don't have to handle dependencies between fields and flags\n\n\t// order is optimized for memory padding\n\tfixed           bits\n\tflags           bits\n\tprotocolVersion wuint8\n\tkeepAlive       wuint16\n\treceiveMax      wuint16\n\n\tsessionExpiryInterval wuint32\n\tmaxPacketSize         wuint32\n\n\twillDelayInterval wuint32\n\n\ttopicAliasMax       wuint16\n\trequestResponseInfo wbool\n\trequestProblemInfo  wbool\n\n\tprotocolName wstring\n\tclientID     wstring\n\tUserProperties\n\tauthMethod wstring\n\tauthData   bindata\n\n\tusername wstring\n\tpassword bindata\n\n\twill        *Publish\n\twillPayload bindata // as the one in Publish.payload is raw\n\t// what does it mean, raw?\n}\n\n// Connect fields are exposed using methods to simplify the type\n// conversion.\n\n// SetWill sets the will message. The Server delays publishing the\n// Client\u2019s Will Message until the Will Delay Interval has passed or\n// the Session ends, whichever happens first.\nfunc (p *Connect) SetWill(will *Publish) {\n\tp.will = will\n\tp.flags.toggle(WillFlag, true)\n\tp.flags.toggle(WillRetain, will.Retain())\n\tp.willPayload = bindata(will.payload)\n\tp.setWillQoS(will.QoS())\n}\n\nfunc (p *Connect) SetWillDelayInterval(delayInterval uint32) {\n\tp.willDelayInterval = wuint32(delayInterval)\n}\nfunc (p *Connect) WillDelayInterval() uint32 {\n\treturn uint32(p.willDelayInterval)\n}\n\n// Will returns the will publish message.\nfunc (p *Connect) Will() *Publish { return p.will }\n\nfunc (p *Connect) HasFlag(v byte) bool { return p.flags.Has(v) }\n\nfunc (p *Connect) SetCleanStart(v bool) { p.flags.toggle(CleanStart, v) }\nfunc (p *Connect) CleanStart() bool     { return p.flags.Has(CleanStart) }\n\nfunc (p *Connect) SetProtocolVersion(v uint8) { p.protocolVersion = wuint8(v) }\nfunc (p *Connect) ProtocolVersion() uint8     { return uint8(p.protocolVersion) }\n\nfunc (p *Connect) SetProtocolName(v string) { p.protocolName = wstring(v) }\nfunc (p *Connect) ProtocolName() string     { return string(p.protocolName) }\n\nfunc (p *Connect) SetClientID(v string) { p.clientID = wstring(v) }\nfunc (p *Connect) ClientID() string     { return string(p.clientID) }\n\nfunc (p *Connect) SetKeepAlive(v uint16) { p.keepAlive = wuint16(v) }\nfunc (p *Connect) KeepAlive() uint16     { return uint16(p.keepAlive) }\n\nfunc (p *Connect) setWillQoS(v uint8) {\n\tp.flags &= bits(^(WillQoS2 | WillQoS1)) // reset\n\tp.flags.toggle(v<<3, v < 3)\n}\nfunc (p *Connect) willQoS() uint8 {\n\treturn (uint8(p.flags) & (WillQoS2 | WillQoS1)) >> 3\n}\n\nfunc (p *Connect) SetSessionExpiryInterval(v uint32) {\n\tp.sessionExpiryInterval = wuint32(v)\n}\nfunc (p *Connect) SessionExpiryInterval() uint32 {\n\treturn uint32(p.sessionExpiryInterval)\n}\n\nfunc (p *Connect) SetReceiveMax(v uint16) { p.receiveMax = wuint16(v) }\nfunc (p *Connect) ReceiveMax() uint16     { return uint16(p.receiveMax) }\n\nfunc (p *Connect) SetMaxPacketSize(v uint32) { p.maxPacketSize = wuint32(v) }\nfunc (p *Connect) MaxPacketSize() uint32     { return uint32(p.maxPacketSize) }\n\n// This value indicates the highest value that the Client will accept\n// as a Topic Alias sent by the Server. The Client uses this value to\n// limit the number of Topic Aliases that it is willing to hold on\n// this Connection.\nfunc (p *Connect) SetTopicAliasMax(v uint16) {\n\tp.topicAliasMax = wuint16(v)\n}\nfunc (p *Connect) TopicAliasMax() uint16 { return uint16(p.topicAliasMax) }\n\n// The Client uses this value to request the Server to return Response\n// Information in the CONNACK\nfunc (p *Connect) SetRequestResponseInfo(v bool) {\n\tp.requestResponseInfo = wbool(v)\n}\nfunc (p *Connect) RequestResponseInfo() bool {\n\treturn bool(p.requestResponseInfo)\n}\n\n// The Client uses this value to indicate whether the ReasonString String or\n// User Properties are sent in the case of failures.\nfunc (p *Connect) SetRequestProblemInfo(v bool) {\n\tp.requestProblemInfo = wbool(v)\n}\nfunc (p *Connect) RequestProblemInfo() bool {\n\treturn bool(p.requestProblemInfo)\n}\n\nfunc (p *Connect) appendWillProperty(prop UserProp) {\n\tp.will.UserProperties = append(p.will.UserProperties, prop)\n}\n\nfunc (p *Connect) SetAuthMethod(v string) { p.authMethod = wstring(v) }\nfunc (p *Connect) AuthMethod() string     { return string(p.authMethod) }\n\nfunc (p *Connect) SetAuthData(v []byte) { p.authData = v }\nfunc (p *Connect) AuthData() []byte     { return p.authData }\n\nfunc (p *Connect) SetUsername(v string) {\n\tp.username = wstring(v)\n\tif len(v) == 0 {\n\t\tp.username = nil\n\t}\n\tp.flags.toggle(UsernameFlag, len(p.username) > 0)\n\n}\nfunc (p *Connect) Username() string { return string(p.username) }\n\nfunc (p *Connect) SetPassword(v []byte) {\n\tp.password = v\n\tp.flags.toggle(PasswordFlag, len(p.password) > 0)\n}\nfunc (p *Connect) Password() []byte { return p.password }\n\n// String returns a short string describing the connect packet.\nfunc (p *Connect) String() string {\n\treturn fmt.Sprintf(\"%s %s %s%v %s %s %v bytes\",\n\t\tfirstByte(p.fixed).String(), connectFlags(p.flags),\n\t\tp.protocolName,\n\t\tp.protocolVersion,\n\t\tp.ClientID(),\n\t\ttime.Duration(p.keepAlive)*time.Second,\n\t\tp.fill(_LEN, 0),\n\t)\n}\n\nfunc (p *Connect) dump(w io.Writer) {\n\tfmt.Fprintf(w, \"AuthData: %v\\n\", p.AuthData())\n\tfmt.Fprintf(w, \"AuthMethod: %v\\n\", p.AuthMethod())\n\tfmt.Fprintf(w, \"CleanStart: %v\\n\", p.CleanStart())\n\tfmt.Fprintf(w, \"ClientID: %v\\n\", p.ClientID())\n\tfmt.Fprintf(w, \"KeepAlive: %v\\n\", p.KeepAlive())\n\tfmt.Fprintf(w, \"MaxPacketSize: %v\\n\", p.MaxPacketSize())\n\tfmt.Fprintf(w, \"Password: %q\\n\", stars(len(p.Password())))\n\tfmt.Fprintf(w, \"ProtocolName: %v\\n\", p.ProtocolName())\n\tfmt.Fprintf(w, \"ProtocolVersion: %v\\n\", p.ProtocolVersion())\n\tfmt.Fprintf(w, \"ReceiveMax: %v\\n\", p.ReceiveMax())\n\tfmt.Fprintf(w, \"RequestProblemInfo: %v\\n\", p.RequestProblemInfo())\n\tfmt.Fprintf(w, \"RequestResponseInfo: %v\\n\", p.RequestResponseInfo())\n\tfmt.Fprintf(w, \"SessionExpiryInterval: %v\\n\", p.SessionExpiryInterval())\n\tfmt.Fprintf(w, \"TopicAliasMax: %v\\n\", p.TopicAliasMax())\n\tfmt.Fprintf(w, \"Username: %v\\n\", stars(len(p.Username())))\n\n\tif p.will != nil {\n\t\tfmt.Fprintln(w, \"Will\")\n\t\tp.will.dump(w)\n\t}\n\n\tp.UserProperties.dump(w)\n}\n\nfunc stars(v int) string {\n\tif v == 0 {\n\t\treturn \"\"\n\t}\n\treturn \"*********\"", "\t\"strconv\"\n\t\"strings\"\n\t\"time\"\n)\n\n// If we want to be able to handle large packets each must implement\n// io.ReaderFrom This allows a client decide if it should read in all\n// the data in one slice and wrap it in a reader or not.\n\n// The other direction is also important to be able to write out large\n// packets without loading everything into memory each packet must\n// implement io.WriterTo.\n\nvar mqtt5 = []byte(\"MQTT\")\n\n// NewConnect returns an empty MQTT v5 connect packet.\nfunc NewConnect() *Connect {\n\treturn &Connect{\n\t\tfixed:           bits(CONNECT),\n\t\tprotocolName:    mqtt5,\n\t\tprotocolVersion: 5,\n\t}\n}\n\ntype Connect struct {\n\t// Fields are kept hidden so\n\t// - we can optimize memory storage without affecting the API\n\t// - users don't have to handle dependencies between fields and flags\n\n\t// order is optimized for memory padding\n\tfixed           bits\n\tflags           bits\n\tprotocolVersion wuint8\n\tkeepAlive       wuint16\n\treceiveMax      wuint16\n\n\tsessionExpiryInterval wuint32\n\tmaxPacketSize         wuint32\n\n\twillDelayInterval wuint32\n\n\ttopicAliasMax       wuint16\n\trequestResponseInfo wbool\n\trequestProblemInfo  wbool\n\n\tprotocolName wstring\n\tclientID     wstring\n\tUserProperties\n\tauthMethod wstring\n\tauthData   bindata\n\n\tusername wstring\n\tpassword bindata\n\n\twill        *Publish\n\twillPayload bindata // as the one in Publish.payload is raw\n\t// what does it mean, raw?\n}\n\n// Connect fields are exposed using methods to simplify the type\n// conversion.\n\n// SetWill sets the will message. The Server delays publishing the\n// Client\u2019s Will Message until the Will Delay Interval has passed or\n// the Session ends, whichever happens first.\nfunc (p *Connect) SetWill(will *Publish) {\n\tp.will = will\n\tp.flags.toggle(WillFlag, true)\n\tp.flags.toggle(WillRetain, will.Retain())\n\tp.willPayload = bindata(will.payload)\n\tp.setWillQoS(will.QoS())\n}\n\nfunc (p *Connect) SetWillDelayInterval(delayInterval uint32) {\n\tp.willDelayInterval = wuint32(delayInterval)\n}\nfunc (p *Connect) WillDelayInterval() uint32 {\n\treturn uint32(p.willDelayInterval)\n}\n\n// Will returns the will publish message.\nfunc (p *Connect) Will() *Publish { return p.will }\n\nfunc (p *Connect) HasFlag(v byte) bool { return p.flags.Has(v) }\n\nfunc (p *Connect) SetCleanStart(v bool) { p.flags.toggle(CleanStart, v) }\nfunc (p *Connect) CleanStart() bool     { return p.flags.Has(CleanStart) }\n\nfunc (p *Connect) SetProtocolVersion(v uint8) { p.protocolVersion = wuint8(v) }\nfunc (p *Connect) ProtocolVersion() uint8     { return uint8(p.protocolVersion) }\n\nfunc (p *Connect) SetProtocolName(v string) { p.protocolName = wstring(v) }\nfunc (p *Connect) ProtocolName() string     { return string(p.protocolName) }\n\nfunc (p *Connect) SetClientID(v string) { p.clientID = wstring(v) }\nfunc (p *Connect) ClientID() string     { return string(p.clientID) }\n\nfunc (p *Connect) SetKeepAlive(v uint16) { p.keepAlive = wuint16(v) }\nfunc (p *Connect) KeepAlive() uint16     { return uint16(p.keepAlive) }\n\nfunc (p *Connect) setWillQoS(v uint8) {\n\tp.flags &= bits(^(WillQoS2 | WillQoS1)) // reset\n\tp.flags.toggle(v<<3, v < 3)\n}\nfunc (p *Connect) willQoS() uint8 {\n\treturn (uint8(p.flags) & (WillQoS2 | WillQoS1)) >> 3\n}\n\nfunc (p *Connect) SetSessionExpiryInterval(v uint32) {\n\tp.sessionExpiryInterval = wuint32(v)\n}\nfunc (p *Connect) SessionExpiryInterval() uint32 {\n\treturn uint32(p.sessionExpiryInterval)\n}\n\nfunc (p *Connect) SetReceiveMax(v uint16) { p.receiveMax = wuint16(v) }\nfunc (p *Connect) ReceiveMax() uint16     { return uint16(p.receiveMax) }\n\nfunc (p *Connect) SetMaxPacketSize(v uint32) { p.maxPacketSize = wuint32(v) }\nfunc (p *Connect) MaxPacketSize() uint32     { return uint32(p.maxPacketSize) }\n\n// This value indicates the highest value that the Client will accept\n// as a Topic Alias sent by the Server. The Client uses this value to\n// limit the number of Topic Aliases that it is willing to hold on\n// this Connection.\nfunc (p *Connect) SetTopicAliasMax(v uint16) {\n\tp.topicAliasMax = wuint16(v)\n}\nfunc (p *Connect) TopicAliasMax() uint16 { return uint16(p.topicAliasMax) }\n\n// The Client uses this value to request the Server to return Response\n// Information in the CONNACK\nfunc (p *Connect) SetRequestResponseInfo(v bool) {\n\tp.requestResponseInfo = wbool(v)\n}\nfunc (p *Connect) RequestResponseInfo() bool {\n\treturn bool(p.requestResponseInfo)\n}\n\n// The Client uses this value to indicate whether the ReasonString String or\n// User Properties are sent in the case of failures.\nfunc (p *Connect) SetRequestProblemInfo(v bool) {\n\tp.requestProblemInfo = wbool(v)\n}\nfunc (p *Connect) RequestProblemInfo() bool {\n\treturn bool(p.requestProblemInfo)\n}\n\nfunc (p *Connect) appendWillProperty(prop UserProp) {\n\tp.will.UserProperties = append(p.will.UserProperties, prop)\n}\n\nfunc (p *Connect) SetAuthMethod(v string) { p.authMethod = wstring(v) }\nfunc (p *Connect) AuthMethod() string     { return string(p.authMethod) }\n\nfunc (p *Connect) SetAuthData(v []byte) { p.authData = v }\nfunc (p *Connect) AuthData() []byte     { return p.authData }\n\nfunc (p *Connect) SetUsername(v string) {\n\tp.username = wstring(v)\n\tif len(v) == 0 {\n\t\tp.username = nil\n\t}\n\tp.flags.toggle(UsernameFlag, len(p.username) > 0)\n\n}\nfunc (p *Connect) Username() string { return string(p.username) }\n\nfunc (p *Connect) SetPassword(v []byte) {\n\tp.password = v\n\tp.flags.toggle(PasswordFlag, len(p.password) > 0)\n}\nfunc (p *Connect) Password() []byte { return p.password }\n\n// String returns a short string describing the connect packet.\nfunc (p *Connect) String() string {\n\treturn fmt.Sprintf(\"%s %s %s%v %s %s %v bytes\",\n\t\tfirstByte(p.fixed).String(), connectFlags(p.flags),\n\t\tp.protocolName,\n\t\tp.protocolVersion,\n\t\tp.ClientID(),\n\t\ttime.Duration(p.keepAlive)*time.Second,\n\t\tp.fill(_LEN, 0),\n\t)\n}\n\nfunc (p *Connect) dump(w io.Writer) {\n\t// collect the fields and hand them to w in one Write\n\td := &dumper{w: w}\n\td.val(\"AuthData\", p.AuthData())\n\td.val(\"AuthMethod\", p.AuthMethod())\n\td.val(\"CleanStart\", p.CleanStart())\n\td.val(\"ClientID\", p.ClientID())\n\td.val(\"KeepAlive\", p.KeepAlive())\n\td.val(\"MaxPacketSize\", p.MaxPacketSize())\n\td.quoted(\"Password\", masked(string(p.Password())))\n\td.val(\"ProtocolName\", p.ProtocolName())\n\td.val(\"ProtocolVersion\", p.ProtocolVersion())\n\td.val(\"ReceiveMax\", p.ReceiveMax())\n\td.val(\"RequestProblemInfo\", p.RequestProblemInfo())\n\td.val(\"RequestResponseInfo\", p.RequestResponseInfo())\n\td.val(\"SessionExpiryInterval\", p.SessionExpiryInterval())\n\td.val(\"TopicAliasMax\", p.TopicAliasMax())\n\td.text(\"Username\", masked(p.Username()))\n\td.flush()\n\n\tif p.will != nil {\n\t\tfmt.Fprintln(w, \"Will\")\n\t\tp.will.dump(w)\n\t}\n\n\tp.UserProperties.dump(w)\n}\n\n// masked hides v, the first letter is kept as a hint for whoever\n// reads the log.\nfunc masked(v string) string {\n\tif len(v) == 0 {\n\t\treturn \"\"\n\t}\n\treturn \"*********\"\n}\n\n// dumper collects named fields as lines, flush writes them with one\n// call to Write.\ntype dumper struct {\n\tw  io.Writer\n\tsb strings.Builder\n}\n\n// val adds the field using the default format of v.\nfunc (d *dumper) val(name string, v interface{}) {\n\tfmt.Fprintf(&d.sb, \"%s: %v\\n\", name, v)\n}\n\n// text adds the field as is.\nfunc (d *dumper) text(name, v string) {\n\td.sb.WriteString(name)\n\td.sb.WriteString(\": \")\n\td.sb.WriteString(v)\n\td.sb.WriteByte('\\n')\n}\n\n// quoted adds the field as a double quoted string.\nfunc (d *dumper) quoted(name, v string) {\n\td.text(name, strconv.Quote(v))\n}\n\nfunc (d *dumper) flush() {\n\tfmt.Fprint(d.w, d.sb.String())\n\td.sb.Reset()"}}},
		{Name: "adv5-C2-first-letter-through-a-collecting-dumper", Rule: "R18.1", Where: "(*dumper).flush", Edits: []Edit{{"connect.go", "\t\"time\"\n)\n\n// If we want to be able to handle large packets each must implement\n// io.ReaderFrom This allows a client decide if it should read in all\n// the data in one slice and wrap it in a reader or not.\n\n// The other direction is also important to be able to write out large\n// packets without loading everything into memory each packet must\n// implement io.WriterTo.\n\nvar mqtt5 = []byte(\"MQTT\")\n\n// NewConnect returns an empty MQTT v5 connect packet.\nfunc NewConnect() *Connect {\n\treturn &Connect{\n\t\tfixed:           bits(CONNECT),\n\t\tprotocolName:    mqtt5,\n\t\tprotocolVersion: 5,\n\t}\n}\n\ntype Connect struct {\n\t// Fields are kept hidden so\n\t// - we can optimize memory storage without affecting the API\n\t// - users don't have to handle dependencies between fields and flags\n\n\t// order is optimized for memory padding\n\tfixed           bits\n\tflags           bits\n\tprotocolVersion wuint8\n\tkeepAlive       wuint16\n\treceiveMax      wuint16\n\n\tsessionExpiryInterval wuint32\n\tmaxPacketSize         wuint32\n\n\twillDelayInterval wuint32\n\n\ttopicAliasMax       wuint16\n\trequestResponseInfo wbool\n\trequestProblemInfo  wbool\n\n\tprotocolName wstring\n\tclientID     wstring\n\tUserProperties\n\tauthMethod wstring\n\tauthData   bindata\n\n\tusername wstring\n\tpassword bindata\n\n\twill        *Publish\n\twillPayload bindata // as the one in Publish.payload is raw\n\t// what does it mean, raw?\n}\n\n// Connect fields are exposed using methods to simplify the type\n// conversion.\n\n// SetWill sets the will message. The Server delays publishing the\n// Client\u2019s Will Message until the Will Delay Interval has passed or\n// the Session ends, whichever happens first.\nfunc (p *Connect) SetWill(will *Publish) {\n\tp.will = will\n\tp.flags.toggle(WillFlag, true)\n\tp.flags.toggle(WillRetain, will.Retain())\n\tp.willPayload = bindata(will.payload)\n\tp.setWillQoS(will.QoS())\n}\n\nfunc (p *Connect) SetWillDelayInterval(delayInterval uint32) {\n\tp.willDelayInterval = wuint32(delayInterval)\n}\nfunc (p *Connect) WillDelayInterval() uint32 {\n\treturn uint32(p.willDelayInterval)\n}\n\n// Will returns the will publish message.\nfunc (p *Connect) Will() *Publish { return p.will }\n\nfunc (p *Connect) HasFlag(v byte) bool { return p.flags.Has(v) }\n\nfunc (p *Connect) SetCleanStart(v bool) { p.flags.toggle(CleanStart, v) }\nfunc (p *Connect) CleanStart() bool     { return p.flags.Has(CleanStart) }\n\nfunc (p *Connect) SetProtocolVersion(v uint8) { p.protocolVersion = wuint8(v) }\nfunc (p *Connect) ProtocolVersion() uint8     { return uint8(p.protocolVersion) }\n\nfunc (p *Connect) SetProtocolName(v string) { p.protocolName = wstring(v) }\nfunc (p *Connect) ProtocolName() string     { return string(p.protocolName) }\n\nfunc (p *Connect) SetClientID(v string) { p.clientID = wstring(v) }\nfunc (p *Connect) ClientID() string     { return string(p.clientID) }\n\nfunc (p *Connect) SetKeepAlive(v uint16) { p.keepAlive = wuint16(v) }\nfunc (p *Connect) KeepAlive() uint16     { return uint16(p.keepAlive) }\n\nfunc (p *Connect) setWillQoS(v uint8) {\n\tp.flags &= bits(^(WillQoS2 | WillQoS1)) // reset\n\tp.flags.toggle(v<<3, v < 3)\n}\nfunc (p *Connect) willQoS() uint8 {\n\treturn (uint8(p.flags) & (WillQoS2 | WillQoS1)) >> 3\n}\n\nfunc (p *Connect) SetSessionExpiryInterval(v uint32) {\n\tp.sessionExpiryInterval = wuint32(v)\n}\nfunc (p *Connect) SessionExpiryInterval() uint32 {\n\treturn uint32(p.sessionExpiryInterval)\n}\n\nfunc (p *Connect) SetReceiveMax(v uint16) { p.receiveMax = wuint16(v) }\nfunc (p *Connect) ReceiveMax() uint16     { return uint16(p.receiveMax) }\n\nfunc (p *Connect) SetMaxPacketSize(v uint32) { p.maxPacketSize = wuint32(v) }\nfunc (p *Connect) MaxPacketSize() uint32     { return uint32(p.maxPacketSize) }\n\n// This value indicates the highest value that the Client will accept\n// as a Topic Alias sent by the Server. The Client uses this value to\n// limit the number of Topic Aliases that it is willing to hold on\n// this Connection.\nfunc (p *Connect) SetTopicAliasMax(v uint16) {\n\tp.topicAliasMax = wuint16(v)\n}\nfunc (p *Connect) TopicAliasMax() uint16 { return uint16(p.topicAliasMax) }\n\n// The Client uses this value to request the Server to return Response\n// Information in the CONNACK\nfunc (p *Connect) SetRequestResponseInfo(v bool) {\n\tp.requestResponseInfo = wbool(v)\n}\nfunc (p *Connect) RequestResponseInfo() bool {\n\treturn bool(p.requestResponseInfo)\n}\n\n// The Client uses this value to indicate whether the ReasonString String or\n// User Properties are sent in the case of failures.\nfunc (p *Connect) SetRequestProblemInfo(v bool) {\n\tp.requestProblemInfo = wbool(v)\n}\nfunc (p *Connect) RequestProblemInfo() bool {\n\treturn bool(p.requestProblemInfo)\n}\n\nfunc (p *Connect) appendWillProperty(prop UserProp) {\n\tp.will.UserProperties = append(p.will.UserProperties, prop)\n}\n\nfunc (p *Connect) SetAuthMethod(v string) { p.authMethod = wstring(v) }\nfunc (p *Connect) AuthMethod() string     { return string(p.authMethod) }\n\nfunc (p *Connect) SetAuthData(v []byte) { p.authData = v }\nfunc (p *Connect) AuthData() []byte     { return p.authData }\n\nfunc (p *Connect) SetUsername(v string) {\n\tp.username = wstring(v)\n\tif len(v) == 0 {\n\t\tp.username = nil\n\t}\n\tp.flags.toggle(UsernameFlag, len(p.username) > 0)\n\n}\nfunc (p *Connect) Username() string { return string(p.username) }\n\nfunc (p *Connect) SetPassword(v []byte) {\n\tp.password = v\n\tp.flags.toggle(PasswordFlag, len(p.password) > 0)\n}\nfunc (p *Connect) Password() []byte { return p.password }\n\n// String returns a short string describing the connect packet.\nfunc (p *Connect) String() string {\n\treturn fmt.Sprintf(\"%s %s %s%v %s %s %v bytes\",\n\t\tfirstByte(p.fixed).String(), connectFlags(p.flags),\n\t\tp.protocolName,\n\t\tp.protocolVersion,\n\t\tp.ClientID(),\n\t\ttime.Duration(p.keepAlive)*time.Second,\n\t\tp.fill(_LEN, 0),\n\t)\n}\n\nfunc (p *Connect) dump(w io.Writer) {\n\tfmt.Fprintf(w, \"AuthData: %v\\n\", p.AuthData())\n\tfmt.Fprintf(w, \"AuthMethod: %v\\n\", p.AuthMethod())\n\tfmt.Fprintf(w, \"CleanStart: %v\\n\", p.CleanStart())\n\tfmt.Fprintf(w, \"ClientID: %v\\n\", p.ClientID())\n\tfmt.Fprintf(w, \"KeepAlive: %v\\n\", p.KeepAlive())\n\tfmt.Fprintf(w, \"MaxPacketSize: %v\\n\", p.MaxPacketSize())\n\tfmt.Fprintf(w, \"Password: %q\\n\", stars(len(p.Password())))\n\tfmt.Fprintf(w, \"ProtocolName: %v\\n\", p.ProtocolName())\n\tfmt.Fprintf(w, \"ProtocolVersion: %v\\n\", p.ProtocolVersion())\n\tfmt.Fprintf(w, \"ReceiveMax: %v\\n\", p.ReceiveMax())\n\tfmt.Fprintf(w, \"RequestProblemInfo: %v\\n\", p.RequestProblemInfo())\n\tfmt.Fprintf(w, \"RequestResponseInfo: %v\\n\", p.RequestResponseInfo())\n\tfmt.Fprintf(w, \"SessionExpiryInterval: %v\\n\", p.SessionExpiryInterval())\n\tfmt.Fprintf(w, \"TopicAliasMax: %v\\n\", p.TopicAliasMax())\n\tfmt.Fprintf(w, \"Username: %v\\n\", stars(len(p.Username())))\n\n\tif p.will != nil {\n\t\tfmt.Fprintln(w, \"Will\")\n\t\tp.will.dump(w)\n\t}\n\n\tp.UserProperties.dump(w)\n}\n\nfunc stars(v int) string {\n\tif v == 0 {\n\t\treturn \"\"\n\t}\n\treturn \"*********\"", "\t\"strconv\"\n\t\"strings\"\n\t\"time\"\n)\n\n// If we want to be able to handle large packets each must implement\n// io.ReaderFrom This allows a client decide if it should read in all\n// the data in one slice and wrap it in a reader or not.\n\n// The other direction is also important to be able to write out large\n// packets without loading everything into memory each packet must\n// implement io.WriterTo.\n\nvar mqtt5 = []byte(\"MQTT\")\n\n// NewConnect returns an empty MQTT v5 connect packet.\nfunc NewConnect() *Connect {\n\treturn &Connect{\n\t\tfixed:           bits(CONNECT),\n\t\tprotocolName:    mqtt5,\n\t\tprotocolVersion: 5,\n\t}\n}\n\ntype Connect struct {\n\t// Fields are kept hidden so\n\t// - we can optimize memory storage without affecting the API\n\t// - users don't have to handle dependencies between fields and flags\n\n\t// order is optimized for memory padding\n\tfixed           bits\n\tflags           bits\n\tprotocolVersion wuint8\n\tkeepAlive       wuint16\n\treceiveMax      wuint16\n\n\tsessionExpiryInterval wuint32\n\tmaxPacketSize         wuint32\n\n\twillDelayInterval wuint32\n\n\ttopicAliasMax       wuint16\n\trequestResponseInfo wbool\n\trequestProblemInfo  wbool\n\n\tprotocolName wstring\n\tclientID     wstring\n\tUserProperties\n\tauthMethod wstring\n\tauthData   bindata\n\n\tusername wstring\n\tpassword bindata\n\n\twill        *Publish\n\twillPayload bindata // as the one in Publish.payload is raw\n\t// what does it mean, raw?\n}\n\n// Connect fields are exposed using methods to simplify the type\n// conversion.\n\n// SetWill sets the will message. The Server delays publishing the\n// Client\u2019s Will Message until the Will Delay Interval has passed or\n// the Session ends, whichever happens first.\nfunc (p *Connect) SetWill(will *Publish) {\n\tp.will = will\n\tp.flags.toggle(WillFlag, true)\n\tp.flags.toggle(WillRetain, will.Retain())\n\tp.willPayload = bindata(will.payload)\n\tp.setWillQoS(will.QoS())\n}\n\nfunc (p *Connect) SetWillDelayInterval(delayInterval uint32) {\n\tp.willDelayInterval = wuint32(delayInterval)\n}\nfunc (p *Connect) WillDelayInterval() uint32 {\n\treturn uint32(p.willDelayInterval)\n}\n\n// Will returns the will publish message.\nfunc (p *Connect) Will() *Publish { return p.will }\n\nfunc (p *Connect) HasFlag(v byte) bool { return p.flags.Has(v) }\n\nfunc (p *Connect) SetCleanStart(v bool) { p.flags.toggle(CleanStart, v) }\nfunc (p *Connect) CleanStart() bool     { return p.flags.Has(CleanStart) }\n\nfunc (p *Connect) SetProtocolVersion(v uint8) { p.protocolVersion = wuint8(v) }\nfunc (p *Connect) ProtocolVersion() uint8     { return uint8(p.protocolVersion) }\n\nfunc (p *Connect) SetProtocolName(v string) { p.protocolName = wstring(v) }\nfunc (p *Connect) ProtocolName() string     { return string(p.protocolName) }\n\nfunc (p *Connect) SetClientID(v string) { p.clientID = wstring(v) }\nfunc (p *Connect) ClientID() string     { return string(p.clientID) }\n\nfunc (p *Connect) SetKeepAlive(v uint16) { p.keepAlive = wuint16(v) }\nfunc (p *Connect) KeepAlive() uint16     { return uint16(p.keepAlive) }\n\nfunc (p *Connect) setWillQoS(v uint8) {\n\tp.flags &= bits(^(WillQoS2 | WillQoS1)) // reset\n\tp.flags.toggle(v<<3, v < 3)\n}\nfunc (p *Connect) willQoS() uint8 {\n\treturn (uint8(p.flags) & (WillQoS2 | WillQoS1)) >> 3\n}\n\nfunc (p *Connect) SetSessionExpiryInterval(v uint32) {\n\tp.sessionExpiryInterval = wuint32(v)\n}\nfunc (p *Connect) SessionExpiryInterval() uint32 {\n\treturn uint32(p.sessionExpiryInterval)\n}\n\nfunc (p *Connect) SetReceiveMax(v uint16) { p.receiveMax = wuint16(v) }\nfunc (p *Connect) ReceiveMax() uint16     { return uint16(p.receiveMax) }\n\nfunc (p *Connect) SetMaxPacketSize(v uint32) { p.maxPacketSize = wuint32(v) }\nfunc (p *Connect) MaxPacketSize() uint32     { return uint32(p.maxPacketSize) }\n\n// This value indicates the highest value that the Client will accept\n// as a Topic Alias sent by the Server. The Client uses this value to\n// limit the number of Topic Aliases that it is willing to hold on\n// this Connection.\nfunc (p *Connect) SetTopicAliasMax(v uint16) {\n\tp.topicAliasMax = wuint16(v)\n}\nfunc (p *Connect) TopicAliasMax() uint16 { return uint16(p.topicAliasMax) }\n\n// The Client uses this value to request the Server to return Response\n// Information in the CONNACK\nfunc (p *Connect) SetRequestResponseInfo(v bool) {\n\tp.requestResponseInfo = wbool(v)\n}\nfunc (p *Connect) RequestResponseInfo() bool {\n\treturn bool(p.requestResponseInfo)\n}\n\n// The Client uses this value to indicate whether the ReasonString String or\n// User Properties are sent in the case of failures.\nfunc (p *Connect) SetRequestProblemInfo(v bool) {\n\tp.requestProblemInfo = wbool(v)\n}\nfunc (p *Connect) RequestProblemInfo() bool {\n\treturn bool(p.requestProblemInfo)\n}\n\nfunc (p *Connect) appendWillProperty(prop UserProp) {\n\tp.will.UserProperties = append(p.will.UserProperties, prop)\n}\n\nfunc (p *Connect) SetAuthMethod(v string) { p.authMethod = wstring(v) }\nfunc (p *Connect) AuthMethod() string     { return string(p.authMethod) }\n\nfunc (p *Connect) SetAuthData(v []byte) { p.authData = v }\nfunc (p *Connect) AuthData() []byte     { return p.authData }\n\nfunc (p *Connect) SetUsername(v string) {\n\tp.username = wstring(v)\n\tif len(v) == 0 {\n\t\tp.username = nil\n\t}\n\tp.flags.toggle(UsernameFlag, len(p.username) > 0)\n\n}\nfunc (p *Connect) Username() string { return string(p.username) }\n\nfunc (p *Connect) SetPassword(v []byte) {\n\tp.password = v\n\tp.flags.toggle(PasswordFlag, len(p.password) > 0)\n}\nfunc (p *Connect) Password() []byte { return p.password }\n\n// String returns a short string describing the connect packet.\nfunc (p *Connect) String() string {\n\treturn fmt.Sprintf(\"%s %s %s%v %s %s %v bytes\",\n\t\tfirstByte(p.fixed).String(), connectFlags(p.flags),\n\t\tp.protocolName,\n\t\tp.protocolVersion,\n\t\tp.ClientID(),\n\t\ttime.Duration(p.keepAlive)*time.Second,\n\t\tp.fill(_LEN, 0),\n\t)\n}\n\nfunc (p *Connect) dump(w io.Writer) {\n\t// collect the fields and hand them to w in one Write\n\td := &dumper{w: w}\n\td.val(\"AuthData\", p.AuthData())\n\td.val(\"AuthMethod\", p.AuthMethod())\n\td.val(\"CleanStart\", p.CleanStart())\n\td.val(\"ClientID\", p.ClientID())\n\td.val(\"KeepAlive\", p.KeepAlive())\n\td.val(\"MaxPacketSize\", p.MaxPacketSize())\n\td.quoted(\"Password\", masked(string(p.Password())))\n\td.val(\"ProtocolName\", p.ProtocolName())\n\td.val(\"ProtocolVersion\", p.ProtocolVersion())\n\td.val(\"ReceiveMax\", p.ReceiveMax())\n\td.val(\"RequestProblemInfo\", p.RequestProblemInfo())\n\td.val(\"RequestResponseInfo\", p.RequestResponseInfo())\n\td.val(\"SessionExpiryInterval\", p.SessionExpiryInterval())\n\td.val(\"TopicAliasMax\", p.TopicAliasMax())\n\td.text(\"Username\", masked(p.Username()))\n\td.flush()\n\n\tif p.will != nil {\n\t\tfmt.Fprintln(w, \"Will\")\n\t\tp.will.dump(w)\n\t}\n\n\tp.UserProperties.dump(w)\n}\n\n// masked hides v, the first letter is kept as a hint for whoever\n// reads the log.\nfunc masked(v string) string {\n\tif len(v) == 0 {\n\t\treturn \"\"\n\t}\n\treturn v[:1] + \"********\"\n}\n\n// dumper collects named fields as lines, flush writes them with one\n// call to Write.\ntype dumper struct {\n\tw  io.Writer\n\tsb strings.Builder\n}\n\n// val adds the field using the default format of v.\nfunc (d *dumper) val(name string, v interface{}) {\n\tfmt.Fprintf(&d.sb, \"%s: %v\\n\", name, v)\n}\n\n// text adds the field as is.\nfunc (d *dumper) text(name, v string) {\n\td.sb.WriteString(name)\n\td.sb.WriteString(\": \")\n\td.sb.WriteString(v)\n\td.sb.WriteByte('\\n')\n}\n\n// quoted adds the field as a double quoted string.\nfunc (d *dumper) quoted(name, v string) {\n\td.text(name, strconv.Quote(v))\n}\n\nfunc (d *dumper) flush() {\n\tfmt.Fprint(d.w, d.sb.String())\n\td.sb.Reset()"}}},
		{Name: "rf7-reader-constructor", Silent: true, Edits: []Edit{{"auth.go", "\tb := &buffer{data: data}", "\tb := newBuffer(data)"}, {"buffer.go", "// getAny reads all properties from the current offset starting with\n// the variable length.  fields map property identity codes to wire\n// type fields and the addProp func is used for each user property.\nfunc (b *buffer) getAny(fields map[Ident]func() wireType, addProp func(UserProp)) {\n\tif b.atEnd() {\n\t\treturn\n\t}\n\tvar propLen vbint\n\tb.get(&propLen)\n\tend := b.i + int(propLen)\n\tvar id Ident\n\tfor b.i < end {\n\t\tb.get(&id)\n\t\t// first failure stops the parsing\n\t\tif b.err != nil {\n\t\t\treturn\n\t\t}\n\t\tfield, hasField := fields[id]\n\t\tif hasField {\n\t\t\tb.get(field())\n\t\t\tcontinue\n\t\t}\n\t\tswitch id {\n\t\tcase UserProperty:\n\t\t\tvar p UserProp\n\t\t\tb.get(&p)\n\t\t\taddProp(p)\n\n\t\tcase SubscriptionID:\n\t\t\tvar sub vbint\n\t\t\tb.get(&sub)\n\t\t\tif b.addSubscriptionID != nil {\n\t\t\t\tb.addSubscriptionID(uint32(sub))\n\t\t\t}\n\n\t\tdefault:\n\t\t\tb.err = fmt.Errorf(\"unknown property id 0x%02x\", id)\n\t\t}\n\t}\n}\n\nfunc (b *buffer) get(v wireType) {\n\tif b.err != nil {\n\t\treturn\n\t}\n\tif b.i >= len(b.data) {\n\t\tb.err = ErrMissingData\n\t\treturn\n\t}\n\tif b.err = v.UnmarshalBinary(b.data[b.i:]); b.err != nil {\n\t\treturn\n\t}\n\tn := v.width()\n\tif n > len(b.data)-b.i {\n\t\tb.err = ErrMissingData\n\t\treturn\n\t}\n\tb.i += n", "// newBuffer returns a buffer positioned at the start of data.\nfunc newBuffer(data []byte) *buffer {\n\treturn &buffer{data: data}\n}\n\n// getAny reads all properties from the current offset starting with\n// the variable length.  fields map property identity codes to wire\n// type fields and the addProp func is used for each user property.\nfunc (b *buffer) getAny(fields map[Ident]func() wireType, addProp func(UserProp)) {\n\tif b.atEnd() {\n\t\treturn\n\t}\n\tvar propLen vbint\n\tb.get(&propLen)\n\tend := b.i + int(propLen)\n\tvar id Ident\n\tfor b.i < end {\n\t\tb.get(&id)\n\t\t// first failure stops the parsing\n\t\tif b.err != nil {\n\t\t\treturn\n\t\t}\n\t\tfield, hasField := fields[id]\n\t\tif hasField {\n\t\t\tb.get(field())\n\t\t\tcontinue\n\t\t}\n\t\tswitch id {\n\t\tcase UserProperty:\n\t\t\tvar p UserProp\n\t\t\tb.get(&p)\n\t\t\taddProp(p)\n\n\t\tcase SubscriptionID:\n\t\t\tvar sub vbint\n\t\t\tb.get(&sub)\n\t\t\tif b.addSubscriptionID != nil {\n\t\t\t\tb.addSubscriptionID(uint32(sub))\n\t\t\t}\n\n\t\tdefault:\n\t\t\tb.fail(fmt.Errorf(\"unknown property id 0x%02x\", id))\n\t\t}\n\t}\n}\n\nfunc (b *buffer) get(v wireType) {\n\tif b.err != nil {\n\t\treturn\n\t}\n\trest := b.rest()\n\tif len(rest) == 0 {\n\t\tb.fail(ErrMissingData)\n\t\treturn\n\t}\n\tif err := v.UnmarshalBinary(rest); err != nil {\n\t\tb.fail(err)\n\t\treturn\n\t}\n\tn := v.width()\n\tif n > len(rest) {\n\t\tb.fail(ErrMissingData)\n\t\treturn\n\t}\n\tb.i += n\n}\n\n// rest returns the data not yet read.\nfunc (b *buffer) rest() []byte {\n\treturn b.data[b.i:]\n}\n\n// fail records err unless a previous failure is already recorded,\n// i.e. the first failure is the one reported.\nfunc (b *buffer) fail(err error) {\n\tif b.err == nil {\n\t\tb.err = err\n\t}"}, {"connack.go", "\tb := &buffer{data: data}", "\tb := newBuffer(data)"}, {"connect.go", "\tbuf := &buffer{data: data}", "\tbuf := newBuffer(data)"}, {"disconnect.go", "\tb := &buffer{data: data}", "\tb := newBuffer(data)"}, {"puback.go", "\tb := &buffer{data: data}", "\tb := newBuffer(data)"}, {"pubcomp.go", "\tb := &buffer{data: data}", "\tb := newBuffer(data)"}, {"pubrec.go", "\tb := &buffer{data: data}", "\tb := newBuffer(data)"}, {"pubrel.go", "\tb := &buffer{data: data}", "\tb := newBuffer(data)"}, {"suback.go", "\tb := &buffer{data: data}", "\tb := newBuffer(data)"}, {"subscribe.go", "\tb := &buffer{data: data}", "\tb := newBuffer(data)"}, {"unsuback.go", "\tb := &buffer{data: data}", "\tb := newBuffer(data)"}, {"unsubscribe.go", "\tb := &buffer{data: data}", "\tb := newBuffer(data)"}}},
		{Name: "adv4-E-deferred-print-of-the-password", Rule: "R18.1", Where: "(*Connect).dump#deferred-call", Edits: []Edit{{"connect.go", "\tfmt.Fprintf(w, \"Password: %q\\n\", stars(len(p.Password())))\n", "\tdefer fmt.Fprintf(w, \"Password: %q\\n\", p.Password())\n"}}},
		{Name: "deferred-dump-of-the-user-properties", Silent: true, Edits: []Edit{{"connect.go", "\tp.UserProperties.dump(w)\n}\n\nfunc stars", "\tdefer p.UserProperties.dump(w)\n}\n\nfunc stars"}}},
		{Name: "deferred-print-of-the-stars", Silent: true, Edits: []Edit{{"connect.go", "\tfmt.Fprintf(w, \"Password: %q\\n\", stars(len(p.Password())))\n", "\tdefer fmt.Fprintf(w, \"Password: %q\\n\", stars(len(p.Password())))\n"}}},
		{Name: "buffer-drained-into-the-writer", Rule: "R18.1", Where: "(*Connect).dump#write", Edits: []Edit{{"connect.go", "\tp.UserProperties.dump(w)\n}\n\nfunc stars", "\tp.UserProperties.dump(w)\n\tvar bb bytes.Buffer\n\tbb.Write(p.password)\n\tbb.WriteTo(w)\n}\n\nfunc stars"}}},
		{Name: "min-of-a-credential-byte", Rule: "R18.1", Where: "(*Connect).dump", Edits: []Edit{{"connect.go", "\tp.UserProperties.dump(w)\n}\n\nfunc stars", "\tp.UserProperties.dump(w)\n\tif len(p.password) > 0 {\n\t\tfmt.Fprintln(w, min(p.password[0], 9))\n\t}\n}\n\nfunc stars"}}},
		{Name: "pointer-receiver-method-reads-the-credential", Rule: "R18.2", Where: "Connect", Edits: []Edit{{"connect.go", "\tfmt.Fprintf(w, \"Username: %v\\n\", stars(len(p.Username())))\n", "\tfmt.Fprintf(w, \"Username: %v\\n\", stars(len(p.Username())))\n\tif p.username.startsWithSlash() {\n\t\tfmt.Fprintln(w, \"Username looks like a path\")\n\t}\n"}, {"connect.go", "func stars(v int) string {", "func (v *wstring) startsWithSlash() bool { return len(*v) > 0 && (*v)[0] == '/' }\n\nfunc stars(v int) string {"}}},
		{Name: "table-row-printed-by-a-method-of-the-row", Rule: "R18.1", Where: "writeTo", Edits: []Edit{{"connect.go", "\tfmt.Fprintf(w, \"Username: %v\\n\", stars(len(p.Username())))\n", "\trows := []dumpRow{{\"Username\", stars(len(p.Username()))}, {\"Password\", p.Password()}}\n\tfor i := range rows {\n\t\trows[i].writeTo(w)\n\t}\n"}, {"connect.go", "func stars(v int) string {", "type dumpRow struct {\n\tname  string\n\tvalue interface{}\n}\n\nfunc (r *dumpRow) writeTo(w io.Writer) { fmt.Fprintf(w, \"%s: %v\\n\", r.name, r.value) }\n\nfunc stars(v int) string {"}}},
		{Name: "table-rows-with-masked-credentials", Silent: true, Edits: []Edit{{"connect.go", "\tfmt.Fprintf(w, \"Username: %v\\n\", stars(len(p.Username())))\n", "\trows := []dumpRow{{\"Username\", stars(len(p.Username()))}, {\"Password\", stars(len(p.Password()))}}\n\tfor i := range rows {\n\t\trows[i].writeTo(w)\n\t}\n"}, {"connect.go", "func stars(v int) string {", "type dumpRow struct {\n\tname  string\n\tvalue interface{}\n}\n\nfunc (r *dumpRow) writeTo(w io.Writer) { fmt.Fprintf(w, \"%s: %v\\n\", r.name, r.value) }\n\nfunc stars(v int) string {"}}},
		{Name: "dump-prints-username", Rule: "R18.1", Where: "(*Connect).dump", Edits: []Edit{{"connect.go", "fmt.Fprintf(w, \"Username: %v\\n\", stars(len(p.Username())))", "fmt.Fprintf(w, \"Username: %v\\n\", p.Username())"}}},
		{Name: "string-appends-password-prefix", Rule: "R18.1", Where: "(*Connect).String", Edits: []Edit{{"connect.go", "\t\tp.fill(_LEN, 0),\n\t)\n}", "\t\tp.fill(_LEN, 0),\n\t) + string(p.password[:1])\n}"}}},
		{Name: "string-compares-password", Rule: "R18.2", Where: "(*Connect).String", Edits: []Edit{{"connect.go", "func (p *Connect) String() string {\n\treturn fmt.Sprintf(", "func (p *Connect) String() string {\n\tif string(p.password) == \"admin\" {\n\t\treturn \"CONNECT default password\"\n\t}\n\treturn fmt.Sprintf("}}},
		{Name: "dump-prints-whole-struct", Rule: "R18.1", Where: "(*Connect).dump", Edits: []Edit{{"connect.go", "\tfmt.Fprintf(w, \"AuthData: %v\\n\", p.AuthData())", "\tfmt.Fprintf(w, \"%+v\\n\", *p)\n\tfmt.Fprintf(w, \"AuthData: %v\\n\", p.AuthData())"}}},
		{Name: "dump-prints-hex-prefix", Rule: "R18.1", Where: "(*Connect).dump", Edits: []Edit{{"connect.go", "fmt.Fprintf(w, \"Password: %q\\n\", stars(len(p.Password())))", "fmt.Fprintf(w, \"Password: %x\\n\", p.Password()[:0])"}}},
		{Name: "stars-depends-on-content", Rule: "R18.2", Where: "stars", Edits: []Edit{
			{"connect.go", "fmt.Fprintf(w, \"Password: %q\\n\", stars(len(p.Password())))", "fmt.Fprintf(w, \"Password: %q\\n\", starsOf(p.Password()))"},
			{"connect.go", "func stars(v int) string {", "func starsOf(v []byte) string {\n\tif len(v) > 0 && v[0] == 'x' {\n\t\treturn \"x********\"\n\t}\n\treturn stars(len(v))\n}\n\nfunc stars(v int) string {"}}},
		{Name: "password-written-to-writer", Rule: "R18.1", Where: "(*Connect).dump", Edits: []Edit{{"connect.go", "\tp.UserProperties.dump(w)\n}\n\nfunc stars", "\tp.UserProperties.dump(w)\n\tw.Write(p.password)\n}\n\nfunc stars"}}},
		{Name: "decoder-rewinds-to-declared-property-end", Rule: "R18.3", Where: "offset written outside get", Edits: []Edit{{"buffer.go", "\t\tdefault:\n\t\t\tb.err = fmt.Errorf(\"unknown property id 0x%02x\", id)\n\t\t}\n\t}\n", "\t\tdefault:\n\t\t\tb.err = fmt.Errorf(\"unknown property id 0x%02x\", id)\n\t\t}\n\t}\n\tb.i = end\n"}}},
		{Name: "will-payload-copied-from-rest-of-frame", Rule: "R18.4", Where: "(*Connect).UnmarshalBinary#frame-access", Edits: []Edit{{"connect.go", "\t\tp.will.SetRetain(p.flags.Has(WillRetain))\n", "\t\tp.will.SetRetain(p.flags.Has(WillRetain))\n\t\tp.will.payload = append(rawdata(nil), buf.data[buf.i-len(p.willPayload):]...)\n"}}},
		{Name: "setter-trims-line-ending", Rule: "R18.5", Where: "(*Connect).SetPassword", Edits: []Edit{
			{"connect.go", "\tp.password = v\n", "\tp.password = bytes.TrimRight(v, \"\\r\\n\")\n"}}},
		{Name: "setter-drops-blank-password", Rule: "R18.5", Where: "isBlank#branch-on-credential", Edits: []Edit{
			{"connect.go", "\tp.password = v\n", "\tif isBlank(v) {\n\t\tv = nil\n\t}\n\tp.password = v\n"},
			{"connect.go", "// String returns a short string describing the connect packet.", "func isBlank(v []byte) bool {\n\tfor _, c := range v {\n\t\tif c != ' ' && c != '\\n' {\n\t\t\treturn false\n\t\t}\n\t}\n\treturn true\n}\n\n// String returns a short string describing the connect packet."}}},
		{Name: "dump-prints-hex-of-the-encoded-frame", Rule: "R18.1", Where: "(*Connect).dump", Edits: []Edit{{"connect.go", "\tp.UserProperties.dump(w)\n}\n\nfunc stars", "\tp.UserProperties.dump(w)\n\tb := make([]byte, p.fill(_LEN, 0))\n\tp.fill(b, 0)\n\tfmt.Fprintf(w, \"Wire: % x\\n\", b)\n}\n\nfunc stars"}}},
		{Name: "mask-counts-runes", Rule: "R18.2", Where: "stars", Edits: []Edit{{"connect.go", "fmt.Fprintf(w, \"Username: %v\\n\", stars(len(p.Username())))", "fmt.Fprintf(w, \"Username: %v\\n\", stars(len([]rune(p.Username()))))"}}},
		{Name: "dump-table-driven-rows-carry-username", Rule: "R18.1", Where: "(*Connect).dump", Edits: []Edit{{"connect.go", "\tp.UserProperties.dump(w)\n}\n\nfunc stars", "\tp.UserProperties.dump(w)\n\trows := []struct{ k, v string }{{\"Username\", p.Username()}, {\"ClientID\", p.ClientID()}}\n\tfor _, r := range rows {\n\t\tfmt.Fprintf(w, \"%s: %v\\n\", r.k, r.v)\n\t}\n}\n\nfunc stars"}}},
		{Name: "dump-through-a-bytes-buffer", Rule: "R18.1", Where: "(*Connect).dump", Edits: []Edit{{"connect.go", "\tp.UserProperties.dump(w)\n}\n\nfunc stars", "\tp.UserProperties.dump(w)\n\tvar bb bytes.Buffer\n\tbb.WriteString(p.Username())\n\tfmt.Fprint(w, bb.String())\n}\n\nfunc stars"}}},
		{Name: "setter-normalises-utf8-through-runes", Rule: "R18.5", Where: "(*Connect).SetUsername", Edits: []Edit{{"connect.go", "\tp.username = wstring(v)\n", "\tp.username = wstring(string([]rune(v)))\n"}}},
		{Name: "dump-prints-go-syntax-of-the-packet", Rule: "R18.1", Where: "(*Connect).dump", Edits: []Edit{{"connect.go", "\tfmt.Fprintf(w, \"AuthData: %v\\n\", p.AuthData())", "\tfmt.Fprintf(w, \"%#v\\n\", p)\n\tfmt.Fprintf(w, \"AuthData: %v\\n\", p.AuthData())"}}},
		{Name: "dump-prints-the-packet-with-a-number-verb", Rule: "R18.1", Where: "(*Connect).dump", Edits: []Edit{{"connect.go", "\tfmt.Fprintf(w, \"AuthData: %v\\n\", p.AuthData())", "\tfmt.Fprintf(w, \"%d\\n\", p)\n\tfmt.Fprintf(w, \"AuthData: %v\\n\", p.AuthData())"}}},
		{Name: "dump-table-lookup-on-password-bytes", Rule: "R18.1", Where: "(*Connect).dump", Edits: []Edit{{"connect.go", "\tp.UserProperties.dump(w)\n}\n\nfunc stars", "\tp.UserProperties.dump(w)\n\tif len(p.password) > 0 {\n\t\tvar classes [256]string\n\t\tfmt.Fprintf(w, \"class: %s\\n\", classes[p.password[0]])\n\t}\n}\n\nfunc stars"}}},
		{Name: "dump-through-a-printf-style-wrapper", Rule: "R18.1", Where: "#fmt-operand", Edits: []Edit{{"connect.go", "\tp.UserProperties.dump(w)\n}\n\nfunc stars", "\tp.UserProperties.dump(w)\n\tlogf(w, \"user: %s\\n\", p.Username())\n}\n\nfunc logf(w io.Writer, format string, args ...interface{}) {\n\tfmt.Fprintf(w, format, args...)\n}\n\nfunc stars"}}},
		{Name: "dump-through-io-writestring", Rule: "R18.1", Where: "(*Connect).dump#write", Edits: []Edit{{"connect.go", "\tp.UserProperties.dump(w)\n}\n\nfunc stars", "\tp.UserProperties.dump(w)\n\tio.WriteString(w, p.Username())\n}\n\nfunc stars"}}},
		{Name: "setter-stores-a-copy", Silent: true, Edits: []Edit{{"connect.go", "\tp.password = v\n", "\tp.password = append([]byte(nil), v...)\n"}}},
		{Name: "print-length-only", Silent: true, Edits: []Edit{{"connect.go", "fmt.Fprintf(w, \"Password: %q\\n\", stars(len(p.Password())))", "fmt.Fprintf(w, \"Password: %d bytes\\n\", len(p.Password()))"}}},
	}})
}

type taint struct {
	p       *Prog
	scope   map[*ssa.Function]bool
	secret  map[string]bool // "T.f" field keys
	tainted map[ssa.Value]bool
	memT    map[ssa.Value]bool // base objects (allocs, params, make results) whose content is secret
	lenT    map[ssa.Value]bool // strings/slices whose LENGTH depends on credential content ([]rune(s), TrimSpace(s), s[:k] with a content-derived k …)
	memLenT map[ssa.Value]bool // base objects holding such values
	why     map[ssa.Value]string
	changed bool
}

func (t *taint) mark(v ssa.Value, why string) {
	if v == nil || t.tainted[v] {
		return
	}
	if _, isConst := v.(*ssa.Const); isConst {
		return
	}
	t.tainted[v] = true
	t.why[v] = why
	t.changed = true
	if os.Getenv("MQV_TAINT") != "" {
		fn := ""
		if i, ok := v.(ssa.Instruction); ok && i.Parent() != nil {
			fn = i.Parent().Name()
		}
		fmt.Fprintf(os.Stderr, "taint %s %s = %s (%s)\n", fn, v.Name(), v.String(), why)
	}
}

func (t *taint) markMem(v ssa.Value, why string) {
	b := baseObject(v)
	if b == nil || t.memT[b] {
		return
	}
	t.memT[b] = true
	t.changed = true
	t.why[b] = why
	if os.Getenv("MQV_TAINT") != "" {
		fmt.Fprintf(os.Stderr, "memtaint %s = %s (%s)\n", b.Name(), b.String(), why)
	}
}

// baseObject: the value that identifies the memory a slice/pointer points to.
func baseObject(v ssa.Value) ssa.Value {
	for i := 0; i < 10; i++ {
		switch x := v.(type) {
		case *ssa.Slice:
			v = x.X
		case *ssa.IndexAddr:
			v = x.X
		case *ssa.FieldAddr:
			// a field of local memory (a composite literal, an element of a local slice): the whole local object;
			// a field of something that came in from outside (the packet): that field only
			switch r := fieldRoot(x).(type) {
			case *ssa.Alloc, *ssa.MakeSlice:
				return r
			case *ssa.Parameter:
				// a field of a helper object handed in (a `*dumper` with a builder inside): the whole object, so that
				// what one method writes into it is what another method reads — but not for the packet itself, whose
				// credential fields are told apart from its other fields
				if !holdsCredentials(r.Type()) {
					return r
				}
			case *ssa.Call:
				if bi, ok := r.Call.Value.(*ssa.Builtin); ok && bi.Name() == "append" {
					return r
				}
			}
			return v
		case *ssa.ChangeType:
			v = x.X
		case *ssa.Convert:
			return v
		default:
			return v
		}
	}
	return v
}

// holdsCredentials: t is (a pointer to) a type with a Password method — the packet type whose fields are tracked one
// by one.
func holdsCredentials(t types.Type) bool {
	if pt, ok := t.Underlying().(*types.Pointer); ok {
		t = pt.Elem()
	}
	nt, ok := types.Unalias(t).(*types.Named)
	if !ok {
		return false
	}
	ms := types.NewMethodSet(types.NewPointer(nt))
	for i := 0; i < ms.Len(); i++ {
		if ms.At(i).Obj().Name() == "Password" {
			return true
		}
	}
	return false
}

// fieldRoot: the object a chain of field/element addresses starts from.
func fieldRoot(fa *ssa.FieldAddr) ssa.Value {
	var v ssa.Value = fa.X
	for i := 0; i < 10; i++ {
		switch x := v.(type) {
		case *ssa.FieldAddr:
			v = x.X
		case *ssa.IndexAddr:
			v = x.X
		case *ssa.Slice:
			v = x.X
		default:
			return v
		}
	}
	return v
}

func secretType(t types.Type, secret map[string]bool, depth int) bool {
	if depth > 5 {
		return false
	}
	switch u := t.Underlying().(type) {
	case *types.Struct:
		for i := 0; i < u.NumFields(); i++ {
			if secret[fmt.Sprintf("%s.%d", typeStr(t), i)] {
				return true
			}
			if secretType(u.Field(i).Type(), secret, depth+1) {
				return true
			}
		}
	case *types.Pointer:
		return secretType(u.Elem(), secret, depth+1)
	case *types.Array:
		return secretType(u.Elem(), secret, depth+1)
	case *types.Slice:
		return secretType(u.Elem(), secret, depth+1)
	}
	return false
}

func (t *taint) run() {
	for iter := 0; iter < 50; iter++ {
		t.changed = false
		for fn := range t.scope {
			for _, b := range fn.Blocks {
				for _, ins := range b.Instrs {
					t.step(fn, ins)
				}
			}
		}
		if !t.changed {
			return
		}
	}
}

// isT: v carries credential content — as a value, or as a pointer/slice into memory that holds it.
func (t *taint) isT(v ssa.Value) bool {
	if v == nil {
		return false
	}
	if t.tainted[v] {
		return true
	}
	if _, isConst := v.(*ssa.Const); isConst {
		return false
	}
	return pointerLike(v.Type()) && t.memT[baseObject(v)]
}

func (t *taint) whyOf(v ssa.Value) string {
	if w := t.why[v]; w != "" {
		return w
	}
	if w := t.why[baseObject(v)]; w != "" {
		return w
	}
	return "credential content"
}

func (t *taint) markLen(v ssa.Value) {
	if v == nil || t.lenT[v] {
		return
	}
	if _, isConst := v.(*ssa.Const); isConst {
		return
	}
	t.lenT[v] = true
	t.changed = true
}

func (t *taint) isLenT(v ssa.Value) bool {
	if v == nil {
		return false
	}
	return t.lenT[v] || t.memLenT[baseObject(v)] && pointerLike(v.Type())
}

// lengthPreserving: a conversion between string and []byte keeps the length; []rune(s), string(runes) and
// string(int) do not.
func lengthPreserving(from, to types.Type) bool {
	ok := func(t types.Type) bool {
		switch u := t.Underlying().(type) {
		case *types.Basic:
			return u.Info()&types.IsString != 0
		case *types.Slice:
			b, isB := u.Elem().Underlying().(*types.Basic)
			return isB && b.Kind() == types.Uint8
		}
		return false
	}
	return ok(from) && ok(to)
}

func (t *taint) step(fn *ssa.Function, ins ssa.Instruction) {
	switch x := ins.(type) {
	case *ssa.UnOp:
		switch x.Op {
		case token.MUL:
			if fa, ok := x.X.(*ssa.FieldAddr); ok {
				if pt, ok := fa.X.Type().Underlying().(*types.Pointer); ok && t.secret[fmt.Sprintf("%s.%d", typeStr(pt.Elem()), fa.Field)] {
					t.mark(x, "load of the credential field at "+t.p.Pos(x.Pos()))
				}
			}
			// whole-struct loads of a type containing the fields
			if secretType(x.Type(), t.secret, 0) {
				if _, isStruct := x.Type().Underlying().(*types.Struct); isStruct {
					t.mark(x, "copy of a struct that contains the credential fields")
				}
			}
			if t.isT(x.X) || t.memT[baseObject(x.X)] {
				t.mark(x, "load from memory holding credential bytes")
			}
			// a field read through a pointer that was handed in pointing at memory holding credential bytes (a row
			// of the caller's table, `(*field).writeTo`)
			if fa, ok := x.X.(*ssa.FieldAddr); ok {
				if r, isP := fieldRoot(fa).(*ssa.Parameter); isP && (t.memT[r] || t.tainted[r]) {
					t.mark(x, "load through a pointer into memory holding credential bytes")
				}
			}
			if t.memLenT[baseObject(x.X)] || t.lenT[x.X] {
				t.markLen(x)
			}
		default:
			if t.isT(x.X) {
				t.mark(x, t.whyOf(x.X))
			}
		}
	case *ssa.FieldAddr:
		// the address of a credential field points at credential bytes: whoever receives it (a pointer-receiver
		// method of the field's type, a helper) reads content when it loads through it
		if pt, ok := x.X.Type().Underlying().(*types.Pointer); ok && t.secret[fmt.Sprintf("%s.%d", typeStr(pt.Elem()), x.Field)] {
			if !t.memT[x] {
				t.memT[x] = true
				t.why[x] = "address of the credential field at " + t.p.Pos(x.Pos())
				t.changed = true
			}
		}
	case *ssa.Convert:
		if t.isT(x.X) {
			t.mark(x, t.whyOf(x.X))
			if !lengthPreserving(x.X.Type(), x.Type()) {
				t.markLen(x) // []rune(s), string(runes): the length is a function of the bytes
			}
		}
		if t.isLenT(x.X) {
			t.markLen(x)
		}
	case *ssa.ChangeType:
		if t.isT(x.X) {
			t.mark(x, t.whyOf(x.X))
		}
		if t.isLenT(x.X) {
			t.markLen(x)
		}
	case *ssa.MakeInterface:
		if t.isT(x.X) {
			t.mark(x, t.whyOf(x.X))
		}
		if t.isLenT(x.X) {
			t.markLen(x)
		}
	case *ssa.ChangeInterface:
		if t.isT(x.X) {
			t.mark(x, t.whyOf(x.X))
		}
		if t.isLenT(x.X) {
			t.markLen(x)
		}
	case *ssa.Slice:
		if t.isT(x.X) {
			t.mark(x, t.whyOf(x.X))
		}
		if t.isLenT(x.X) || t.isT(x.Low) || t.isT(x.High) || t.isT(x.Max) {
			t.markLen(x) // a bound computed from the content decides the length
		}
	case *ssa.IndexAddr:
		if t.isT(x.X) {
			t.mark(x, t.whyOf(x.X))
		}
		if t.isT(x.Index) {
			t.mark(x, "element selected by credential content")
		}
	case *ssa.Index:
		if t.isT(x.X) {
			t.mark(x, t.whyOf(x.X))
		}
		if t.isT(x.Index) {
			t.mark(x, "element selected by credential content")
		}
	case *ssa.MakeSlice:
		if t.isT(x.Len) || t.isT(x.Cap) {
			t.markLen(x) // a buffer whose size is computed from the content
		}
	case *ssa.Field:
		if t.isT(x.X) {
			if st, ok := x.X.Type().Underlying().(*types.Struct); ok && secretType(x.X.Type(), t.secret, 0) {
				// field of a copy of a struct that declares the credential fields: only those carry content
				if t.secret[fmt.Sprintf("%s.%d", typeStr(x.X.Type()), x.Field)] || secretType(st.Field(x.Field).Type(), t.secret, 0) {
					t.mark(x, t.whyOf(x.X))
				}
			} else {
				t.mark(x, t.whyOf(x.X))
			}
		}
	case *ssa.Lookup:
		if t.isT(x.X) || t.isT(x.Index) {
			t.mark(x, "lookup involving credential bytes")
		}
	case *ssa.Extract:
		if t.isT(x.Tuple) {
			t.mark(x, t.whyOf(x.Tuple))
		}
		if t.isLenT(x.Tuple) && pointerLike(x.Type()) {
			t.markLen(x)
		}
	case *ssa.TypeAssert:
		if t.isT(x.X) {
			t.mark(x, t.whyOf(x.X))
		}
		if t.isLenT(x.X) {
			t.markLen(x)
		}
	case *ssa.Phi:
		for _, e := range x.Edges {
			if t.isT(e) {
				t.mark(x, t.whyOf(e))
			}
			if t.isLenT(e) {
				t.markLen(x)
			}
		}
	case *ssa.BinOp:
		if t.isT(x.X) || t.isT(x.Y) {
			w := t.whyOf(x.X)
			if !t.isT(x.X) {
				w = t.whyOf(x.Y)
			}
			t.mark(x, w)
		}
		if t.isLenT(x.X) || t.isLenT(x.Y) {
			t.markLen(x) // concatenation
		}
	case *ssa.Range:
		if t.isT(x.X) {
			t.mark(x, t.whyOf(x.X))
		}
	case *ssa.Next:
		if t.isT(x.Iter) {
			t.mark(x, t.whyOf(x.Iter))
		}
	case *ssa.Store:
		if t.isT(x.Val) {
			t.markMem(x.Addr, t.whyOf(x.Val))
			if al, ok := x.Addr.(*ssa.Alloc); ok {
				t.markMem(al, t.whyOf(x.Val))
			}
		}
		if t.isLenT(x.Val) {
			if b := baseObject(x.Addr); b != nil && !t.memLenT[b] {
				t.memLenT[b] = true
				t.changed = true
			}
		}
	case *ssa.MapUpdate:
		if t.isT(x.Value) || t.isT(x.Key) {
			t.mark(x.Map, "map holding credential bytes")
		}
	case *ssa.MakeClosure:
		for i, bnd := range x.Bindings {
			if t.isT(bnd) || t.memT[baseObject(bnd)] {
				if cf, ok := x.Fn.(*ssa.Function); ok && i < len(cf.FreeVars) {
					t.markMem(cf.FreeVars[i], "captured variable holding credential bytes")
					if t.isT(bnd) {
						t.mark(cf.FreeVars[i], t.whyOf(bnd))
					}
				}
			}
		}
	case *ssa.Return:
		// results flow to every call site in scope
		for i, r := range x.Results {
			if !t.isT(r) && !t.isLenT(r) {
				continue
			}
			for caller := range t.scope {
				for _, ci := range t.p.Calls(caller) {
					for _, cal := range ci.Callees {
						if cal != fn {
							continue
						}
						if v, ok := ci.Site.(*ssa.Call); ok {
							var dst ssa.Value
							if len(x.Results) == 1 {
								dst = v
							} else if ex := extractOf(v, i); ex != nil {
								dst = ex
							}
							if dst != nil && t.isT(r) {
								t.mark(dst, t.whyOf(r))
							}
							if dst != nil && t.isLenT(r) {
								t.markLen(dst)
							}
						}
					}
				}
			}
		}
	case *ssa.Call:
		cc := x.Common()
		if bi, ok := cc.Value.(*ssa.Builtin); ok {
			switch bi.Name() {
			case "len", "cap":
				// the length of the credential itself is not content; the length of a value derived from it
				// in a way that does not preserve the length is
				if t.isLenT(cc.Args[0]) {
					t.mark(x, "length of a value whose length depends on the credential's bytes")
				}
			case "copy":
				if t.isT(cc.Args[1]) || t.memT[baseObject(cc.Args[1])] {
					t.markMem(cc.Args[0], "copy of credential bytes")
					t.mark(baseObject(cc.Args[0]), "buffer receiving credential bytes")
				}
				// the count returned is a length
			case "append":
				for _, a := range cc.Args {
					if t.isT(a) {
						t.mark(x, t.whyOf(a))
					}
					if t.isLenT(a) {
						t.markLen(x)
					}
				}
			case "ssa:wrapnilchk":
				if t.isT(cc.Args[0]) {
					t.mark(x, t.whyOf(cc.Args[0]))
				}
			case "min", "max":
				for _, a := range cc.Args {
					if t.isT(a) {
						t.mark(x, t.whyOf(a))
					}
					if t.isLenT(a) {
						t.markLen(x)
					}
				}
			}
			return
		}
		// into callees
		var args []ssa.Value
		if cc.IsInvoke() {
			args = append(args, cc.Value)
		}
		args = append(args, cc.Args...)
		for _, ci := range t.p.Calls(fn) {
			if ci.Site != ssa.CallInstruction(x) {
				continue
			}
			if ci.Fmt != nil {
				return // sinks are reported separately
			}
			for _, cal := range ci.Callees {
				if !t.scope[cal] {
					continue
				}
				for i, a := range args {
					if i < len(cal.Params) && (t.isT(a) || t.memT[baseObject(a)] && pointerLike(a.Type())) {
						if t.tainted[a] {
							t.mark(cal.Params[i], t.whyOf(a))
						} else {
							t.markMem(cal.Params[i], "argument pointing to credential bytes")
						}
					}
					if i < len(cal.Params) && t.isLenT(a) {
						t.markLen(cal.Params[i])
					}
				}
				// a buffer the callee fills with credential bytes is tainted here too
				for i, prm := range cal.Params {
					if i < len(args) && t.memT[prm] && pointerLike(prm.Type()) {
						t.markMem(args[i], "buffer filled with credential bytes by "+qname(cal))
					}
				}
			}
			// external writers (strings.Builder, bytes.Buffer, PutUintN): the destination's memory receives the content
			if sc := cc.StaticCallee(); sc != nil && sc.Blocks == nil {
				if idx, isW := externWritesArg[fullName(sc)]; isW && idx < len(args) {
					for j, a := range args {
						if j != idx && t.isT(a) {
							t.markMem(args[idx], "buffer receiving credential bytes through "+fullName(sc))
						}
					}
				}
			}
			// unknown externals: result carries the taint of its arguments
			if ci.Ext != nil {
				for _, a := range args {
					if t.isT(a) {
						t.mark(x, t.whyOf(a))
						// an external function of the content (TrimSpace, Fields, ToValidUTF8 …): the length of what
						// it returns is a function of the bytes too
						t.markLen(x)
						for _, r := range *x.Referrers() {
							if ex, ok := r.(*ssa.Extract); ok && pointerLike(ex.Type()) {
								t.markLen(ex)
							}
						}
					}
					if t.isLenT(a) {
						t.markLen(x)
					}
				}
			}
		}
	}
}

func checkC18(p *Prog, c *Check) {
	c.Rule("R18.1", "no value carrying credential content (the bytes of the fields behind Connect.Username() / Password(), or a struct copy containing them) reaches a fmt operand, an io.Writer.Write argument or the result of String/Dump; len()/cap() and copy's count carry only the length")
	c.Rule("R18.2", "no branch condition in the diagnostic call trees depends on credential content (no implicit flow); emptiness and length may be tested")
	c.Explanation = "Forward value-flow (taint) analysis over the SSA form of every function reachable from Connect.String, Connect.dump and Dump, context-insensitive across calls, through conversions, slicing, element loads, phis, stores into local memory, copy into buffers, closures and call results. Non-interference follows: with no explicit or implicit flow from the credential bytes to the output, two packets that differ only in the content of equally long credentials produce the same output."
	c.Trusted = []string{"go/types + go/ssa (x/tools v0.29.0) faithful IR", "len, cap and copy's result depend only on lengths", "fmt prints exactly its operands"}
	c.Assumptions = []string{"credentials enter a CONNECT only through the fields behind Username()/Password() (SetUsername/SetPassword/decode)"}
	c.Rule("R18.3", "packets decoded from the wire: the sequential reader's offset is written only by its guarded primitive, which only moves it forward, so every byte of a frame is decoded into at most one field and the bytes of the user name and password cannot also appear in a field that diagnostics print (same lemmas as C04 R4.0)")
	p.Cursor().CheckLemmas(p, c, "R18.3")
	c.Rule("R18.4", "packets decoded from the wire: the CONNECT decoder and everything it reaches touch the frame only through the sequential reader's guarded primitive — the input slice and the reader's data field are otherwise used only to build the reader and in len(): no second, unaccounted read can copy the bytes of the credentials into another field")
	checkFrameOnlyThroughReader(p, c, "Connect", "R18.4")
	fu, ok1 := p.accessorField("Connect", "Username")
	fp, ok2 := p.accessorField("Connect", "Password")
	if !ok1 || !ok2 {
		c.Bad("anchor", "Connect.Username/Password", "-", "cannot identify the fields behind the exported credential accessors")
		return
	}
	c.Rule("R18.5", "packets built through the API: whatever an mq function stores into a credential field is its own argument as given — the parameter, a conversion, a full copy — or a constant, so the stored length and emptiness are those of the value passed and do not depend on its bytes (the wire decoder reaches the fields only through the wire-type interface, whose length is the frame's length prefix)")
	checkCredentialsStoredAsGiven(p, c, "R18.5", "Connect", []int{fu, fp})
	ct := p.Pkg.Scope().Lookup("Connect").Type()
	secret := map[string]bool{fmt.Sprintf("%s.%d", typeStr(ct), fu): true, fmt.Sprintf("%s.%d", typeStr(ct), fp): true}
	var roots []*ssa.Function
	for _, n := range []string{"String", "dump"} {
		if fn := p.Method("Connect", n); fn != nil {
			roots = append(roots, fn)
		} else {
			c.Bad("anchor", "(*Connect)."+n, "-", "diagnostic method not found")
		}
	}
	if d := p.Func("Dump"); d != nil {
		roots = append(roots, d)
	} else {
		c.Bad("anchor", "Dump", "-", "exported function Dump not found")
	}
	scope := p.Reach(roots)
	t := &taint{p: p, scope: scope, secret: secret, tainted: map[ssa.Value]bool{}, memT: map[ssa.Value]bool{}, lenT: map[ssa.Value]bool{}, memLenT: map[ssa.Value]bool{}, why: map[ssa.Value]string{}}
	t.run()
	c.Measured["functions_in_diagnostic_scope"] = len(scope)
	c.Measured["values_carrying_credential_content"] = len(t.tainted)
	nsinks, nconds := 0, 0
	for _, fn := range sortedFuncs(scope) {
		c.Fn(qname(fn))
		fnSinks, fnBad := 0, 0
		for _, b := range fn.Blocks {
			for _, ins := range b.Instrs {
				switch x := ins.(type) {
				case *ssa.Call:
					cc := x.Common()
					if fc := AsFmtCall(x); fc != nil {
						if fc.Args == nil {
							// the operands could not be recovered (a printf-style wrapper passing its own args... on): the
							// operand list itself must not carry credential content
							for i, a := range cc.Args {
								nsinks++
								fnSinks++
								if t.isT(a) {
									fnBad++
									c.Bad("R18.1", fmt.Sprintf("%s#fmt-operand", qname(fn)), posOf(p, ins), fmt.Sprintf("argument %d of %s (an operand list passed on) carries credential content (%s)", i, fc.Name, t.whyOf(a)))
								}
							}
						}
						for i, a := range fc.Args {
							nsinks++
							fnSinks++
							cons := fmt.Sprintf("%s#fmt-operand", qname(fn))
							if t.isT(a) {
								fnBad++
								c.Bad("R18.1", cons, posOf(p, ins), fmt.Sprintf("operand %d of %s carries credential content (%s)", i, fc.Name, t.whyOf(a)))
								continue
							}
							// a struct/pointer whose printing would descend into the fields
							at := a.Type()
							if mi, ok := a.(*ssa.MakeInterface); ok {
								at = mi.X.Type()
							}
							if fc.Verbs[i] != 'T' && fc.Verbs[i] != 'p' && secretType(at, secret, 0) {
								ms := p.Prog.MethodSets.MethodSet(at)
								// fmt renders through String()/Error() only for the verbs %v %s %q %x %X (without '#'); %#v uses
								// GoString() if present; every other verb (%d, %o, %b, %c, %U …) prints the fields
								shielded := ms.Lookup(p.Pkg, "Format") != nil
								switch fc.Verbs[i] {
								case 'v', 's', 'q', 'x', 'X', 0:
									if ms.Lookup(p.Pkg, "String") != nil || ms.Lookup(p.Pkg, "Error") != nil {
										shielded = true
									}
								case 'V':
									if ms.Lookup(p.Pkg, "GoString") != nil {
										shielded = true
									}
								}
								if !shielded {
									fnBad++
									c.Bad("R18.1", cons, posOf(p, ins), fmt.Sprintf("operand %d of %s is a %s, which fmt prints field by field including the credentials", i, fc.Name, typeStr(at)))
								}
							}
						}
						continue
					}
					// other ways of handing text to a writer
					if cc.IsInvoke() && (cc.Method.Name() == "WriteString" || cc.Method.Name() == "WriteByte" || cc.Method.Name() == "WriteRune") && len(cc.Args) == 1 {
						nsinks++
						fnSinks++
						if t.isT(cc.Args[0]) {
							fnBad++
							c.Bad("R18.1", qname(fn)+"#write", posOf(p, ins), "credential content is handed to the writer through "+cc.Method.Name())
						}
					}
					if sc := cc.StaticCallee(); sc != nil && sc.Blocks == nil {
						switch fullName(sc) {
						case "io.WriteString", "(*bufio.Writer).WriteString", "(*bufio.Writer).Write", "(*bufio.Writer).WriteByte", "(*bufio.Writer).WriteRune", "io.Copy", "io.CopyN":
							nsinks++
							fnSinks++
							for _, a := range cc.Args[1:] {
								if t.isT(a) {
									fnBad++
									c.Bad("R18.1", qname(fn)+"#write", posOf(p, ins), "credential content is handed to a writer through "+fullName(sc))
								}
							}
						}
					}
					// a buffer drained into a writer: (*bytes.Buffer).WriteTo(w), (*strings.Reader).WriteTo(w) …
					if sc := cc.StaticCallee(); sc != nil && sc.Blocks == nil && sc.Name() == "WriteTo" && sc.Signature.Recv() != nil && len(cc.Args) == 2 {
						nsinks++
						fnSinks++
						if t.isT(cc.Args[0]) || t.memT[baseObject(cc.Args[0])] {
							fnBad++
							c.Bad("R18.1", qname(fn)+"#write", posOf(p, ins), "a buffer holding credential bytes is drained into the writer through "+fullName(sc))
						}
					}
					if cc.IsInvoke() && cc.Method.Name() == "Write" && len(cc.Args) == 1 {
						nsinks++
						fnSinks++
						if t.isT(cc.Args[0]) || t.memT[baseObject(cc.Args[0])] {
							fnBad++
							c.Bad("R18.1", qname(fn)+"#write", posOf(p, ins), "credential bytes are handed to the writer")
						}
					}
					if sc := cc.StaticCallee(); sc != nil && sc.Blocks == nil {
						if _, isW := externWritesArg[fullName(sc)]; isW {
							for _, a := range cc.Args[1:] {
								if t.isT(a) {
									// e.g. strings.Builder.WriteString(secret): the builder's content is tainted
									t.markMem(cc.Args[0], "builder receiving credential bytes")
								}
							}
						}
					}
				case *ssa.Defer, *ssa.Go:
					// a deferred (or spawned) call is not followed operand by operand: none of its arguments may carry
					// credential content (`defer fmt.Fprintf(w, "%s", p.password)`)
					cc := x.(ssa.CallInstruction).Common()
					nsinks++
					fnSinks++
					for i, a := range cc.Args {
						if t.isT(a) || t.memT[baseObject(a)] {
							fnBad++
							c.Bad("R18.1", qname(fn)+"#deferred-call", posOf(p, ins), fmt.Sprintf("argument %d of a deferred or spawned call carries credential content (%s)", i, t.whyOf(a)))
						}
					}
				case *ssa.If:
					nconds++
					if t.isT(x.Cond) {
						fnBad++
						c.Bad("R18.2", qname(fn)+"#branch", posOf(p, ins), "a branch in the diagnostic path depends on credential content ("+t.whyOf(x.Cond)+"): the output can reveal it")
					}
				case *ssa.Return:
					isRoot := false
					for _, r := range roots {
						if r == fn {
							isRoot = true
						}
					}
					for _, r := range x.Results {
						if isRoot && t.isT(r) {
							fnBad++
							c.Bad("R18.1", qname(fn)+"#result", posOf(p, ins), "the rendered text carries credential content ("+t.whyOf(r)+")")
						}
					}
				}
			}
		}
		if fnBad == 0 {
			c.OK("R18.1", qname(fn), p.Pos(fn.Pos()), fmt.Sprintf("%d sink(s), none reached by credential content; no branch on it", fnSinks))
		}
	}
	c.Measured["sinks_checked"] = nsinks
	c.Measured["branch_conditions_checked"] = nconds
	c.Floor("sinks on the CONNECT diagnostic paths", nsinks, 10, "String and dump print more than ten operands")
	var keys []string
	for k := range secret {
		keys = append(keys, k)
	}
	sort.Strings(keys)
	c.Notes = append(c.Notes, "credential fields: "+fmt.Sprint(keys))
}

// checkFrameOnlyThroughReader: in tn's UnmarshalBinary and the mq functions it reaches (wire decoders aside,
// which work on the slice the guarded primitive hands them), every use of the input slice and of the
// sequential reader's data field is the construction of the reader, a len(), or lies inside the guarded primitive.
func checkFrameOnlyThroughReader(p *Prog, c *Check, tn, rule string) {
	cur := p.Cursor()
	dec := p.Method(tn, "UnmarshalBinary")
	cons := "(*" + tn + ").UnmarshalBinary#frame-access"
	if cur.G == nil || dec == nil {
		c.Unk(rule, cons, "-", "decoder or sequential reader not found")
		return
	}
	wire := map[*ssa.Function]bool{}
	for _, d := range p.cachedWireDecoders() {
		wire[d] = true
	}
	bad := ""
	nuses := 0
	for _, fn := range sortedFuncs(p.Reach([]*ssa.Function{dec})) {
		if fn == cur.G || wire[fn] || fn.Pkg == nil || fn.Pkg.Pkg != p.Pkg || cur.Rest != nil && fn == cur.Rest.Call.StaticCallee() {
			continue
		}
		// values that are the frame: the data parameter of the packet decoder, loads of the reader's data field
		var frame []ssa.Value
		if fn == dec && len(fn.Params) > 1 {
			frame = append(frame, fn.Params[1])
		}
		for _, b := range fn.Blocks {
			for _, ins := range b.Instrs {
				if ld, ok := ins.(*ssa.UnOp); ok && ld.Op == token.MUL {
					if _, isD := cur.isField(ld.X, cur.D); isD {
						frame = append(frame, ld)
					}
				}
			}
		}
		for _, v := range frame {
			for _, r := range *v.Referrers() {
				nuses++
				switch x := r.(type) {
				case *ssa.DebugRef:
					continue
				case *ssa.Store:
					if _, isD := cur.isField(x.Addr, cur.D); isD && x.Val == v {
						continue // building the reader
					}
				case *ssa.Call:
					if bi, ok := x.Call.Value.(*ssa.Builtin); ok && bi.Name() == "len" {
						continue
					}
					if d, isNew := cur.newReader(x); isNew && d == v {
						continue // building the reader through its constructor
					}
				}
				if bad == "" {
					bad = fmt.Sprintf("%s uses the frame outside the sequential reader at %s (%s): bytes can be decoded into a field without being accounted for", qname(fn), posOf(p, r), describeInstr(r))
				}
			}
		}
	}
	if bad != "" {
		c.Bad(rule, cons, p.Pos(dec.Pos()), bad)
	} else {
		c.OK(rule, cons, p.Pos(dec.Pos()), fmt.Sprintf("%d uses of the frame outside the guarded primitive: reader construction and len() only", nuses))
	}
}

func describeInstr(i ssa.Instruction) string {
	s := i.String()
	if len(s) > 80 {
		s = s[:80] + "…"
	}
	return strings.ReplaceAll(s, "\n", " ")
}

// checkCredentialsStoredAsGiven (R18.5): whatever an mq function stores into a credential field is the function's
// own argument as it is — the parameter, a conversion of it, a full copy — or a constant; the wire decoder reaches
// the field only through the wire-type interface.  The stored length and emptiness are then those of the value
// the caller passed, and nothing between the API and the field makes them depend on the bytes.
func checkCredentialsStoredAsGiven(p *Prog, c *Check, rule string, tn string, fields []int) {
	obj := p.Pkg.Scope().Lookup(tn)
	if obj == nil {
		c.Unk(rule, tn, "-", "type not found")
		return
	}
	T := obj.Type()
	isCred := func(fa *ssa.FieldAddr) bool {
		pt, ok := fa.X.Type().Underlying().(*types.Pointer)
		if !ok || !types.Identical(pt.Elem(), T) {
			return false
		}
		for _, f := range fields {
			if fa.Field == f {
				return true
			}
		}
		return false
	}
	var carrier func(fn *ssa.Function, v ssa.Value, depth int) (bool, string)
	carrier = func(fn *ssa.Function, v ssa.Value, depth int) (bool, string) {
		if depth > 8 {
			return false, "value chain too deep"
		}
		switch x := v.(type) {
		case *ssa.Parameter:
			return true, ""
		case *ssa.Const:
			return true, ""
		case *ssa.ChangeType:
			return carrier(fn, x.X, depth+1)
		case *ssa.Convert:
			if !lengthPreserving(x.X.Type(), x.Type()) {
				return false, "the argument passes through a conversion that does not keep its length (" + typeStr(x.X.Type()) + " → " + typeStr(x.Type()) + "): invalid bytes become three-byte replacement characters"
			}
			return carrier(fn, x.X, depth+1)
		case *ssa.Slice:
			if x.Low == nil && x.High == nil && x.Max == nil {
				return carrier(fn, x.X, depth+1)
			}
			return false, "a part of the argument (" + describeVal(v) + ") is stored: which part may depend on its bytes"
		case *ssa.Phi:
			for _, e := range x.Edges {
				if ok, why := carrier(fn, e, depth+1); !ok {
					return false, why
				}
			}
			return true, ""
		case *ssa.MakeSlice:
			// make(T, len(arg)) — filled by copy
			if cl, ok := x.Len.(*ssa.Call); ok {
				if bi, ok := cl.Call.Value.(*ssa.Builtin); ok && bi.Name() == "len" {
					return carrier(fn, cl.Call.Args[0], depth+1)
				}
			}
			return false, "a buffer whose length is not len(argument) is stored"
		case *ssa.UnOp:
			// a load of a cell that was just stored a carrier (spilled parameter)
			if x.Op.String() == "*" {
				if al, ok := x.X.(*ssa.Alloc); ok {
					okAll, n := true, 0
					why := ""
					for _, r := range *al.Referrers() {
						if st, ok := r.(*ssa.Store); ok && st.Addr == ssa.Value(al) {
							n++
							if ok2, w := carrier(fn, st.Val, depth+1); !ok2 {
								okAll, why = false, w
							}
						}
					}
					if n > 0 && okAll {
						return true, ""
					}
					if why != "" {
						return false, why
					}
				}
			}
		case *ssa.Call:
			if bi, ok := x.Call.Value.(*ssa.Builtin); ok && bi.Name() == "append" && len(x.Call.Args) == 2 {
				base := x.Call.Args[0]
				emptyBase := false
				switch b := base.(type) {
				case *ssa.Const:
					emptyBase = b.Value == nil
				case *ssa.Slice:
					if h, ok := b.High.(*ssa.Const); ok && b.Low == nil {
						if k, isC := constInt(h); isC && k == 0 {
							emptyBase = true
						}
					}
				case *ssa.ChangeType:
					if cst, ok := b.X.(*ssa.Const); ok && cst.Value == nil {
						emptyBase = true
					}
				case *ssa.Convert:
					if cst, ok := b.X.(*ssa.Const); ok && cst.Value == nil {
						emptyBase = true
					}
				}
				if emptyBase {
					return carrier(fn, x.Call.Args[1], depth+1)
				}
				return false, "the argument is appended to existing content"
			}
			name := "a call"
			if sc := x.Call.StaticCallee(); sc != nil {
				name = fullName(sc)
			}
			return false, "the result of " + name + " is stored, not the argument itself: its length may depend on the argument's bytes"
		}
		return false, "the stored value (" + describeVal(v) + ") is not the function's argument, a conversion or a full copy of it"
	}
	n := 0
	var checkStoresThrough func(fn *ssa.Function, addr ssa.Value, depth int, via string)
	checkStoresThrough = func(fn *ssa.Function, addr ssa.Value, depth int, via string) {
		refs := addr.Referrers()
		if refs == nil {
			return
		}
		for _, r := range *refs {
			switch x := r.(type) {
			case *ssa.Store:
				if x.Addr != addr {
					continue
				}
				n++
				cons := fmt.Sprintf("%s#credential-store%s", qname(fn), via)
				if ok, why := carrier(fn, x.Val, 0); ok {
					c.OK(rule, cons, posOf(p, x), "stores its argument as given (parameter, conversion or full copy) or a constant")
				} else {
					c.Bad(rule, cons, posOf(p, x), why+": two equally long credentials can end up with different stored lengths, which String and Dump print")
				}
			case *ssa.Call:
				cc := x.Common()
				sc := cc.StaticCallee()
				if sc == nil || sc.Blocks == nil || depth > 2 {
					if sc != nil && sc.Blocks == nil {
						c.Unk(rule, fmt.Sprintf("%s#credential-address-escapes", qname(fn)), posOf(p, x), "the address of a credential field is handed to "+fullName(sc))
					}
					continue
				}
				for i, a := range cc.Args {
					if a == addr && i < len(sc.Params) {
						// the other arguments at this site must be carriers for the callee's parameters to count as such
						for j, b := range cc.Args {
							if j == i {
								continue
							}
							if _, isSliceOrString := b.Type().Underlying().(*types.Slice); !isSliceOrString {
								if bt, ok := b.Type().Underlying().(*types.Basic); !ok || bt.Info()&types.IsString == 0 {
									continue
								}
							}
							if ok, why := carrier(fn, b, 0); !ok {
								n++
								c.Bad(rule, fmt.Sprintf("%s#credential-store-arg", qname(fn)), posOf(p, x), why+": two equally long credentials can end up with different stored lengths, which String and Dump print")
							}
						}
						checkStoresThrough(sc, sc.Params[i], depth+1, " (for "+qname(fn)+")")
					}
				}
			}
		}
	}
	for _, fn := range p.AllFuncs() {
		for _, b := range fn.Blocks {
			for _, ins := range b.Instrs {
				if fa, ok := ins.(*ssa.FieldAddr); ok && isCred(fa) {
					checkStoresThrough(fn, fa, 0, "")
				}
			}
		}
	}
	// no branch in the storing functions (and what they call) may depend on the bytes of the argument: a value
	// chosen between "the argument" and "nothing" by looking at its content (blank → no password) makes the stored
	// length depend on the content although each alternative is a carrier
	var setters []*ssa.Function
	for _, fn := range p.AllFuncs() {
		has := false
		for _, b := range fn.Blocks {
			for _, ins := range b.Instrs {
				if fa, ok := ins.(*ssa.FieldAddr); ok && isCred(fa) {
					for _, r := range *fa.Referrers() {
						if st, ok := r.(*ssa.Store); ok && st.Addr == ssa.Value(fa) {
							has = true
						}
						if cl, ok := r.(*ssa.Call); ok && cl.Call.StaticCallee() != nil {
							has = true
						}
					}
				}
			}
		}
		if has && fn.Signature.Recv() != nil && len(fn.Params) > 1 {
			setters = append(setters, fn)
		}
	}
	if len(setters) > 0 {
		scope := p.Reach(setters)
		t := &taint{p: p, scope: scope, secret: map[string]bool{}, tainted: map[ssa.Value]bool{}, memT: map[ssa.Value]bool{}, lenT: map[ssa.Value]bool{}, memLenT: map[ssa.Value]bool{}, why: map[ssa.Value]string{}}
		for _, fn := range setters {
			for _, prm := range fn.Params[1:] {
				switch u := prm.Type().Underlying().(type) {
				case *types.Slice:
					t.mark(prm, "the credential passed to "+qname(fn))
				case *types.Basic:
					if u.Info()&types.IsString != 0 {
						t.mark(prm, "the credential passed to "+qname(fn))
					}
				}
			}
		}
		t.run()
		nb := 0
		for _, fn := range sortedFuncs(scope) {
			for _, b := range fn.Blocks {
				for _, ins := range b.Instrs {
					if iff, ok := ins.(*ssa.If); ok {
						nb++
						if t.isT(iff.Cond) {
							c.Bad(rule, qname(fn)+"#branch-on-credential", posOf(p, iff), "a branch on the way to the credential field depends on the bytes of the argument ("+t.whyOf(iff.Cond)+"): what is stored, and so the length and flag the diagnostics print, is chosen by looking at the content")
						}
					}
				}
			}
		}
		c.OK(rule, "branches in the credential setters", "-", fmt.Sprintf("%d setter(s), %d function(s) reachable, %d branch(es): emptiness and length may be tested, content is not", len(setters), len(scope), nb))
	}
	c.Measured["credential_stores"] = n
	c.Floor("stores into the credential fields", n, 2, "SetUsername and SetPassword")
}
