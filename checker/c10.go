package main

// C10 — WriteTo emits one complete frame and reports its size truthfully.

import (
	"fmt"
	"go/constant"
	"go/token"
	"go/types"
	"os"
	"sort"
	"strings"

	"golang.org/x/tools/go/ssa"
)

func init() {
	register(&PropertyCheck{ID: "C10", Level: "other", Run: checkC10, Canaries: []Canary{
		{Name: "adv6-A2-write-retried-after-a-failure", Rule: "R10.1", Where: "(*Connect).WriteTo", Edits: []Edit{{"connect.go", "\tn, err := w.Write(b)", "\tn, err := w.Write(b)\n\tif err != nil && n == 0 {\n\t\t// nothing has reached the peer, typically a deadline that\n\t\t// expired on a connection that was just opened; the frame is\n\t\t// intact so it is offered once more\n\t\tn, err = w.Write(b)\n\t}"}}},
		{Name: "adv6-A1-frame-written-in-pieces", Rule: "R10.1", Where: "(*Publish).WriteTo", Edits: []Edit{{"publish.go", "\tn, err := w.Write(b)\n\treturn int64(n), err\n}", "\n\t// a very large frame is handed over in pieces, writers such as\n\t// tls.Conn or a websocket adapter split or reject huge slices\n\tpieces := (len(b) + maxWrite - 1) / maxWrite\n\tfor i := 0; i < pieces; i++ {\n\t\tend := (i + 1) * maxWrite\n\t\tif end > len(b) {\n\t\t\tend = len(b)\n\t\t}\n\t\tn, err := w.Write(b[i*maxWrite : end])\n\t\tif err != nil {\n\t\t\treturn int64(n), err\n\t\t}\n\t}\n\treturn int64(len(b)), nil\n}\n\n// maxWrite is the largest slice handed to a writer in one call\nconst maxWrite = 4 << 20"}}},
		{Name: "rf8-shared-writer-patches-the-buffer-after-the-encoder", Rule: "R10.5", Where: "(*PingReq).WriteTo", Edits: []Edit{{"packet.go", "\treturn p, nil\n}\n", "\treturn p, nil\n}\n\n// headerString returns the short readable form shared by packets\n// without variable header, e.g. PINGREQ ---- 2 bytes\nfunc headerString(fixed bits, size int) string {\n\treturn fmt.Sprintf(\"%s %v bytes\", firstByte(fixed).String(), size)\n}\n\n// fillHeaderOnly fills b from position i with a fixed header\n// announcing no remaining data. Returns the position after the\n// header.\nfunc fillHeaderOnly(b []byte, i int, fixed bits) int {\n\ti += fixed.fill(b, i)    // firstByte header\n\ti += vbint(0).fill(b, i) // remaining length none\n\treturn i\n}\n\n// writeHeaderOnly writes a packet consisting of the fixed header only\n// in one write.\nfunc writeHeaderOnly(w io.Writer, fixed bits) (int64, error) {\n\tb := make([]byte, fillHeaderOnly(_LEN, 0, fixed))\n\tfillHeaderOnly(b, 0, fixed)\n\tb[0] |= 1\n\tn, err := w.Write(b)\n\treturn int64(n), err\n}\n"}, {"pingreq.go", "\t\"fmt\"\n\t\"io\"\n)\n\nfunc NewPingReq() *PingReq {\n\treturn &PingReq{fixed: bits(PINGREQ)}\n}\n\ntype PingReq struct {\n\tfixed bits\n}\n\nfunc (p *PingReq) String() string {\n\treturn fmt.Sprintf(\"%s %v bytes\",\n\t\tfirstByte(p.fixed).String(),\n\t\tp.width(),\n\t)\n}\n\nfunc (p *PingReq) WriteTo(w io.Writer) (int64, error) {\n\tb := make([]byte, p.width())\n\tp.fill(b, 0)\n\tn, err := w.Write(b)\n\treturn int64(n), err\n}\n\nfunc (p *PingReq) width() int {\n\treturn p.fill(_LEN, 0)\n}\n\nfunc (p *PingReq) fill(b []byte, i int) int {\n\ti += p.fixed.fill(b, i)  // firstByte header\n\ti += vbint(0).fill(b, i) // remaining length none\n\treturn i", "\t\"io\"\n)\n\nfunc NewPingReq() *PingReq {\n\treturn &PingReq{fixed: bits(PINGREQ)}\n}\n\ntype PingReq struct {\n\tfixed bits\n}\n\nfunc (p *PingReq) String() string {\n\treturn headerString(p.fixed, p.width())\n}\n\nfunc (p *PingReq) WriteTo(w io.Writer) (int64, error) {\n\treturn writeHeaderOnly(w, p.fixed)\n}\n\nfunc (p *PingReq) width() int {\n\treturn p.fill(_LEN, 0)\n}\n\nfunc (p *PingReq) fill(b []byte, i int) int {\n\treturn fillHeaderOnly(b, i, p.fixed)"}, {"pingresp.go", "\t\"fmt\"\n\t\"io\"\n)\n\nfunc NewPingResp() *PingResp {\n\treturn &PingResp{fixed: bits(PINGRESP)}\n}\n\ntype PingResp struct {\n\tfixed bits\n}\n\nfunc (p *PingResp) String() string {\n\treturn fmt.Sprintf(\"%s %v bytes\",\n\t\tfirstByte(p.fixed).String(),\n\t\tp.width(),\n\t)\n}\n\nfunc (p *PingResp) WriteTo(w io.Writer) (int64, error) {\n\tb := make([]byte, p.width())\n\tp.fill(b, 0)\n\tn, err := w.Write(b)\n\treturn int64(n), err\n}\n\nfunc (p *PingResp) width() int {\n\treturn p.fill(_LEN, 0)\n}\n\nfunc (p *PingResp) fill(b []byte, i int) int {\n\ti += p.fixed.fill(b, i)  // firstByte header\n\ti += vbint(0).fill(b, i) // remaining length none\n\treturn i", "\t\"io\"\n)\n\nfunc NewPingResp() *PingResp {\n\treturn &PingResp{fixed: bits(PINGRESP)}\n}\n\ntype PingResp struct {\n\tfixed bits\n}\n\nfunc (p *PingResp) String() string {\n\treturn headerString(p.fixed, p.width())\n}\n\nfunc (p *PingResp) WriteTo(w io.Writer) (int64, error) {\n\treturn writeHeaderOnly(w, p.fixed)\n}\n\nfunc (p *PingResp) width() int {\n\treturn p.fill(_LEN, 0)\n}\n\nfunc (p *PingResp) fill(b []byte, i int) int {\n\treturn fillHeaderOnly(b, i, p.fixed)"}, {"undefined.go", "\treturn fmt.Sprintf(\"%s %v bytes\",\n\t\tfirstByte(p.fixed).String(), 0,\n\t)", "\treturn headerString(p.fixed, 0)"}}},
		{Name: "rf8-shared-writer-sets-a-flag-bit", Rule: "R10.5", Where: "(*PingReq).WriteTo", Edits: []Edit{{"packet.go", "\treturn p, nil\n}\n", "\treturn p, nil\n}\n\n// headerString returns the short readable form shared by packets\n// without variable header, e.g. PINGREQ ---- 2 bytes\nfunc headerString(fixed bits, size int) string {\n\treturn fmt.Sprintf(\"%s %v bytes\", firstByte(fixed).String(), size)\n}\n\n// fillHeaderOnly fills b from position i with a fixed header\n// announcing no remaining data. Returns the position after the\n// header.\nfunc fillHeaderOnly(b []byte, i int, fixed bits) int {\n\ti += fixed.fill(b, i)    // firstByte header\n\ti += vbint(0).fill(b, i) // remaining length none\n\treturn i\n}\n\n// writeHeaderOnly writes a packet consisting of the fixed header only\n// in one write.\nfunc writeHeaderOnly(w io.Writer, fixed bits) (int64, error) {\n\tb := make([]byte, fillHeaderOnly(_LEN, 0, fixed))\n\tfillHeaderOnly(b, 0, fixed|1)\n\tn, err := w.Write(b)\n\treturn int64(n), err\n}\n"}, {"pingreq.go", "\t\"fmt\"\n\t\"io\"\n)\n\nfunc NewPingReq() *PingReq {\n\treturn &PingReq{fixed: bits(PINGREQ)}\n}\n\ntype PingReq struct {\n\tfixed bits\n}\n\nfunc (p *PingReq) String() string {\n\treturn fmt.Sprintf(\"%s %v bytes\",\n\t\tfirstByte(p.fixed).String(),\n\t\tp.width(),\n\t)\n}\n\nfunc (p *PingReq) WriteTo(w io.Writer) (int64, error) {\n\tb := make([]byte, p.width())\n\tp.fill(b, 0)\n\tn, err := w.Write(b)\n\treturn int64(n), err\n}\n\nfunc (p *PingReq) width() int {\n\treturn p.fill(_LEN, 0)\n}\n\nfunc (p *PingReq) fill(b []byte, i int) int {\n\ti += p.fixed.fill(b, i)  // firstByte header\n\ti += vbint(0).fill(b, i) // remaining length none\n\treturn i", "\t\"io\"\n)\n\nfunc NewPingReq() *PingReq {\n\treturn &PingReq{fixed: bits(PINGREQ)}\n}\n\ntype PingReq struct {\n\tfixed bits\n}\n\nfunc (p *PingReq) String() string {\n\treturn headerString(p.fixed, p.width())\n}\n\nfunc (p *PingReq) WriteTo(w io.Writer) (int64, error) {\n\treturn writeHeaderOnly(w, p.fixed)\n}\n\nfunc (p *PingReq) width() int {\n\treturn p.fill(_LEN, 0)\n}\n\nfunc (p *PingReq) fill(b []byte, i int) int {\n\treturn fillHeaderOnly(b, i, p.fixed)"}, {"pingresp.go", "\t\"fmt\"\n\t\"io\"\n)\n\nfunc NewPingResp() *PingResp {\n\treturn &PingResp{fixed: bits(PINGRESP)}\n}\n\ntype PingResp struct {\n\tfixed bits\n}\n\nfunc (p *PingResp) String() string {\n\treturn fmt.Sprintf(\"%s %v bytes\",\n\t\tfirstByte(p.fixed).String(),\n\t\tp.width(),\n\t)\n}\n\nfunc (p *PingResp) WriteTo(w io.Writer) (int64, error) {\n\tb := make([]byte, p.width())\n\tp.fill(b, 0)\n\tn, err := w.Write(b)\n\treturn int64(n), err\n}\n\nfunc (p *PingResp) width() int {\n\treturn p.fill(_LEN, 0)\n}\n\nfunc (p *PingResp) fill(b []byte, i int) int {\n\ti += p.fixed.fill(b, i)  // firstByte header\n\ti += vbint(0).fill(b, i) // remaining length none\n\treturn i", "\t\"io\"\n)\n\nfunc NewPingResp() *PingResp {\n\treturn &PingResp{fixed: bits(PINGRESP)}\n}\n\ntype PingResp struct {\n\tfixed bits\n}\n\nfunc (p *PingResp) String() string {\n\treturn headerString(p.fixed, p.width())\n}\n\nfunc (p *PingResp) WriteTo(w io.Writer) (int64, error) {\n\treturn writeHeaderOnly(w, p.fixed)\n}\n\nfunc (p *PingResp) width() int {\n\treturn p.fill(_LEN, 0)\n}\n\nfunc (p *PingResp) fill(b []byte, i int) int {\n\treturn fillHeaderOnly(b, i, p.fixed)"}, {"undefined.go", "\treturn fmt.Sprintf(\"%s %v bytes\",\n\t\tfirstByte(p.fixed).String(), 0,\n\t)", "\treturn headerString(p.fixed, 0)"}}},
		{Name: "rf8-shared-writer-drops-the-write-error", Rule: "R10.5", Where: "(*PingReq).WriteTo", Edits: []Edit{{"packet.go", "\treturn p, nil\n}\n", "\treturn p, nil\n}\n\n// headerString returns the short readable form shared by packets\n// without variable header, e.g. PINGREQ ---- 2 bytes\nfunc headerString(fixed bits, size int) string {\n\treturn fmt.Sprintf(\"%s %v bytes\", firstByte(fixed).String(), size)\n}\n\n// fillHeaderOnly fills b from position i with a fixed header\n// announcing no remaining data. Returns the position after the\n// header.\nfunc fillHeaderOnly(b []byte, i int, fixed bits) int {\n\ti += fixed.fill(b, i)    // firstByte header\n\ti += vbint(0).fill(b, i) // remaining length none\n\treturn i\n}\n\n// writeHeaderOnly writes a packet consisting of the fixed header only\n// in one write.\nfunc writeHeaderOnly(w io.Writer, fixed bits) (int64, error) {\n\tb := make([]byte, fillHeaderOnly(_LEN, 0, fixed))\n\tfillHeaderOnly(b, 0, fixed)\n\tn, _ := w.Write(b)\n\treturn int64(n), nil\n}\n"}, {"pingreq.go", "\t\"fmt\"\n\t\"io\"\n)\n\nfunc NewPingReq() *PingReq {\n\treturn &PingReq{fixed: bits(PINGREQ)}\n}\n\ntype PingReq struct {\n\tfixed bits\n}\n\nfunc (p *PingReq) String() string {\n\treturn fmt.Sprintf(\"%s %v bytes\",\n\t\tfirstByte(p.fixed).String(),\n\t\tp.width(),\n\t)\n}\n\nfunc (p *PingReq) WriteTo(w io.Writer) (int64, error) {\n\tb := make([]byte, p.width())\n\tp.fill(b, 0)\n\tn, err := w.Write(b)\n\treturn int64(n), err\n}\n\nfunc (p *PingReq) width() int {\n\treturn p.fill(_LEN, 0)\n}\n\nfunc (p *PingReq) fill(b []byte, i int) int {\n\ti += p.fixed.fill(b, i)  // firstByte header\n\ti += vbint(0).fill(b, i) // remaining length none\n\treturn i", "\t\"io\"\n)\n\nfunc NewPingReq() *PingReq {\n\treturn &PingReq{fixed: bits(PINGREQ)}\n}\n\ntype PingReq struct {\n\tfixed bits\n}\n\nfunc (p *PingReq) String() string {\n\treturn headerString(p.fixed, p.width())\n}\n\nfunc (p *PingReq) WriteTo(w io.Writer) (int64, error) {\n\treturn writeHeaderOnly(w, p.fixed)\n}\n\nfunc (p *PingReq) width() int {\n\treturn p.fill(_LEN, 0)\n}\n\nfunc (p *PingReq) fill(b []byte, i int) int {\n\treturn fillHeaderOnly(b, i, p.fixed)"}, {"pingresp.go", "\t\"fmt\"\n\t\"io\"\n)\n\nfunc NewPingResp() *PingResp {\n\treturn &PingResp{fixed: bits(PINGRESP)}\n}\n\ntype PingResp struct {\n\tfixed bits\n}\n\nfunc (p *PingResp) String() string {\n\treturn fmt.Sprintf(\"%s %v bytes\",\n\t\tfirstByte(p.fixed).String(),\n\t\tp.width(),\n\t)\n}\n\nfunc (p *PingResp) WriteTo(w io.Writer) (int64, error) {\n\tb := make([]byte, p.width())\n\tp.fill(b, 0)\n\tn, err := w.Write(b)\n\treturn int64(n), err\n}\n\nfunc (p *PingResp) width() int {\n\treturn p.fill(_LEN, 0)\n}\n\nfunc (p *PingResp) fill(b []byte, i int) int {\n\ti += p.fixed.fill(b, i)  // firstByte header\n\ti += vbint(0).fill(b, i) // remaining length none\n\treturn i", "\t\"io\"\n)\n\nfunc NewPingResp() *PingResp {\n\treturn &PingResp{fixed: bits(PINGRESP)}\n}\n\ntype PingResp struct {\n\tfixed bits\n}\n\nfunc (p *PingResp) String() string {\n\treturn headerString(p.fixed, p.width())\n}\n\nfunc (p *PingResp) WriteTo(w io.Writer) (int64, error) {\n\treturn writeHeaderOnly(w, p.fixed)\n}\n\nfunc (p *PingResp) width() int {\n\treturn p.fill(_LEN, 0)\n}\n\nfunc (p *PingResp) fill(b []byte, i int) int {\n\treturn fillHeaderOnly(b, i, p.fixed)"}, {"undefined.go", "\treturn fmt.Sprintf(\"%s %v bytes\",\n\t\tfirstByte(p.fixed).String(), 0,\n\t)", "\treturn headerString(p.fixed, 0)"}}},
		{Name: "rf8-header-only-packets-share-a-writer", Silent: true, Edits: []Edit{{"packet.go", "\treturn p, nil\n}\n", "\treturn p, nil\n}\n\n// headerString returns the short readable form shared by packets\n// without variable header, e.g. PINGREQ ---- 2 bytes\nfunc headerString(fixed bits, size int) string {\n\treturn fmt.Sprintf(\"%s %v bytes\", firstByte(fixed).String(), size)\n}\n\n// fillHeaderOnly fills b from position i with a fixed header\n// announcing no remaining data. Returns the position after the\n// header.\nfunc fillHeaderOnly(b []byte, i int, fixed bits) int {\n\ti += fixed.fill(b, i)    // firstByte header\n\ti += vbint(0).fill(b, i) // remaining length none\n\treturn i\n}\n\n// writeHeaderOnly writes a packet consisting of the fixed header only\n// in one write.\nfunc writeHeaderOnly(w io.Writer, fixed bits) (int64, error) {\n\tb := make([]byte, fillHeaderOnly(_LEN, 0, fixed))\n\tfillHeaderOnly(b, 0, fixed)\n\tn, err := w.Write(b)\n\treturn int64(n), err\n}\n"}, {"pingreq.go", "\t\"fmt\"\n\t\"io\"\n)\n\nfunc NewPingReq() *PingReq {\n\treturn &PingReq{fixed: bits(PINGREQ)}\n}\n\ntype PingReq struct {\n\tfixed bits\n}\n\nfunc (p *PingReq) String() string {\n\treturn fmt.Sprintf(\"%s %v bytes\",\n\t\tfirstByte(p.fixed).String(),\n\t\tp.width(),\n\t)\n}\n\nfunc (p *PingReq) WriteTo(w io.Writer) (int64, error) {\n\tb := make([]byte, p.width())\n\tp.fill(b, 0)\n\tn, err := w.Write(b)\n\treturn int64(n), err\n}\n\nfunc (p *PingReq) width() int {\n\treturn p.fill(_LEN, 0)\n}\n\nfunc (p *PingReq) fill(b []byte, i int) int {\n\ti += p.fixed.fill(b, i)  // firstByte header\n\ti += vbint(0).fill(b, i) // remaining length none\n\treturn i", "\t\"io\"\n)\n\nfunc NewPingReq() *PingReq {\n\treturn &PingReq{fixed: bits(PINGREQ)}\n}\n\ntype PingReq struct {\n\tfixed bits\n}\n\nfunc (p *PingReq) String() string {\n\treturn headerString(p.fixed, p.width())\n}\n\nfunc (p *PingReq) WriteTo(w io.Writer) (int64, error) {\n\treturn writeHeaderOnly(w, p.fixed)\n}\n\nfunc (p *PingReq) width() int {\n\treturn p.fill(_LEN, 0)\n}\n\nfunc (p *PingReq) fill(b []byte, i int) int {\n\treturn fillHeaderOnly(b, i, p.fixed)"}, {"pingresp.go", "\t\"fmt\"\n\t\"io\"\n)\n\nfunc NewPingResp() *PingResp {\n\treturn &PingResp{fixed: bits(PINGRESP)}\n}\n\ntype PingResp struct {\n\tfixed bits\n}\n\nfunc (p *PingResp) String() string {\n\treturn fmt.Sprintf(\"%s %v bytes\",\n\t\tfirstByte(p.fixed).String(),\n\t\tp.width(),\n\t)\n}\n\nfunc (p *PingResp) WriteTo(w io.Writer) (int64, error) {\n\tb := make([]byte, p.width())\n\tp.fill(b, 0)\n\tn, err := w.Write(b)\n\treturn int64(n), err\n}\n\nfunc (p *PingResp) width() int {\n\treturn p.fill(_LEN, 0)\n}\n\nfunc (p *PingResp) fill(b []byte, i int) int {\n\ti += p.fixed.fill(b, i)  // firstByte header\n\ti += vbint(0).fill(b, i) // remaining length none\n\treturn i", "\t\"io\"\n)\n\nfunc NewPingResp() *PingResp {\n\treturn &PingResp{fixed: bits(PINGRESP)}\n}\n\ntype PingResp struct {\n\tfixed bits\n}\n\nfunc (p *PingResp) String() string {\n\treturn headerString(p.fixed, p.width())\n}\n\nfunc (p *PingResp) WriteTo(w io.Writer) (int64, error) {\n\treturn writeHeaderOnly(w, p.fixed)\n}\n\nfunc (p *PingResp) width() int {\n\treturn p.fill(_LEN, 0)\n}\n\nfunc (p *PingResp) fill(b []byte, i int) int {\n\treturn fillHeaderOnly(b, i, p.fixed)"}, {"undefined.go", "\treturn fmt.Sprintf(\"%s %v bytes\",\n\t\tfirstByte(p.fixed).String(), 0,\n\t)", "\treturn headerString(p.fixed, 0)"}}},
		{Name: "rf8-frame-struct-passed-by-value", Silent: true, Edits: []Edit{{"suback.go", "\tremainingLen := vbint(\n\t\tp.variableHeader(_LEN, 0) + p.payload(_LEN, 0),\n\t)\n\ti += p.fixed.fill(b, i)      // firstByte header\n\ti += remainingLen.fill(b, i) // remaining length\n\ti += p.variableHeader(b, i)\n\ti += p.payload(b, i)\n\n\treturn i\n}\n\nfunc (p *SubAck) variableHeader(b []byte, i int) int {\n\tn := i\n\ti += p.packetID.fill(b, i)\n\ti += vbint(p.properties(_LEN, 0)).fill(b, i)\n\ti += p.properties(b, i)\n\treturn i - n\n}\n\nfunc (p *SubAck) properties(b []byte, i int) int {\n\tn := i\n\tfor id, v := range p.propertyMap() {\n\t\ti += v().fillProp(b, i, id)\n\t}\n\ti += p.UserProperties.properties(b, i)\n\treturn i - n\n}\n\nfunc (p *SubAck) payload(b []byte, i int) int {\n\tn := i\n\tfor j, _ := range p.reasonCodes {\n\t\ti += wuint8(p.reasonCodes[j]).fill(b, i)", "\treturn p.frame().fill(b, i)\n}\n\nfunc (p *SubAck) frame() ackFrame {\n\treturn ackFrame{\n\t\tfixed:        p.fixed,\n\t\tpacketID:     p.packetID,\n\t\treasonString: p.reasonString,\n\t\tuser:         &p.UserProperties,\n\t\treasonCodes:  p.reasonCodes,\n\t}\n}\n\n// ackFrame is the wire form shared by SUBACK and UNSUBACK, they only\n// differ in the first byte. It refers to the fields of the packet\n// and is only used for writing.\ntype ackFrame struct {\n\tfixed        bits\n\tpacketID     wuint16\n\treasonString wstring\n\tuser         *UserProperties\n\treasonCodes  []uint8\n}\n\nfunc (f ackFrame) fill(b []byte, i int) int {\n\tremainingLen := vbint(\n\t\tf.variableHeader(_LEN, 0) + f.payload(_LEN, 0),\n\t)\n\ti += f.fixed.fill(b, i)      // firstByte header\n\ti += remainingLen.fill(b, i) // remaining length\n\ti += f.variableHeader(b, i)\n\ti += f.payload(b, i)\n\n\treturn i\n}\n\nfunc (f ackFrame) variableHeader(b []byte, i int) int {\n\tn := i\n\ti += f.packetID.fill(b, i)\n\ti += vbint(f.properties(_LEN, 0)).fill(b, i)\n\ti += f.properties(b, i)\n\treturn i - n\n}\n\nfunc (f ackFrame) properties(b []byte, i int) int {\n\tn := i\n\ti += f.reasonString.fillProp(b, i, ReasonString)\n\ti += f.user.properties(b, i)\n\treturn i - n\n}\n\nfunc (f ackFrame) payload(b []byte, i int) int {\n\tn := i\n\tfor _, code := range f.reasonCodes {\n\t\ti += wuint8(code).fill(b, i)"}, {"unsuback.go", "// byte. Keep for now.\n\nfunc NewUnsubAck() *UnsubAck {\n\treturn &UnsubAck{fixed: bits(UNSUBACK)}\n}\n\ntype UnsubAck struct {\n\tfixed    bits\n\tpacketID wuint16\n\tUserProperties\n\n\treasonString wstring\n\treasonCodes  []uint8\n}\n\nfunc (p *UnsubAck) String() string {\n\treturn fmt.Sprintf(\"%s p%v %v bytes\",\n\t\tfirstByte(p.fixed).String(),\n\t\tp.packetID,\n\t\tp.width(),\n\t)\n}\n\nfunc (p *UnsubAck) dump(w io.Writer) {\n\tfmt.Fprintf(w, \"PacketID: %v\\n\", p.PacketID())\n\tfmt.Fprintf(w, \"ReasonString: %v\\n\", p.ReasonString())\n\tfmt.Fprintf(w, \"ReasonCodes: %v\\n\", p.ReasonCodes())\n\tp.UserProperties.dump(w)\n}\n\nfunc (p *UnsubAck) SetPacketID(v uint16) { p.packetID = wuint16(v) }\nfunc (p *UnsubAck) PacketID() uint16     { return uint16(p.packetID) }\n\nfunc (p *UnsubAck) SetReasonString(v string) { p.reasonString = wstring(v) }\nfunc (p *UnsubAck) ReasonString() string     { return string(p.reasonString) }\n\nfunc (p *UnsubAck) AddReasonCode(v ReasonCode) {\n\tp.reasonCodes = append(p.reasonCodes, uint8(v))\n}\nfunc (p *UnsubAck) ReasonCodes() []uint8 { return p.reasonCodes }\n\nfunc (p *UnsubAck) WriteTo(w io.Writer) (int64, error) {\n\tb := make([]byte, p.width())\n\tp.fill(b, 0)\n\tn, err := w.Write(b)\n\treturn int64(n), err\n}\n\nfunc (p *UnsubAck) width() int {\n\treturn p.fill(_LEN, 0)\n}\n\nfunc (p *UnsubAck) fill(b []byte, i int) int {\n\tremainingLen := vbint(\n\t\tp.variableHeader(_LEN, 0) + p.payload(_LEN, 0),\n\t)\n\ti += p.fixed.fill(b, i)      // firstByte header\n\ti += remainingLen.fill(b, i) // remaining length\n\ti += p.variableHeader(b, i)\n\ti += p.payload(b, i)\n\n\treturn i\n}\n\nfunc (p *UnsubAck) variableHeader(b []byte, i int) int {\n\tn := i\n\ti += p.packetID.fill(b, i)\n\ti += vbint(p.properties(_LEN, 0)).fill(b, i)\n\ti += p.properties(b, i)\n\treturn i - n\n}\n\nfunc (p *UnsubAck) properties(b []byte, i int) int {\n\tn := i\n\tfor id, v := range p.propertyMap() {\n\t\ti += v().fillProp(b, i, id)\n\t}\n\ti += p.UserProperties.properties(b, i)\n\treturn i - n\n}\n\nfunc (p *UnsubAck) payload(b []byte, i int) int {\n\tn := i\n\tfor j, _ := range p.reasonCodes {\n\t\ti += wuint8(p.reasonCodes[j]).fill(b, i)\n\t}\n\treturn i - n", "// byte, they are written using the same ackFrame.\n\nfunc NewUnsubAck() *UnsubAck {\n\treturn &UnsubAck{fixed: bits(UNSUBACK)}\n}\n\ntype UnsubAck struct {\n\tfixed    bits\n\tpacketID wuint16\n\tUserProperties\n\n\treasonString wstring\n\treasonCodes  []uint8\n}\n\nfunc (p *UnsubAck) String() string {\n\treturn fmt.Sprintf(\"%s p%v %v bytes\",\n\t\tfirstByte(p.fixed).String(),\n\t\tp.packetID,\n\t\tp.width(),\n\t)\n}\n\nfunc (p *UnsubAck) dump(w io.Writer) {\n\tfmt.Fprintf(w, \"PacketID: %v\\n\", p.PacketID())\n\tfmt.Fprintf(w, \"ReasonString: %v\\n\", p.ReasonString())\n\tfmt.Fprintf(w, \"ReasonCodes: %v\\n\", p.ReasonCodes())\n\tp.UserProperties.dump(w)\n}\n\nfunc (p *UnsubAck) SetPacketID(v uint16) { p.packetID = wuint16(v) }\nfunc (p *UnsubAck) PacketID() uint16     { return uint16(p.packetID) }\n\nfunc (p *UnsubAck) SetReasonString(v string) { p.reasonString = wstring(v) }\nfunc (p *UnsubAck) ReasonString() string     { return string(p.reasonString) }\n\nfunc (p *UnsubAck) AddReasonCode(v ReasonCode) {\n\tp.reasonCodes = append(p.reasonCodes, uint8(v))\n}\nfunc (p *UnsubAck) ReasonCodes() []uint8 { return p.reasonCodes }\n\nfunc (p *UnsubAck) WriteTo(w io.Writer) (int64, error) {\n\tb := make([]byte, p.width())\n\tp.fill(b, 0)\n\tn, err := w.Write(b)\n\treturn int64(n), err\n}\n\nfunc (p *UnsubAck) width() int {\n\treturn p.fill(_LEN, 0)\n}\n\nfunc (p *UnsubAck) fill(b []byte, i int) int {\n\treturn p.frame().fill(b, i)\n}\n\nfunc (p *UnsubAck) frame() ackFrame {\n\treturn ackFrame{\n\t\tfixed:        p.fixed,\n\t\tpacketID:     p.packetID,\n\t\treasonString: p.reasonString,\n\t\tuser:         &p.UserProperties,\n\t\treasonCodes:  p.reasonCodes,\n\t}"}}},
		{Name: "adv5-A3-size-stated-on-one-path-only", Rule: "R10.4", Where: "(*Publish).String", Edits: []Edit{{"publish.go", "\treturn withForm(p, fmt.Sprintf(\"%s p%v %s%s %v bytes\",\n\t\tfirstByte(p.fixed).String(),\n\t\tp.packetID,\n\t\ttopic,\n\t\tfunc() string {\n\t\t\tif len(p.correlationData) == 0 {\n\t\t\t\treturn \"\"\n\t\t\t}\n\t\t\treturn \" \" + string(p.correlationData)\n\t\t}(),\n\t\tp.width(),\n\t))", "\treturn withForm(p, fmt.Sprintf(\"%s p%v %s%s %s\",\n\t\tfirstByte(p.fixed).String(),\n\t\tp.packetID,\n\t\ttopic,\n\t\tfunc() string {\n\t\t\tif len(p.correlationData) == 0 {\n\t\t\t\treturn \"\"\n\t\t\t}\n\t\t\treturn \" \" + string(p.correlationData)\n\t\t}(),\n\t\thumanSize(p.width()),\n\t))\n}\n\n// humanSize renders the size of a packet, large ones in KiB.\nfunc humanSize(n int) string {\n\tif n >= 10*1024 {\n\t\treturn fmt.Sprintf(\"%.1f KiB\", float64(n)/1024)\n\t}\n\treturn fmt.Sprintf(\"%v bytes\", n)"}}},
		{Name: "adv5-A1-string-cut-by-a-fmt-precision", Rule: "R10.4", Where: "(*Publish).String", Edits: []Edit{{"publish.go", "\treturn withForm(p, fmt.Sprintf(\"%s p%v %s%s %v bytes\",\n\t\tfirstByte(p.fixed).String(),\n\t\tp.packetID,\n\t\ttopic,\n\t\tfunc() string {\n\t\t\tif len(p.correlationData) == 0 {\n\t\t\t\treturn \"\"\n\t\t\t}\n\t\t\treturn \" \" + string(p.correlationData)\n\t\t}(),\n\t\tp.width(),\n\t))", "\tline := fmt.Sprintf(\"%s p%v %s%s %v bytes\",\n\t\tfirstByte(p.fixed).String(),\n\t\tp.packetID,\n\t\ttopic,\n\t\tfunc() string {\n\t\t\tif len(p.correlationData) == 0 {\n\t\t\t\treturn \"\"\n\t\t\t}\n\t\t\treturn \" \" + string(p.correlationData)\n\t\t}(),\n\t\tp.width(),\n\t)\n\t// long topic names or correlation data must not flood a log:\n\t// keep the summary within one line\n\treturn withForm(p, fmt.Sprintf(\"%.120s\", line))"}}},
		{Name: "rf7-generic-fillprop-helper", Silent: true, Edits: []Edit{{"wiretypes.go", "// firstByte represents the first byte in a control packet.\ntype firstByte byte\n\n// String returns a readable string TYPEFLAGS, e.g. PUBLISH d1-r\nfunc (f firstByte) String() string {\n\tvar sb strings.Builder\n\tsb.WriteString(typeNames[byte(f)&0b1111_0000])\n\tsb.WriteString(\" \")\n\tflags := []byte(\"----\")\n\tif bits(f).Has(DUP) {\n\t\tflags[0] = 'd'\n\t}\n\tswitch {\n\tcase bits(f).Has(QoS3):\n\t\tflags[1] = '!' // malformed\n\t\tflags[2] = '!' // malformed\n\tcase bits(f).Has(QoS1):\n\t\tflags[2] = '1'\n\tcase bits(f).Has(QoS2):\n\t\tflags[1] = '2'\n\t}\n\tif bits(f).Has(RETAIN) {\n\t\tflags[3] = 'r'\n\t}\n\tsb.Write(flags)\n\treturn sb.String()\n}\n\n// https://docs.oasis-open.org/mqtt/mqtt/v5.0/os/mqtt-v5.0-os.html#_Toc3901013\ntype UserProp [2]string\n\nfunc (v UserProp) fillProp(data []byte, i int, id Ident) int {\n\tif len(v[0]) == 0 {\n\t\treturn 0\n\t}\n\tn := i\n\ti += id.fill(data, i)\n\ti += v.fill(data, i)\n\treturn i - n\n}\nfunc (v UserProp) fill(data []byte, i int) int {\n\ti += wstring(v[0]).fill(data, i)\n\t_ = wstring(v[1]).fill(data, i)\n\treturn v.width()\n}\n\nfunc (v *UserProp) UnmarshalBinary(data []byte) error {\n\tvar key wstring\n\tif err := key.UnmarshalBinary(data); err != nil {\n\t\treturn unmarshalErr(v, \"key\", err.(*Malformed))\n\t}\n\tv[0] = string(key)\n\n\ti := len(v[0]) + 2\n\tvar val wstring\n\tif err := val.UnmarshalBinary(data[i:]); err != nil {\n\t\treturn unmarshalErr(v, \"value\", err.(*Malformed))\n\t}\n\tv[1] = string(val)\n\treturn nil\n}\nfunc (v UserProp) String() string {\n\treturn fmt.Sprintf(\"%s:%s\", v[0], v[1])\n}\nfunc (v UserProp) width() int {\n\treturn wstring(v[0]).width() + wstring(v[1]).width()\n}\n\n// https://docs.oasis-open.org/mqtt/mqtt/v5.0/os/mqtt-v5.0-os.html#_Toc3901010\ntype wstring = bindata\n\n// https://docs.oasis-open.org/mqtt/mqtt/v5.0/os/mqtt-v5.0-os.html#_Toc3901012\ntype bindata []byte\n\nfunc (v bindata) fillProp(data []byte, i int, id Ident) int {\n\tif len(v) == 0 {\n\t\treturn 0\n\t}\n\tn := i\n\ti += id.fill(data, i)\n\ti += v.fill(data, i)\n\treturn i - n\n}\nfunc (v bindata) fill(data []byte, i int) int {\n\tif len(data) >= i+v.width() {\n\t\ti += wuint16(len(v)).fill(data, i)\n\t\tcopy(data[i:], []byte(v))\n\t}\n\treturn v.width()\n}\n\nfunc (v *bindata) UnmarshalBinary(data []byte) error {\n\tif len(data) < 2 {\n\t\treturn unmarshalErr(v, \"\", \"missing data\")\n\t}\n\tlength := int(binary.BigEndian.Uint16(data))\n\tif len(data) < length+2 {\n\t\treturn unmarshalErr(v, \"\", \"missing data\")\n\t}\n\tif length == 0 {\n\t\treturn nil\n\t}\n\t*v = make([]byte, length)\n\tcopy(*v, data[2:length+2])\n\treturn nil\n}\n\nfunc (v bindata) width() int {\n\treturn 2 + len(v)\n}\n\ntype rawdata []byte\n\nfunc (v *rawdata) UnmarshalBinary(data []byte) error {\n\t*v = make([]byte, len(data))\n\tcopy(*v, data)\n\treturn nil\n}\nfunc (v rawdata) fill(data []byte, i int) int {\n\tif len(data) >= i+v.width() {\n\t\treturn copy(data[i:], []byte(v))\n\t}\n\treturn v.width()\n}\nfunc (v rawdata) width() int {\n\treturn len(v)\n}\n\n// fillProp is here to fullfill the wireType interface, though it\n// cannot be used as a property as the length is not written. fillProp\n// always panics.\nfunc (v rawdata) fillProp(data []byte, i int, id Ident) int {\n\tpanic(\"cannot use rawdata as property\")\n}\n\n// https://docs.oasis-open.org/mqtt/mqtt/v5.0/os/mqtt-v5.0-os.html#_Toc3901011\ntype vbint uint\n\nfunc (v vbint) fillProp(data []byte, i int, id Ident) int {\n\tif v == 0 {\n\t\treturn 0\n\t}\n\tn := i\n\ti += id.fill(data, i)\n\ti += v.fill(data, i)\n\treturn i - n\n}\n\nfunc (v vbint) fill(data []byte, i int) int {\n\tx := v\n\tn := i\n\tfor {\n\t\tencodedByte := byte(x % 128)\n\t\tx = x / 128\n\t\tif x > 0 {\n\t\t\tencodedByte = encodedByte | 128\n\t\t}\n\t\tif i < len(data) {\n\t\t\tdata[i] = encodedByte\n\t\t}\n\t\ti++\n\t\tif x == 0 {\n\t\t\tbreak\n\t\t}\n\t}\n\treturn i - n\n}\n\nfunc (v vbint) width() int {\n\treturn v.fill(_LEN, 0)\n}\n\nfunc (v *vbint) ReadFrom(r io.Reader) (int64, error) {\n\tvar multiplier uint = 1\n\tvar value uint\n\tdata := make([]byte, 1)\n\tvar i int64\n\tfor {\n\t\tif _, err := io.ReadFull(r, data); err != nil {\n\t\t\treturn i, err\n\t\t}\n\t\ti++\n\t\tencodedByte := data[0]\n\t\tvalue += uint(encodedByte) & uint(127) * multiplier\n\t\tif multiplier > 128*128*128 {\n\t\t\treturn i, unmarshalErr(v, \"\", \"size exceeded\")\n\t\t}\n\t\tif encodedByte&128 == 0 {\n\t\t\tbreak\n\t\t}\n\t\tmultiplier = multiplier * 128\n\t}\n\t*v = vbint(value)\n\treturn i, nil\n}\n\n// UnmarshalBinary data, returns nil or *Malformed error\nfunc (v *vbint) UnmarshalBinary(data []byte) error {\n\tif len(data) == 0 {\n\t\treturn unmarshalErr(v, \"\", \"missing data\")\n\t}\n\tvar multiplier uint = 1\n\tvar value uint\n\tfor _, encodedByte := range data {\n\t\tvalue += uint(encodedByte) & uint(127) * multiplier\n\t\tif multiplier > 128*128*128 {\n\t\t\treturn unmarshalErr(v, \"\", \"size exceeded\")\n\t\t}\n\t\tif encodedByte&128 == 0 {\n\t\t\t*v = vbint(value)\n\t\t\treturn nil\n\t\t}\n\t\tmultiplier = multiplier * 128\n\t}\n\treturn unmarshalErr(v, \"\", \"missing data\")\n}\n\n// wire types\ntype (\n\twuint8 = bits // byte\n)\n\ntype wbool bool\n\nfunc (v wbool) fillProp(data []byte, i int, id Ident) int {\n\tif !v {\n\t\treturn 0\n\t}\n\tn := i\n\ti += id.fill(data, i)\n\ti += v.fill(data, i)\n\treturn i - n\n}\nfunc (v wbool) fill(data []byte, i int) int {\n\tif len(data) >= i+1 {\n\t\tif v {\n\t\t\tdata[i] = 0x01\n\t\t} else {\n\t\t\tdata[i] = 0x00\n\t\t}\n\t}\n\treturn 1\n}\nfunc (v *wbool) UnmarshalBinary(data []byte) error {\n\tif len(data) < 1 {\n\t\treturn ErrMissingData\n\t}\n\tswitch data[0] {\n\tcase 0:\n\t\t*v = wbool(false)\n\tcase 1:\n\t\t*v = wbool(true)\n\tdefault:\n\t\treturn fmt.Errorf(\"malformed bool\")\n\t}\n\treturn nil\n}\nfunc (v wbool) width() int { return 1 }\n\n// https://docs.oasis-open.org/mqtt/mqtt/v5.0/os/mqtt-v5.0-os.html#_Toc3901007\ntype bits byte\n\nfunc (v bits) Has(b byte) bool { return byte(v)&b == b }\n\nfunc (v bits) fillProp(data []byte, i int, id Ident) int {\n\tif v == 0 {\n\t\treturn 0\n\t}\n\tn := i\n\ti += id.fill(data, i)\n\ti += v.fill(data, i)\n\treturn i - n\n}\n\nfunc (v bits) fill(data []byte, i int) int {\n\tif len(data) >= i+1 {\n\t\tdata[i] = byte(v)\n\t}\n\treturn 1\n}\n\n// fillOpt fills the bits if > 0\nfunc (v bits) fillOpt(data []byte, i int) int {\n\tif v == 0 {\n\t\treturn 0\n\t}\n\treturn v.fill(data, i)\n}\n\nfunc (v *bits) ReadFrom(r io.Reader) (int64, error) {\n\tdata := make([]byte, 1)\n\tif n, err := io.ReadFull(r, data); err != nil {\n\t\treturn int64(n), err\n\t}\n\treturn 1, v.UnmarshalBinary(data)\n}\nfunc (v *bits) UnmarshalBinary(data []byte) error {\n\tif len(data) < 1 {\n\t\treturn ErrMissingData\n\t}\n\t*v = bits(data[0])\n\treturn nil\n}\nfunc (v bits) width() int { return 1 }\nfunc (v *bits) toggle(flag byte, on bool) {\n\tif on {\n\t\t*v = *v | bits(flag)\n\t\treturn\n\t}\n\t*v = *v & bits(^flag)\n}\n\n// https://docs.oasis-open.org/mqtt/mqtt/v5.0/os/mqtt-v5.0-os.html#_Toc3901008\ntype wuint16 uint16\n\nfunc (v wuint16) fillProp(data []byte, i int, id Ident) int {\n\tif v == 0 {\n\t\treturn 0\n\t}\n\tn := i\n\ti += id.fill(data, i)\n\ti += v.fill(data, i)\n\treturn i - n\n}\n\nfunc (v wuint16) fill(data []byte, i int) int {\n\tif len(data) >= i+2 {\n\t\tbinary.BigEndian.PutUint16(data[i:], uint16(v))\n\t}\n\treturn 2\n}\n\nfunc (v *wuint16) UnmarshalBinary(data []byte) error {\n\tif len(data) < 2 {\n\t\treturn ErrMissingData\n\t}\n\t*v = wuint16(binary.BigEndian.Uint16(data))\n\treturn nil\n}\n\nfunc (v wuint16) width() int { return 2 }\n\n// https://docs.oasis-open.org/mqtt/mqtt/v5.0/os/mqtt-v5.0-os.html#_Toc3901009\ntype wuint32 uint32\n\nfunc (v wuint32) fillProp(data []byte, i int, id Ident) int {\n\tif v == 0 {\n\t\treturn 0\n\t}\n\tn := i\n\ti += id.fill(data, i)\n\ti += v.fill(data, i)\n\treturn i - n", "// filler is the part of a wireType that is needed for writing a\n// value, it's implemented by the value types and not only the pointers.\ntype filler interface {\n\tfill(buf []byte, i int) int\n}\n\n// fillPropOf writes the identifier followed by the value at position\n// i and returns the number of bytes that make up the property.  Each\n// type decides on its own if the value is empty and should be left\n// out, before calling this func.\nfunc fillPropOf[T filler](v T, data []byte, i int, id Ident) int {\n\tstart := i\n\ti += id.fill(data, i)\n\ti += v.fill(data, i)\n\treturn i - start\n}\n\n// firstByte represents the first byte in a control packet.\ntype firstByte byte\n\n// String returns a readable string TYPEFLAGS, e.g. PUBLISH d1-r\nfunc (f firstByte) String() string {\n\tvar sb strings.Builder\n\tsb.WriteString(typeNames[byte(f)&0b1111_0000])\n\tsb.WriteString(\" \")\n\tflags := []byte(\"----\")\n\tif bits(f).Has(DUP) {\n\t\tflags[0] = 'd'\n\t}\n\tswitch {\n\tcase bits(f).Has(QoS3):\n\t\tflags[1] = '!' // malformed\n\t\tflags[2] = '!' // malformed\n\tcase bits(f).Has(QoS1):\n\t\tflags[2] = '1'\n\tcase bits(f).Has(QoS2):\n\t\tflags[1] = '2'\n\t}\n\tif bits(f).Has(RETAIN) {\n\t\tflags[3] = 'r'\n\t}\n\tsb.Write(flags)\n\treturn sb.String()\n}\n\n// https://docs.oasis-open.org/mqtt/mqtt/v5.0/os/mqtt-v5.0-os.html#_Toc3901013\ntype UserProp [2]string\n\nfunc (v UserProp) fillProp(data []byte, i int, id Ident) int {\n\tif len(v[0]) == 0 {\n\t\treturn 0\n\t}\n\treturn fillPropOf(v, data, i, id)\n}\nfunc (v UserProp) fill(data []byte, i int) int {\n\ti += wstring(v[0]).fill(data, i)\n\t_ = wstring(v[1]).fill(data, i)\n\treturn v.width()\n}\n\nfunc (v *UserProp) UnmarshalBinary(data []byte) error {\n\tvar key wstring\n\tif err := key.UnmarshalBinary(data); err != nil {\n\t\treturn unmarshalErr(v, \"key\", err.(*Malformed))\n\t}\n\tv[0] = string(key)\n\n\ti := len(v[0]) + 2\n\tvar val wstring\n\tif err := val.UnmarshalBinary(data[i:]); err != nil {\n\t\treturn unmarshalErr(v, \"value\", err.(*Malformed))\n\t}\n\tv[1] = string(val)\n\treturn nil\n}\nfunc (v UserProp) String() string {\n\treturn fmt.Sprintf(\"%s:%s\", v[0], v[1])\n}\nfunc (v UserProp) width() int {\n\treturn wstring(v[0]).width() + wstring(v[1]).width()\n}\n\n// https://docs.oasis-open.org/mqtt/mqtt/v5.0/os/mqtt-v5.0-os.html#_Toc3901010\ntype wstring = bindata\n\n// https://docs.oasis-open.org/mqtt/mqtt/v5.0/os/mqtt-v5.0-os.html#_Toc3901012\ntype bindata []byte\n\nfunc (v bindata) fillProp(data []byte, i int, id Ident) int {\n\tif len(v) == 0 {\n\t\treturn 0\n\t}\n\treturn fillPropOf(v, data, i, id)\n}\nfunc (v bindata) fill(data []byte, i int) int {\n\tif len(data) >= i+v.width() {\n\t\ti += wuint16(len(v)).fill(data, i)\n\t\tcopy(data[i:], []byte(v))\n\t}\n\treturn v.width()\n}\n\nfunc (v *bindata) UnmarshalBinary(data []byte) error {\n\tif len(data) < 2 {\n\t\treturn unmarshalErr(v, \"\", \"missing data\")\n\t}\n\tlength := int(binary.BigEndian.Uint16(data))\n\tif len(data) < length+2 {\n\t\treturn unmarshalErr(v, \"\", \"missing data\")\n\t}\n\tif length == 0 {\n\t\treturn nil\n\t}\n\t*v = make([]byte, length)\n\tcopy(*v, data[2:length+2])\n\treturn nil\n}\n\nfunc (v bindata) width() int {\n\treturn 2 + len(v)\n}\n\ntype rawdata []byte\n\nfunc (v *rawdata) UnmarshalBinary(data []byte) error {\n\t*v = make([]byte, len(data))\n\tcopy(*v, data)\n\treturn nil\n}\nfunc (v rawdata) fill(data []byte, i int) int {\n\tif len(data) >= i+v.width() {\n\t\treturn copy(data[i:], []byte(v))\n\t}\n\treturn v.width()\n}\nfunc (v rawdata) width() int {\n\treturn len(v)\n}\n\n// fillProp is here to fullfill the wireType interface, though it\n// cannot be used as a property as the length is not written. fillProp\n// always panics.\nfunc (v rawdata) fillProp(data []byte, i int, id Ident) int {\n\tpanic(\"cannot use rawdata as property\")\n}\n\n// https://docs.oasis-open.org/mqtt/mqtt/v5.0/os/mqtt-v5.0-os.html#_Toc3901011\ntype vbint uint\n\nfunc (v vbint) fillProp(data []byte, i int, id Ident) int {\n\tif v == 0 {\n\t\treturn 0\n\t}\n\treturn fillPropOf(v, data, i, id)\n}\n\nfunc (v vbint) fill(data []byte, i int) int {\n\tx := v\n\tn := i\n\tfor {\n\t\tencodedByte := byte(x % 128)\n\t\tx = x / 128\n\t\tif x > 0 {\n\t\t\tencodedByte = encodedByte | 128\n\t\t}\n\t\tif i < len(data) {\n\t\t\tdata[i] = encodedByte\n\t\t}\n\t\ti++\n\t\tif x == 0 {\n\t\t\tbreak\n\t\t}\n\t}\n\treturn i - n\n}\n\nfunc (v vbint) width() int {\n\treturn v.fill(_LEN, 0)\n}\n\nfunc (v *vbint) ReadFrom(r io.Reader) (int64, error) {\n\tvar multiplier uint = 1\n\tvar value uint\n\tdata := make([]byte, 1)\n\tvar i int64\n\tfor {\n\t\tif _, err := io.ReadFull(r, data); err != nil {\n\t\t\treturn i, err\n\t\t}\n\t\ti++\n\t\tencodedByte := data[0]\n\t\tvalue += uint(encodedByte) & uint(127) * multiplier\n\t\tif multiplier > 128*128*128 {\n\t\t\treturn i, unmarshalErr(v, \"\", \"size exceeded\")\n\t\t}\n\t\tif encodedByte&128 == 0 {\n\t\t\tbreak\n\t\t}\n\t\tmultiplier = multiplier * 128\n\t}\n\t*v = vbint(value)\n\treturn i, nil\n}\n\n// UnmarshalBinary data, returns nil or *Malformed error\nfunc (v *vbint) UnmarshalBinary(data []byte) error {\n\tif len(data) == 0 {\n\t\treturn unmarshalErr(v, \"\", \"missing data\")\n\t}\n\tvar multiplier uint = 1\n\tvar value uint\n\tfor _, encodedByte := range data {\n\t\tvalue += uint(encodedByte) & uint(127) * multiplier\n\t\tif multiplier > 128*128*128 {\n\t\t\treturn unmarshalErr(v, \"\", \"size exceeded\")\n\t\t}\n\t\tif encodedByte&128 == 0 {\n\t\t\t*v = vbint(value)\n\t\t\treturn nil\n\t\t}\n\t\tmultiplier = multiplier * 128\n\t}\n\treturn unmarshalErr(v, \"\", \"missing data\")\n}\n\n// wire types\ntype (\n\twuint8 = bits // byte\n)\n\ntype wbool bool\n\nfunc (v wbool) fillProp(data []byte, i int, id Ident) int {\n\tif !v {\n\t\treturn 0\n\t}\n\treturn fillPropOf(v, data, i, id)\n}\nfunc (v wbool) fill(data []byte, i int) int {\n\tif len(data) >= i+1 {\n\t\tif v {\n\t\t\tdata[i] = 0x01\n\t\t} else {\n\t\t\tdata[i] = 0x00\n\t\t}\n\t}\n\treturn 1\n}\nfunc (v *wbool) UnmarshalBinary(data []byte) error {\n\tif len(data) < 1 {\n\t\treturn ErrMissingData\n\t}\n\tswitch data[0] {\n\tcase 0:\n\t\t*v = wbool(false)\n\tcase 1:\n\t\t*v = wbool(true)\n\tdefault:\n\t\treturn fmt.Errorf(\"malformed bool\")\n\t}\n\treturn nil\n}\nfunc (v wbool) width() int { return 1 }\n\n// https://docs.oasis-open.org/mqtt/mqtt/v5.0/os/mqtt-v5.0-os.html#_Toc3901007\ntype bits byte\n\nfunc (v bits) Has(b byte) bool { return byte(v)&b == b }\n\nfunc (v bits) fillProp(data []byte, i int, id Ident) int {\n\tif v == 0 {\n\t\treturn 0\n\t}\n\treturn fillPropOf(v, data, i, id)\n}\n\nfunc (v bits) fill(data []byte, i int) int {\n\tif len(data) >= i+1 {\n\t\tdata[i] = byte(v)\n\t}\n\treturn 1\n}\n\n// fillOpt fills the bits if > 0\nfunc (v bits) fillOpt(data []byte, i int) int {\n\tif v == 0 {\n\t\treturn 0\n\t}\n\treturn v.fill(data, i)\n}\n\nfunc (v *bits) ReadFrom(r io.Reader) (int64, error) {\n\tdata := make([]byte, 1)\n\tif n, err := io.ReadFull(r, data); err != nil {\n\t\treturn int64(n), err\n\t}\n\treturn 1, v.UnmarshalBinary(data)\n}\nfunc (v *bits) UnmarshalBinary(data []byte) error {\n\tif len(data) < 1 {\n\t\treturn ErrMissingData\n\t}\n\t*v = bits(data[0])\n\treturn nil\n}\nfunc (v bits) width() int { return 1 }\nfunc (v *bits) toggle(flag byte, on bool) {\n\tif on {\n\t\t*v = *v | bits(flag)\n\t\treturn\n\t}\n\t*v = *v & bits(^flag)\n}\n\n// https://docs.oasis-open.org/mqtt/mqtt/v5.0/os/mqtt-v5.0-os.html#_Toc3901008\ntype wuint16 uint16\n\nfunc (v wuint16) fillProp(data []byte, i int, id Ident) int {\n\tif v == 0 {\n\t\treturn 0\n\t}\n\treturn fillPropOf(v, data, i, id)\n}\n\nfunc (v wuint16) fill(data []byte, i int) int {\n\tif len(data) >= i+2 {\n\t\tbinary.BigEndian.PutUint16(data[i:], uint16(v))\n\t}\n\treturn 2\n}\n\nfunc (v *wuint16) UnmarshalBinary(data []byte) error {\n\tif len(data) < 2 {\n\t\treturn ErrMissingData\n\t}\n\t*v = wuint16(binary.BigEndian.Uint16(data))\n\treturn nil\n}\n\nfunc (v wuint16) width() int { return 2 }\n\n// https://docs.oasis-open.org/mqtt/mqtt/v5.0/os/mqtt-v5.0-os.html#_Toc3901009\ntype wuint32 uint32\n\nfunc (v wuint32) fillProp(data []byte, i int, id Ident) int {\n\tif v == 0 {\n\t\treturn 0\n\t}\n\treturn fillPropOf(v, data, i, id)"}}},
		{Name: "rf7-builder-reset-when-long", Rule: "R10.4", Where: "String", Edits: []Edit{{"connack.go", ")\n\nfunc NewConnAck() *ConnAck {\n\treturn &ConnAck{\n\t\tfixed: bits(CONNACK),\n\t}\n}\n\ntype ConnAck struct {\n\tfixed      bits\n\tflags      bits // sessionPresent as 7-1 are reserved\n\treasonCode wuint8\n\n\t// properties\n\tsessionExpiryInterval wuint32\n\treceiveMax            wuint16\n\tmaxQoS                wuint8 // 0 or 1, 2\n\tretainAvailable       wbool\n\tmaxPacketSize         wuint32\n\tassignedClientID      wstring\n\ttopicAliasMax         wuint16\n\treasonString          wstring\n\n\tUserProperties\n\twildcardSubAvailable    wbool\n\tsubIdentifiersAvailable wbool\n\tsharedSubAvailable      wbool\n\tserverKeepAlive         wuint16\n\tresponseInformation     wstring\n\tserverReference         wstring\n\tauthMethod              wstring\n\tauthData                bindata\n}\n\nfunc (p *ConnAck) HasFlag(v byte) bool { return p.flags.Has(v) }\n\nfunc (p *ConnAck) SetSessionPresent(v bool) { p.flags.toggle(1, v) }\nfunc (p *ConnAck) SessionPresent() bool     { return p.flags.Has(1) }\n\nfunc (p *ConnAck) SetSessionExpiryInterval(v uint32) { p.sessionExpiryInterval = wuint32(v) }\nfunc (p *ConnAck) SessionExpiryInterval() uint32     { return uint32(p.sessionExpiryInterval) }\n\nfunc (p *ConnAck) SetReceiveMax(v uint16) { p.receiveMax = wuint16(v) }\nfunc (p *ConnAck) ReceiveMax() uint16     { return uint16(p.receiveMax) }\n\nfunc (p *ConnAck) SetMaxQoS(v uint8) { p.maxQoS = wuint8(v) }\nfunc (p *ConnAck) MaxQoS() uint8     { return uint8(p.maxQoS) }\n\nfunc (p *ConnAck) SetRetainAvailable(v bool) { p.retainAvailable = wbool(v) }\nfunc (p *ConnAck) RetainAvailable() bool     { return bool(p.retainAvailable) }\n\nfunc (p *ConnAck) SetMaxPacketSize(v uint32) { p.maxPacketSize = wuint32(v) }\nfunc (p *ConnAck) MaxPacketSize() uint32     { return uint32(p.maxPacketSize) }\n\nfunc (p *ConnAck) SetAssignedClientID(v string) { p.assignedClientID = wstring(v) }\nfunc (p *ConnAck) AssignedClientID() string     { return string(p.assignedClientID) }\n\nfunc (p *ConnAck) SetTopicAliasMax(v uint16) { p.topicAliasMax = wuint16(v) }\nfunc (p *ConnAck) TopicAliasMax() uint16     { return uint16(p.topicAliasMax) }\n\nfunc (p *ConnAck) SetReasonCode(v ReasonCode) { p.reasonCode = wuint8(v) }\nfunc (p *ConnAck) ReasonCode() ReasonCode     { return ReasonCode(p.reasonCode) }\n\nfunc (p *ConnAck) SetReasonString(v string) { p.reasonString = wstring(v) }\nfunc (p *ConnAck) ReasonString() string     { return string(p.reasonString) }\n\nfunc (p *ConnAck) SetWildcardSubAvailable(v bool) { p.wildcardSubAvailable = wbool(v) }\nfunc (p *ConnAck) WildcardSubAvailable() bool     { return bool(p.wildcardSubAvailable) }\n\nfunc (p *ConnAck) SetSubIdentifiersAvailable(v bool) { p.subIdentifiersAvailable = wbool(v) }\nfunc (p *ConnAck) SubIdentifiersAvailable() bool     { return bool(p.subIdentifiersAvailable) }\n\nfunc (p *ConnAck) SetSharedSubAvailable(v bool) { p.sharedSubAvailable = wbool(v) }\nfunc (p *ConnAck) SharedSubAvailable() bool     { return bool(p.sharedSubAvailable) }\n\nfunc (p *ConnAck) SetServerKeepAlive(v uint16) { p.serverKeepAlive = wuint16(v) }\nfunc (p *ConnAck) ServerKeepAlive() uint16     { return uint16(p.serverKeepAlive) }\n\nfunc (p *ConnAck) SetResponseInformation(v string) { p.responseInformation = wstring(v) }\nfunc (p *ConnAck) ResponseInformation() string     { return string(p.responseInformation) }\n\nfunc (p *ConnAck) SetServerReference(v string) { p.serverReference = wstring(v) }\nfunc (p *ConnAck) ServerReference() string     { return string(p.serverReference) }\n\nfunc (p *ConnAck) SetAuthMethod(v string) { p.authMethod = wstring(v) }\nfunc (p *ConnAck) AuthMethod() string     { return string(p.authMethod) }\n\nfunc (p *ConnAck) SetAuthData(v []byte) { p.authData = bindata(v) }\nfunc (p *ConnAck) AuthData() []byte     { return []byte(p.authData) }\n\n// end settings\n// ----------------------------------------\n\nfunc (p *ConnAck) String() string {\n\treturn withReason(p, fmt.Sprintf(\"%s %s %s %v bytes\",\n\t\tfirstByte(p.fixed).String(),\n\t\tconnAckFlags(p.flags),\n\t\tp.assignedClientID,\n\t\tp.width(),\n\t))\n}\n\nfunc withReason(p HasReason, v string) string {\n\tif code := p.ReasonCode(); code >= 0x80 {\n\t\tif p, ok := p.(interface{ ReasonString() string }); ok {\n\t\t\tif r := p.ReasonString(); r != \"\" {\n\t\t\t\treturn fmt.Sprintf(\"%s %s! %s\", v, code.String(), r)\n\t\t\t}\n\t\t}\n\t\treturn fmt.Sprintf(\"%s %s!\", v, code.String())\n\t}\n\treturn v", "\t\"strings\"\n)\n\nfunc NewConnAck() *ConnAck {\n\treturn &ConnAck{\n\t\tfixed: bits(CONNACK),\n\t}\n}\n\ntype ConnAck struct {\n\tfixed      bits\n\tflags      bits // sessionPresent as 7-1 are reserved\n\treasonCode wuint8\n\n\t// properties\n\tsessionExpiryInterval wuint32\n\treceiveMax            wuint16\n\tmaxQoS                wuint8 // 0 or 1, 2\n\tretainAvailable       wbool\n\tmaxPacketSize         wuint32\n\tassignedClientID      wstring\n\ttopicAliasMax         wuint16\n\treasonString          wstring\n\n\tUserProperties\n\twildcardSubAvailable    wbool\n\tsubIdentifiersAvailable wbool\n\tsharedSubAvailable      wbool\n\tserverKeepAlive         wuint16\n\tresponseInformation     wstring\n\tserverReference         wstring\n\tauthMethod              wstring\n\tauthData                bindata\n}\n\nfunc (p *ConnAck) HasFlag(v byte) bool { return p.flags.Has(v) }\n\nfunc (p *ConnAck) SetSessionPresent(v bool) { p.flags.toggle(1, v) }\nfunc (p *ConnAck) SessionPresent() bool     { return p.flags.Has(1) }\n\nfunc (p *ConnAck) SetSessionExpiryInterval(v uint32) { p.sessionExpiryInterval = wuint32(v) }\nfunc (p *ConnAck) SessionExpiryInterval() uint32     { return uint32(p.sessionExpiryInterval) }\n\nfunc (p *ConnAck) SetReceiveMax(v uint16) { p.receiveMax = wuint16(v) }\nfunc (p *ConnAck) ReceiveMax() uint16     { return uint16(p.receiveMax) }\n\nfunc (p *ConnAck) SetMaxQoS(v uint8) { p.maxQoS = wuint8(v) }\nfunc (p *ConnAck) MaxQoS() uint8     { return uint8(p.maxQoS) }\n\nfunc (p *ConnAck) SetRetainAvailable(v bool) { p.retainAvailable = wbool(v) }\nfunc (p *ConnAck) RetainAvailable() bool     { return bool(p.retainAvailable) }\n\nfunc (p *ConnAck) SetMaxPacketSize(v uint32) { p.maxPacketSize = wuint32(v) }\nfunc (p *ConnAck) MaxPacketSize() uint32     { return uint32(p.maxPacketSize) }\n\nfunc (p *ConnAck) SetAssignedClientID(v string) { p.assignedClientID = wstring(v) }\nfunc (p *ConnAck) AssignedClientID() string     { return string(p.assignedClientID) }\n\nfunc (p *ConnAck) SetTopicAliasMax(v uint16) { p.topicAliasMax = wuint16(v) }\nfunc (p *ConnAck) TopicAliasMax() uint16     { return uint16(p.topicAliasMax) }\n\nfunc (p *ConnAck) SetReasonCode(v ReasonCode) { p.reasonCode = wuint8(v) }\nfunc (p *ConnAck) ReasonCode() ReasonCode     { return ReasonCode(p.reasonCode) }\n\nfunc (p *ConnAck) SetReasonString(v string) { p.reasonString = wstring(v) }\nfunc (p *ConnAck) ReasonString() string     { return string(p.reasonString) }\n\nfunc (p *ConnAck) SetWildcardSubAvailable(v bool) { p.wildcardSubAvailable = wbool(v) }\nfunc (p *ConnAck) WildcardSubAvailable() bool     { return bool(p.wildcardSubAvailable) }\n\nfunc (p *ConnAck) SetSubIdentifiersAvailable(v bool) { p.subIdentifiersAvailable = wbool(v) }\nfunc (p *ConnAck) SubIdentifiersAvailable() bool     { return bool(p.subIdentifiersAvailable) }\n\nfunc (p *ConnAck) SetSharedSubAvailable(v bool) { p.sharedSubAvailable = wbool(v) }\nfunc (p *ConnAck) SharedSubAvailable() bool     { return bool(p.sharedSubAvailable) }\n\nfunc (p *ConnAck) SetServerKeepAlive(v uint16) { p.serverKeepAlive = wuint16(v) }\nfunc (p *ConnAck) ServerKeepAlive() uint16     { return uint16(p.serverKeepAlive) }\n\nfunc (p *ConnAck) SetResponseInformation(v string) { p.responseInformation = wstring(v) }\nfunc (p *ConnAck) ResponseInformation() string     { return string(p.responseInformation) }\n\nfunc (p *ConnAck) SetServerReference(v string) { p.serverReference = wstring(v) }\nfunc (p *ConnAck) ServerReference() string     { return string(p.serverReference) }\n\nfunc (p *ConnAck) SetAuthMethod(v string) { p.authMethod = wstring(v) }\nfunc (p *ConnAck) AuthMethod() string     { return string(p.authMethod) }\n\nfunc (p *ConnAck) SetAuthData(v []byte) { p.authData = bindata(v) }\nfunc (p *ConnAck) AuthData() []byte     { return []byte(p.authData) }\n\n// end settings\n// ----------------------------------------\n\nfunc (p *ConnAck) String() string {\n\treturn withReason(p, fmt.Sprintf(\"%s %s %s %v bytes\",\n\t\tfirstByte(p.fixed).String(),\n\t\tconnAckFlags(p.flags),\n\t\tp.assignedClientID,\n\t\tp.width(),\n\t))\n}\n\n// withReason appends the reason code, and the reason string if any,\n// to v for failures, i.e. reason codes >= 0x80.\nfunc withReason(p HasReason, v string) string {\n\tcode := p.ReasonCode()\n\tif code < 0x80 {\n\t\treturn v\n\t}\n\tvar sb strings.Builder\n\tsb.WriteString(v)\n\tif sb.Len() > 120 {\n\t\tsb.Reset()\n\t}\n\tsb.WriteByte(' ')\n\tsb.WriteString(code.String())\n\tsb.WriteByte('!')\n\tif p, ok := p.(interface{ ReasonString() string }); ok {\n\t\tif r := p.ReasonString(); r != \"\" {\n\t\t\tsb.WriteByte(' ')\n\t\t\tsb.WriteString(r)\n\t\t}\n\t}\n\treturn sb.String()"}, {"puback.go", ")\n\n// NewPubAck returns control packet with type PUBACK\nfunc NewPubAck() *PubAck {\n\treturn &PubAck{fixed: bits(PUBACK)}\n}\n\n// A PubAck packet is the response to a Publish packets, depending on\n// the fixed header it can be one of PUBACK, PUBREC, PUBREL or PUBCOMP\ntype PubAck struct {\n\tfixed bits\n\n\tpacketID   wuint16\n\treasonCode wuint8\n\treason     wstring\n\tUserProperties\n}\n\nfunc (p *PubAck) String() string {\n\treturn withReason(p, fmt.Sprintf(\"%s p%v %v bytes\",\n\t\tfirstByte(p.fixed).String(),\n\t\tp.packetID,\n\t\tp.width(),\n\t))", "\t\"strings\"\n)\n\n// NewPubAck returns control packet with type PUBACK\nfunc NewPubAck() *PubAck {\n\treturn &PubAck{fixed: bits(PUBACK)}\n}\n\n// A PubAck packet is the response to a Publish packets, depending on\n// the fixed header it can be one of PUBACK, PUBREC, PUBREL or PUBCOMP\ntype PubAck struct {\n\tfixed bits\n\n\tpacketID   wuint16\n\treasonCode wuint8\n\treason     wstring\n\tUserProperties\n}\n\nfunc (p *PubAck) String() string {\n\treturn withReason(p, fmt.Sprintf(\"%s p%v %v bytes\",\n\t\tfirstByte(p.fixed).String(),\n\t\tp.packetID,\n\t\tp.width(),\n\t))\n}\n\n// ackString returns the short form used by PUBREC and PUBCOMP which\n// always includes the reason code, the reason string follows only if\n// the code is not Success.\nfunc ackString(fixed bits, id wuint16, code wuint8, reason wstring, size int) string {\n\tvar sb strings.Builder\n\tsb.WriteString(firstByte(fixed).String())\n\tfmt.Fprintf(&sb, \" p%v \", id)\n\tsb.WriteString(ReasonCode(code).String())\n\tif code > 0 && len(reason) > 0 {\n\t\tsb.WriteByte(' ')\n\t\tsb.Write(reason)\n\t}\n\tfmt.Fprintf(&sb, \" %v bytes\", size)\n\treturn sb.String()"}, {"pubcomp.go", "\treturn fmt.Sprintf(\"%s p%v %s%s %v bytes\",\n\t\tfirstByte(p.fixed).String(),\n\t\tp.packetID,\n\t\tReasonCode(p.reasonCode).String(),\n\t\tfunc() string {\n\t\t\tif p.reasonCode > 0 && len(p.reason) > 0 {\n\t\t\t\treturn \" \" + string(p.reason)\n\t\t\t}\n\t\t\treturn \"\"\n\t\t}(),\n\t\tp.width(),\n\t)", "\treturn ackString(p.fixed, p.packetID, p.reasonCode, p.reason, p.width())"}, {"pubrec.go", "\treturn fmt.Sprintf(\"%s p%v %s%s %v bytes\",\n\t\tfirstByte(p.fixed).String(),\n\t\tp.packetID,\n\t\tReasonCode(p.reasonCode).String(),\n\t\tfunc() string {\n\t\t\tif p.reasonCode > 0 && len(p.reason) > 0 {\n\t\t\t\treturn \" \" + string(p.reason)\n\t\t\t}\n\t\t\treturn \"\"\n\t\t}(),\n\t\tp.width(),\n\t)", "\treturn ackString(p.fixed, p.packetID, p.reasonCode, p.reason, p.width())"}}},
		{Name: "rf7-string-built-in-a-builder", Silent: true, Edits: []Edit{{"connack.go", ")\n\nfunc NewConnAck() *ConnAck {\n\treturn &ConnAck{\n\t\tfixed: bits(CONNACK),\n\t}\n}\n\ntype ConnAck struct {\n\tfixed      bits\n\tflags      bits // sessionPresent as 7-1 are reserved\n\treasonCode wuint8\n\n\t// properties\n\tsessionExpiryInterval wuint32\n\treceiveMax            wuint16\n\tmaxQoS                wuint8 // 0 or 1, 2\n\tretainAvailable       wbool\n\tmaxPacketSize         wuint32\n\tassignedClientID      wstring\n\ttopicAliasMax         wuint16\n\treasonString          wstring\n\n\tUserProperties\n\twildcardSubAvailable    wbool\n\tsubIdentifiersAvailable wbool\n\tsharedSubAvailable      wbool\n\tserverKeepAlive         wuint16\n\tresponseInformation     wstring\n\tserverReference         wstring\n\tauthMethod              wstring\n\tauthData                bindata\n}\n\nfunc (p *ConnAck) HasFlag(v byte) bool { return p.flags.Has(v) }\n\nfunc (p *ConnAck) SetSessionPresent(v bool) { p.flags.toggle(1, v) }\nfunc (p *ConnAck) SessionPresent() bool     { return p.flags.Has(1) }\n\nfunc (p *ConnAck) SetSessionExpiryInterval(v uint32) { p.sessionExpiryInterval = wuint32(v) }\nfunc (p *ConnAck) SessionExpiryInterval() uint32     { return uint32(p.sessionExpiryInterval) }\n\nfunc (p *ConnAck) SetReceiveMax(v uint16) { p.receiveMax = wuint16(v) }\nfunc (p *ConnAck) ReceiveMax() uint16     { return uint16(p.receiveMax) }\n\nfunc (p *ConnAck) SetMaxQoS(v uint8) { p.maxQoS = wuint8(v) }\nfunc (p *ConnAck) MaxQoS() uint8     { return uint8(p.maxQoS) }\n\nfunc (p *ConnAck) SetRetainAvailable(v bool) { p.retainAvailable = wbool(v) }\nfunc (p *ConnAck) RetainAvailable() bool     { return bool(p.retainAvailable) }\n\nfunc (p *ConnAck) SetMaxPacketSize(v uint32) { p.maxPacketSize = wuint32(v) }\nfunc (p *ConnAck) MaxPacketSize() uint32     { return uint32(p.maxPacketSize) }\n\nfunc (p *ConnAck) SetAssignedClientID(v string) { p.assignedClientID = wstring(v) }\nfunc (p *ConnAck) AssignedClientID() string     { return string(p.assignedClientID) }\n\nfunc (p *ConnAck) SetTopicAliasMax(v uint16) { p.topicAliasMax = wuint16(v) }\nfunc (p *ConnAck) TopicAliasMax() uint16     { return uint16(p.topicAliasMax) }\n\nfunc (p *ConnAck) SetReasonCode(v ReasonCode) { p.reasonCode = wuint8(v) }\nfunc (p *ConnAck) ReasonCode() ReasonCode     { return ReasonCode(p.reasonCode) }\n\nfunc (p *ConnAck) SetReasonString(v string) { p.reasonString = wstring(v) }\nfunc (p *ConnAck) ReasonString() string     { return string(p.reasonString) }\n\nfunc (p *ConnAck) SetWildcardSubAvailable(v bool) { p.wildcardSubAvailable = wbool(v) }\nfunc (p *ConnAck) WildcardSubAvailable() bool     { return bool(p.wildcardSubAvailable) }\n\nfunc (p *ConnAck) SetSubIdentifiersAvailable(v bool) { p.subIdentifiersAvailable = wbool(v) }\nfunc (p *ConnAck) SubIdentifiersAvailable() bool     { return bool(p.subIdentifiersAvailable) }\n\nfunc (p *ConnAck) SetSharedSubAvailable(v bool) { p.sharedSubAvailable = wbool(v) }\nfunc (p *ConnAck) SharedSubAvailable() bool     { return bool(p.sharedSubAvailable) }\n\nfunc (p *ConnAck) SetServerKeepAlive(v uint16) { p.serverKeepAlive = wuint16(v) }\nfunc (p *ConnAck) ServerKeepAlive() uint16     { return uint16(p.serverKeepAlive) }\n\nfunc (p *ConnAck) SetResponseInformation(v string) { p.responseInformation = wstring(v) }\nfunc (p *ConnAck) ResponseInformation() string     { return string(p.responseInformation) }\n\nfunc (p *ConnAck) SetServerReference(v string) { p.serverReference = wstring(v) }\nfunc (p *ConnAck) ServerReference() string     { return string(p.serverReference) }\n\nfunc (p *ConnAck) SetAuthMethod(v string) { p.authMethod = wstring(v) }\nfunc (p *ConnAck) AuthMethod() string     { return string(p.authMethod) }\n\nfunc (p *ConnAck) SetAuthData(v []byte) { p.authData = bindata(v) }\nfunc (p *ConnAck) AuthData() []byte     { return []byte(p.authData) }\n\n// end settings\n// ----------------------------------------\n\nfunc (p *ConnAck) String() string {\n\treturn withReason(p, fmt.Sprintf(\"%s %s %s %v bytes\",\n\t\tfirstByte(p.fixed).String(),\n\t\tconnAckFlags(p.flags),\n\t\tp.assignedClientID,\n\t\tp.width(),\n\t))\n}\n\nfunc withReason(p HasReason, v string) string {\n\tif code := p.ReasonCode(); code >= 0x80 {\n\t\tif p, ok := p.(interface{ ReasonString() string }); ok {\n\t\t\tif r := p.ReasonString(); r != \"\" {\n\t\t\t\treturn fmt.Sprintf(\"%s %s! %s\", v, code.String(), r)\n\t\t\t}\n\t\t}\n\t\treturn fmt.Sprintf(\"%s %s!\", v, code.String())\n\t}\n\treturn v", "\t\"strings\"\n)\n\nfunc NewConnAck() *ConnAck {\n\treturn &ConnAck{\n\t\tfixed: bits(CONNACK),\n\t}\n}\n\ntype ConnAck struct {\n\tfixed      bits\n\tflags      bits // sessionPresent as 7-1 are reserved\n\treasonCode wuint8\n\n\t// properties\n\tsessionExpiryInterval wuint32\n\treceiveMax            wuint16\n\tmaxQoS                wuint8 // 0 or 1, 2\n\tretainAvailable       wbool\n\tmaxPacketSize         wuint32\n\tassignedClientID      wstring\n\ttopicAliasMax         wuint16\n\treasonString          wstring\n\n\tUserProperties\n\twildcardSubAvailable    wbool\n\tsubIdentifiersAvailable wbool\n\tsharedSubAvailable      wbool\n\tserverKeepAlive         wuint16\n\tresponseInformation     wstring\n\tserverReference         wstring\n\tauthMethod              wstring\n\tauthData                bindata\n}\n\nfunc (p *ConnAck) HasFlag(v byte) bool { return p.flags.Has(v) }\n\nfunc (p *ConnAck) SetSessionPresent(v bool) { p.flags.toggle(1, v) }\nfunc (p *ConnAck) SessionPresent() bool     { return p.flags.Has(1) }\n\nfunc (p *ConnAck) SetSessionExpiryInterval(v uint32) { p.sessionExpiryInterval = wuint32(v) }\nfunc (p *ConnAck) SessionExpiryInterval() uint32     { return uint32(p.sessionExpiryInterval) }\n\nfunc (p *ConnAck) SetReceiveMax(v uint16) { p.receiveMax = wuint16(v) }\nfunc (p *ConnAck) ReceiveMax() uint16     { return uint16(p.receiveMax) }\n\nfunc (p *ConnAck) SetMaxQoS(v uint8) { p.maxQoS = wuint8(v) }\nfunc (p *ConnAck) MaxQoS() uint8     { return uint8(p.maxQoS) }\n\nfunc (p *ConnAck) SetRetainAvailable(v bool) { p.retainAvailable = wbool(v) }\nfunc (p *ConnAck) RetainAvailable() bool     { return bool(p.retainAvailable) }\n\nfunc (p *ConnAck) SetMaxPacketSize(v uint32) { p.maxPacketSize = wuint32(v) }\nfunc (p *ConnAck) MaxPacketSize() uint32     { return uint32(p.maxPacketSize) }\n\nfunc (p *ConnAck) SetAssignedClientID(v string) { p.assignedClientID = wstring(v) }\nfunc (p *ConnAck) AssignedClientID() string     { return string(p.assignedClientID) }\n\nfunc (p *ConnAck) SetTopicAliasMax(v uint16) { p.topicAliasMax = wuint16(v) }\nfunc (p *ConnAck) TopicAliasMax() uint16     { return uint16(p.topicAliasMax) }\n\nfunc (p *ConnAck) SetReasonCode(v ReasonCode) { p.reasonCode = wuint8(v) }\nfunc (p *ConnAck) ReasonCode() ReasonCode     { return ReasonCode(p.reasonCode) }\n\nfunc (p *ConnAck) SetReasonString(v string) { p.reasonString = wstring(v) }\nfunc (p *ConnAck) ReasonString() string     { return string(p.reasonString) }\n\nfunc (p *ConnAck) SetWildcardSubAvailable(v bool) { p.wildcardSubAvailable = wbool(v) }\nfunc (p *ConnAck) WildcardSubAvailable() bool     { return bool(p.wildcardSubAvailable) }\n\nfunc (p *ConnAck) SetSubIdentifiersAvailable(v bool) { p.subIdentifiersAvailable = wbool(v) }\nfunc (p *ConnAck) SubIdentifiersAvailable() bool     { return bool(p.subIdentifiersAvailable) }\n\nfunc (p *ConnAck) SetSharedSubAvailable(v bool) { p.sharedSubAvailable = wbool(v) }\nfunc (p *ConnAck) SharedSubAvailable() bool     { return bool(p.sharedSubAvailable) }\n\nfunc (p *ConnAck) SetServerKeepAlive(v uint16) { p.serverKeepAlive = wuint16(v) }\nfunc (p *ConnAck) ServerKeepAlive() uint16     { return uint16(p.serverKeepAlive) }\n\nfunc (p *ConnAck) SetResponseInformation(v string) { p.responseInformation = wstring(v) }\nfunc (p *ConnAck) ResponseInformation() string     { return string(p.responseInformation) }\n\nfunc (p *ConnAck) SetServerReference(v string) { p.serverReference = wstring(v) }\nfunc (p *ConnAck) ServerReference() string     { return string(p.serverReference) }\n\nfunc (p *ConnAck) SetAuthMethod(v string) { p.authMethod = wstring(v) }\nfunc (p *ConnAck) AuthMethod() string     { return string(p.authMethod) }\n\nfunc (p *ConnAck) SetAuthData(v []byte) { p.authData = bindata(v) }\nfunc (p *ConnAck) AuthData() []byte     { return []byte(p.authData) }\n\n// end settings\n// ----------------------------------------\n\nfunc (p *ConnAck) String() string {\n\treturn withReason(p, fmt.Sprintf(\"%s %s %s %v bytes\",\n\t\tfirstByte(p.fixed).String(),\n\t\tconnAckFlags(p.flags),\n\t\tp.assignedClientID,\n\t\tp.width(),\n\t))\n}\n\n// withReason appends the reason code, and the reason string if any,\n// to v for failures, i.e. reason codes >= 0x80.\nfunc withReason(p HasReason, v string) string {\n\tcode := p.ReasonCode()\n\tif code < 0x80 {\n\t\treturn v\n\t}\n\tvar sb strings.Builder\n\tsb.WriteString(v)\n\tsb.WriteByte(' ')\n\tsb.WriteString(code.String())\n\tsb.WriteByte('!')\n\tif p, ok := p.(interface{ ReasonString() string }); ok {\n\t\tif r := p.ReasonString(); r != \"\" {\n\t\t\tsb.WriteByte(' ')\n\t\t\tsb.WriteString(r)\n\t\t}\n\t}\n\treturn sb.String()"}, {"puback.go", ")\n\n// NewPubAck returns control packet with type PUBACK\nfunc NewPubAck() *PubAck {\n\treturn &PubAck{fixed: bits(PUBACK)}\n}\n\n// A PubAck packet is the response to a Publish packets, depending on\n// the fixed header it can be one of PUBACK, PUBREC, PUBREL or PUBCOMP\ntype PubAck struct {\n\tfixed bits\n\n\tpacketID   wuint16\n\treasonCode wuint8\n\treason     wstring\n\tUserProperties\n}\n\nfunc (p *PubAck) String() string {\n\treturn withReason(p, fmt.Sprintf(\"%s p%v %v bytes\",\n\t\tfirstByte(p.fixed).String(),\n\t\tp.packetID,\n\t\tp.width(),\n\t))", "\t\"strings\"\n)\n\n// NewPubAck returns control packet with type PUBACK\nfunc NewPubAck() *PubAck {\n\treturn &PubAck{fixed: bits(PUBACK)}\n}\n\n// A PubAck packet is the response to a Publish packets, depending on\n// the fixed header it can be one of PUBACK, PUBREC, PUBREL or PUBCOMP\ntype PubAck struct {\n\tfixed bits\n\n\tpacketID   wuint16\n\treasonCode wuint8\n\treason     wstring\n\tUserProperties\n}\n\nfunc (p *PubAck) String() string {\n\treturn withReason(p, fmt.Sprintf(\"%s p%v %v bytes\",\n\t\tfirstByte(p.fixed).String(),\n\t\tp.packetID,\n\t\tp.width(),\n\t))\n}\n\n// ackString returns the short form used by PUBREC and PUBCOMP which\n// always includes the reason code, the reason string follows only if\n// the code is not Success.\nfunc ackString(fixed bits, id wuint16, code wuint8, reason wstring, size int) string {\n\tvar sb strings.Builder\n\tsb.WriteString(firstByte(fixed).String())\n\tfmt.Fprintf(&sb, \" p%v \", id)\n\tsb.WriteString(ReasonCode(code).String())\n\tif code > 0 && len(reason) > 0 {\n\t\tsb.WriteByte(' ')\n\t\tsb.Write(reason)\n\t}\n\tfmt.Fprintf(&sb, \" %v bytes\", size)\n\treturn sb.String()"}, {"pubcomp.go", "\treturn fmt.Sprintf(\"%s p%v %s%s %v bytes\",\n\t\tfirstByte(p.fixed).String(),\n\t\tp.packetID,\n\t\tReasonCode(p.reasonCode).String(),\n\t\tfunc() string {\n\t\t\tif p.reasonCode > 0 && len(p.reason) > 0 {\n\t\t\t\treturn \" \" + string(p.reason)\n\t\t\t}\n\t\t\treturn \"\"\n\t\t}(),\n\t\tp.width(),\n\t)", "\treturn ackString(p.fixed, p.packetID, p.reasonCode, p.reason, p.width())"}, {"pubrec.go", "\treturn fmt.Sprintf(\"%s p%v %s%s %v bytes\",\n\t\tfirstByte(p.fixed).String(),\n\t\tp.packetID,\n\t\tReasonCode(p.reasonCode).String(),\n\t\tfunc() string {\n\t\t\tif p.reasonCode > 0 && len(p.reason) > 0 {\n\t\t\t\treturn \" \" + string(p.reason)\n\t\t\t}\n\t\t\treturn \"\"\n\t\t}(),\n\t\tp.width(),\n\t)", "\treturn ackString(p.fixed, p.packetID, p.reasonCode, p.reason, p.width())"}}},
		{Name: "rf7-writeto-drops-the-first-byte-of-marshal", Rule: "R10.1", Where: "WriteTo", Edits: []Edit{{"auth.go", "\tb := make([]byte, p.width())\n\tp.fill(b, 0)\n\tn, err := w.Write(b)\n\treturn int64(n), err", "\treturn writeTo(w, p)"}, {"connack.go", "\t// allocate full size of entire packet\n\tb := make([]byte, p.fill(_LEN, 0))\n\tp.fill(b, 0)\n\tn, err := w.Write(b)\n\treturn int64(n), err", "\treturn writeTo(w, p)"}, {"connect.go", "\t// allocate full size of entire packet\n\tb := make([]byte, p.fill(_LEN, 0))\n\tp.fill(b, 0)\n\n\tn, err := w.Write(b)\n\treturn int64(n), err", "\treturn writeTo(w, p)"}, {"disconnect.go", "\tb := make([]byte, p.width())\n\tp.fill(b, 0)\n\tn, err := w.Write(b)\n\treturn int64(n), err", "\treturn writeTo(w, p)"}, {"packet.go", "\t}\n}\n", "\t}\n}\n\n// filler is implemented by all control packets that can be written\n// in wire format. fill follows the same contract as wireType.fill, a\n// nil buffer only calculates the width.\ntype filler interface {\n\tfill(b []byte, i int) int\n}\n\n// marshal returns the packet in wire format. The buffer is allocated\n// to the full size of the entire packet.\nfunc marshal(p filler) []byte {\n\tb := make([]byte, p.fill(_LEN, 0))\n\tp.fill(b, 0)\n\treturn b\n}\n\n// writeTo writes the packet in wire format to the given writer using\n// one call to Write. Shared by the WriteTo methods of all packets.\nfunc writeTo(w io.Writer, p filler) (int64, error) {\n\tn, err := w.Write(marshal(p)[1:])\n\treturn int64(n), err\n}\n"}, {"pingreq.go", "\tb := make([]byte, p.width())\n\tp.fill(b, 0)\n\tn, err := w.Write(b)\n\treturn int64(n), err", "\treturn writeTo(w, p)"}, {"pingresp.go", "\tb := make([]byte, p.width())\n\tp.fill(b, 0)\n\tn, err := w.Write(b)\n\treturn int64(n), err", "\treturn writeTo(w, p)"}, {"puback.go", "\tb := make([]byte, p.fill(_LEN, 0))\n\tp.fill(b, 0)\n\tn, err := w.Write(b)\n\treturn int64(n), err", "\treturn writeTo(w, p)"}, {"pubcomp.go", "\tb := make([]byte, p.fill(_LEN, 0))\n\tp.fill(b, 0)\n\tn, err := w.Write(b)\n\treturn int64(n), err", "\treturn writeTo(w, p)"}, {"publish.go", "\tb := make([]byte, p.fill(_LEN, 0))\n\tp.fill(b, 0)\n\tn, err := w.Write(b)\n\treturn int64(n), err", "\treturn writeTo(w, p)"}, {"pubrec.go", "\tb := make([]byte, p.fill(_LEN, 0))\n\tp.fill(b, 0)\n\tn, err := w.Write(b)\n\treturn int64(n), err", "\treturn writeTo(w, p)"}, {"pubrel.go", "\tb := make([]byte, p.fill(_LEN, 0))\n\tp.fill(b, 0)\n\tn, err := w.Write(b)\n\treturn int64(n), err", "\treturn writeTo(w, p)"}, {"suback.go", "\tb := make([]byte, p.width())\n\tp.fill(b, 0)\n\tn, err := w.Write(b)\n\treturn int64(n), err", "\treturn writeTo(w, p)"}, {"subscribe.go", "\tb := make([]byte, p.width())\n\tp.fill(b, 0)\n\tn, err := w.Write(b)\n\treturn int64(n), err", "\treturn writeTo(w, p)"}, {"unsuback.go", "\tb := make([]byte, p.width())\n\tp.fill(b, 0)\n\tn, err := w.Write(b)\n\treturn int64(n), err", "\treturn writeTo(w, p)"}, {"unsubscribe.go", "\tb := make([]byte, p.width())\n\tp.fill(b, 0)\n\tn, err := w.Write(b)\n\treturn int64(n), err", "\treturn writeTo(w, p)"}}},
		{Name: "rf7-writeto-through-marshal-helper", Silent: true, Edits: []Edit{{"auth.go", "\tb := make([]byte, p.width())\n\tp.fill(b, 0)\n\tn, err := w.Write(b)\n\treturn int64(n), err", "\treturn writeTo(w, p)"}, {"connack.go", "\t// allocate full size of entire packet\n\tb := make([]byte, p.fill(_LEN, 0))\n\tp.fill(b, 0)\n\tn, err := w.Write(b)\n\treturn int64(n), err", "\treturn writeTo(w, p)"}, {"connect.go", "\t// allocate full size of entire packet\n\tb := make([]byte, p.fill(_LEN, 0))\n\tp.fill(b, 0)\n\n\tn, err := w.Write(b)\n\treturn int64(n), err", "\treturn writeTo(w, p)"}, {"disconnect.go", "\tb := make([]byte, p.width())\n\tp.fill(b, 0)\n\tn, err := w.Write(b)\n\treturn int64(n), err", "\treturn writeTo(w, p)"}, {"packet.go", "\t}\n}\n", "\t}\n}\n\n// filler is implemented by all control packets that can be written\n// in wire format. fill follows the same contract as wireType.fill, a\n// nil buffer only calculates the width.\ntype filler interface {\n\tfill(b []byte, i int) int\n}\n\n// marshal returns the packet in wire format. The buffer is allocated\n// to the full size of the entire packet.\nfunc marshal(p filler) []byte {\n\tb := make([]byte, p.fill(_LEN, 0))\n\tp.fill(b, 0)\n\treturn b\n}\n\n// writeTo writes the packet in wire format to the given writer using\n// one call to Write. Shared by the WriteTo methods of all packets.\nfunc writeTo(w io.Writer, p filler) (int64, error) {\n\tn, err := w.Write(marshal(p))\n\treturn int64(n), err\n}\n"}, {"pingreq.go", "\tb := make([]byte, p.width())\n\tp.fill(b, 0)\n\tn, err := w.Write(b)\n\treturn int64(n), err", "\treturn writeTo(w, p)"}, {"pingresp.go", "\tb := make([]byte, p.width())\n\tp.fill(b, 0)\n\tn, err := w.Write(b)\n\treturn int64(n), err", "\treturn writeTo(w, p)"}, {"puback.go", "\tb := make([]byte, p.fill(_LEN, 0))\n\tp.fill(b, 0)\n\tn, err := w.Write(b)\n\treturn int64(n), err", "\treturn writeTo(w, p)"}, {"pubcomp.go", "\tb := make([]byte, p.fill(_LEN, 0))\n\tp.fill(b, 0)\n\tn, err := w.Write(b)\n\treturn int64(n), err", "\treturn writeTo(w, p)"}, {"publish.go", "\tb := make([]byte, p.fill(_LEN, 0))\n\tp.fill(b, 0)\n\tn, err := w.Write(b)\n\treturn int64(n), err", "\treturn writeTo(w, p)"}, {"pubrec.go", "\tb := make([]byte, p.fill(_LEN, 0))\n\tp.fill(b, 0)\n\tn, err := w.Write(b)\n\treturn int64(n), err", "\treturn writeTo(w, p)"}, {"pubrel.go", "\tb := make([]byte, p.fill(_LEN, 0))\n\tp.fill(b, 0)\n\tn, err := w.Write(b)\n\treturn int64(n), err", "\treturn writeTo(w, p)"}, {"suback.go", "\tb := make([]byte, p.width())\n\tp.fill(b, 0)\n\tn, err := w.Write(b)\n\treturn int64(n), err", "\treturn writeTo(w, p)"}, {"subscribe.go", "\tb := make([]byte, p.width())\n\tp.fill(b, 0)\n\tn, err := w.Write(b)\n\treturn int64(n), err", "\treturn writeTo(w, p)"}, {"unsuback.go", "\tb := make([]byte, p.width())\n\tp.fill(b, 0)\n\tn, err := w.Write(b)\n\treturn int64(n), err", "\treturn writeTo(w, p)"}, {"unsubscribe.go", "\tb := make([]byte, p.width())\n\tp.fill(b, 0)\n\tn, err := w.Write(b)\n\treturn int64(n), err", "\treturn writeTo(w, p)"}}},
		{Name: "string-result-shortened-after-the-size-print", Rule: "R10.4", Where: "(*Publish).String", Edits: []Edit{{"publish.go", "\treturn withForm(p, fmt.Sprintf(\"%s p%v %s%s %v bytes\",\n\t\tfirstByte(p.fixed).String(),\n\t\tp.packetID,\n\t\ttopic,\n\t\tfunc() string {\n\t\t\tif len(p.correlationData) == 0 {\n\t\t\t\treturn \"\"\n\t\t\t}\n\t\t\treturn \" \" + string(p.correlationData)\n\t\t}(),\n\t\tp.width(),\n\t))", "\treturn withForm(p, shorten(fmt.Sprintf(\"%s p%v %s%s %v bytes\",\n\t\tfirstByte(p.fixed).String(),\n\t\tp.packetID,\n\t\ttopic,\n\t\tfunc() string {\n\t\t\tif len(p.correlationData) == 0 {\n\t\t\t\treturn \"\"\n\t\t\t}\n\t\t\treturn \" \" + string(p.correlationData)\n\t\t}(),\n\t\tp.width(),\n\t)))\n}\n\n// maxLogLine limits the length of the short strings used for\n// logging.\nconst maxLogLine = 120\n\n// shorten returns v cut to maxLogLine, so that a packet with a very\n// long topic name or correlation data does not flood a log.\nfunc shorten(v string) string {\n\tif len(v) > maxLogLine {\n\t\treturn v[:maxLogLine-3] + \"...\"\n\t}\n\treturn v"}}},
		{Name: "size-by-parts-counts-a-zero-subscription-identifier", Rule: "R10.1", Where: "(*Subscribe).WriteTo", Edits: []Edit{{"subscribe.go", "func (p *Subscribe) width() int {\n\treturn p.fill(_LEN, 0)", "// width returns the size of the encoded packet. It is used by both\n// String and WriteTo, the size is summed up from the parts instead of\n// running the encoder twice.\nfunc (p *Subscribe) width() int {\n\tpropl := p.UserProperties.properties(_LEN, 0)\n\tif p.subscriptionID != nil {\n\t\tpropl += SubscriptionID.width() + p.subscriptionID.width()\n\t}\n\trem := p.packetID.width() + vbint(propl).width() + propl\n\trem += p.payload(_LEN, 0)\n\treturn p.fixed.width() + vbint(rem).width() + rem"}}},
		{Name: "reason-codes-moved-by-bulk-copy", Silent: true, Edits: []Edit{{"suback.go", "func (p *SubAck) payload(b []byte, i int) int {\n\tn := i\n\tfor j, _ := range p.reasonCodes {\n\t\ti += wuint8(p.reasonCodes[j]).fill(b, i)\n\t}\n\treturn i - n\n}\n\nfunc (p *SubAck) UnmarshalBinary(data []byte) error {\n\tb := &buffer{data: data}\n\tb.get(&p.packetID)\n\tb.getAny(p.propertyMap(), p.appendUserProperty)\n\n\tp.reasonCodes = make([]uint8, len(data)-b.i)\n\n\tfor i, _ := range p.reasonCodes {\n\t\tvar v wuint8\n\t\tb.get(&v)\n\t\tp.reasonCodes[i] = uint8(v)\n\t}\n\treturn b.err", "// payload writes the reason codes, one byte each.\nfunc (p *SubAck) payload(b []byte, i int) int {\n\tn := len(p.reasonCodes)\n\tif len(b) >= i+n {\n\t\tcopy(b[i:], p.reasonCodes)\n\t}\n\treturn n\n}\n\nfunc (p *SubAck) UnmarshalBinary(data []byte) error {\n\tb := &buffer{data: data}\n\tb.get(&p.packetID)\n\tb.getAny(p.propertyMap(), p.appendUserProperty)\n\n\t// the rest of the data is the list of reason codes, one byte each\n\trest := data[b.i:]\n\tp.reasonCodes = make([]uint8, len(rest))\n\tif b.err != nil {\n\t\treturn b.err\n\t}\n\tb.i += copy(p.reasonCodes, rest)\n\treturn nil"}, {"unsuback.go", "func (p *UnsubAck) payload(b []byte, i int) int {\n\tn := i\n\tfor j, _ := range p.reasonCodes {\n\t\ti += wuint8(p.reasonCodes[j]).fill(b, i)\n\t}\n\treturn i - n\n}\n\nfunc (p *UnsubAck) UnmarshalBinary(data []byte) error {\n\tb := &buffer{data: data}\n\tb.get(&p.packetID)\n\tb.getAny(p.propertyMap(), p.appendUserProperty)\n\n\tp.reasonCodes = make([]uint8, len(data)-b.i)\n\n\tfor i, _ := range p.reasonCodes {\n\t\tvar v wuint8\n\t\tb.get(&v)\n\t\tp.reasonCodes[i] = uint8(v)\n\t}\n\treturn b.err", "// payload writes the reason codes, one byte each.\nfunc (p *UnsubAck) payload(b []byte, i int) int {\n\tn := len(p.reasonCodes)\n\tif len(b) >= i+n {\n\t\tcopy(b[i:], p.reasonCodes)\n\t}\n\treturn n\n}\n\nfunc (p *UnsubAck) UnmarshalBinary(data []byte) error {\n\tb := &buffer{data: data}\n\tb.get(&p.packetID)\n\tb.getAny(p.propertyMap(), p.appendUserProperty)\n\n\t// the rest of the data is the list of reason codes, one byte each\n\trest := data[b.i:]\n\tp.reasonCodes = make([]uint8, len(rest))\n\tif b.err != nil {\n\t\treturn b.err\n\t}\n\tb.i += copy(p.reasonCodes, rest)\n\treturn nil"}}},
		{Name: "bulk-writer-skips-the-first-code", Rule: "R10.7", Where: "SubAck", Edits: []Edit{{"suback.go", "func (p *SubAck) payload(b []byte, i int) int {\n\tn := i\n\tfor j, _ := range p.reasonCodes {\n\t\ti += wuint8(p.reasonCodes[j]).fill(b, i)\n\t}\n\treturn i - n\n}\n\nfunc (p *SubAck) UnmarshalBinary(data []byte) error {\n\tb := &buffer{data: data}\n\tb.get(&p.packetID)\n\tb.getAny(p.propertyMap(), p.appendUserProperty)\n\n\tp.reasonCodes = make([]uint8, len(data)-b.i)\n\n\tfor i, _ := range p.reasonCodes {\n\t\tvar v wuint8\n\t\tb.get(&v)\n\t\tp.reasonCodes[i] = uint8(v)\n\t}\n\treturn b.err", "// payload writes the reason codes, one byte each.\nfunc (p *SubAck) payload(b []byte, i int) int {\n\tn := len(p.reasonCodes)\n\tif len(b) >= i+n {\n\t\tcopy(b[i:], p.reasonCodes[1:])\n\t}\n\treturn n\n}\n\nfunc (p *SubAck) UnmarshalBinary(data []byte) error {\n\tb := &buffer{data: data}\n\tb.get(&p.packetID)\n\tb.getAny(p.propertyMap(), p.appendUserProperty)\n\n\t// the rest of the data is the list of reason codes, one byte each\n\trest := data[b.i:]\n\tp.reasonCodes = make([]uint8, len(rest))\n\tif b.err != nil {\n\t\treturn b.err\n\t}\n\tb.i += copy(p.reasonCodes, rest)\n\treturn nil"}, {"unsuback.go", "func (p *UnsubAck) payload(b []byte, i int) int {\n\tn := i\n\tfor j, _ := range p.reasonCodes {\n\t\ti += wuint8(p.reasonCodes[j]).fill(b, i)\n\t}\n\treturn i - n\n}\n\nfunc (p *UnsubAck) UnmarshalBinary(data []byte) error {\n\tb := &buffer{data: data}\n\tb.get(&p.packetID)\n\tb.getAny(p.propertyMap(), p.appendUserProperty)\n\n\tp.reasonCodes = make([]uint8, len(data)-b.i)\n\n\tfor i, _ := range p.reasonCodes {\n\t\tvar v wuint8\n\t\tb.get(&v)\n\t\tp.reasonCodes[i] = uint8(v)\n\t}\n\treturn b.err", "// payload writes the reason codes, one byte each.\nfunc (p *UnsubAck) payload(b []byte, i int) int {\n\tn := len(p.reasonCodes)\n\tif len(b) >= i+n {\n\t\tcopy(b[i:], p.reasonCodes)\n\t}\n\treturn n\n}\n\nfunc (p *UnsubAck) UnmarshalBinary(data []byte) error {\n\tb := &buffer{data: data}\n\tb.get(&p.packetID)\n\tb.getAny(p.propertyMap(), p.appendUserProperty)\n\n\t// the rest of the data is the list of reason codes, one byte each\n\trest := data[b.i:]\n\tp.reasonCodes = make([]uint8, len(rest))\n\tif b.err != nil {\n\t\treturn b.err\n\t}\n\tb.i += copy(p.reasonCodes, rest)\n\treturn nil"}}},
		{Name: "fixed-header-written-by-a-helper-struct", Silent: true, Edits: []Edit{{"auth.go", "\ti += p.fixed.fill(b, i)      // firstByte header\n\ti += remainingLen.fill(b, i) // remaining length", "\ti += fixedHeader{p.fixed, remainingLen}.fill(b, i)"}, {"disconnect.go", "\ti += p.fixed.fill(b, i)      // firstByte header\n\ti += remainingLen.fill(b, i) // remaining length", "\ti += fixedHeader{p.fixed, remainingLen}.fill(b, i)"}, {"packet.go", "\treturn n + m, err\n}\n", "\treturn n + m, err\n}\n\n// fill writes the first byte and the remaining length at position\n// i. Returns the number of bytes that make up the fixed header.\nfunc (f fixedHeader) fill(b []byte, i int) int {\n\tn := i\n\ti += f.fixed.fill(b, i)        // firstByte header\n\ti += f.remainingLen.fill(b, i) // remaining length\n\treturn i - n\n}\n"}, {"pingreq.go", "\ti += p.fixed.fill(b, i)  // firstByte header\n\ti += vbint(0).fill(b, i) // remaining length none", "\ti += fixedHeader{p.fixed, 0}.fill(b, i) // remaining length none"}, {"pingresp.go", "\ti += p.fixed.fill(b, i)  // firstByte header\n\ti += vbint(0).fill(b, i) // remaining length none", "\ti += fixedHeader{p.fixed, 0}.fill(b, i) // remaining length none"}, {"puback.go", "\ti += p.fixed.fill(b, i)      // firstByte header\n\ti += remainingLen.fill(b, i) // remaining length", "\ti += fixedHeader{p.fixed, remainingLen}.fill(b, i)"}, {"pubcomp.go", "\ti += p.fixed.fill(b, i)      // firstByte header\n\ti += remainingLen.fill(b, i) // remaining length", "\ti += fixedHeader{p.fixed, remainingLen}.fill(b, i)"}, {"pubrec.go", "\ti += p.fixed.fill(b, i)      // firstByte header\n\ti += remainingLen.fill(b, i) // remaining length", "\ti += fixedHeader{p.fixed, remainingLen}.fill(b, i)"}, {"pubrel.go", "\ti += p.fixed.fill(b, i)      // firstByte header\n\ti += remainingLen.fill(b, i) // remaining length", "\ti += fixedHeader{p.fixed, remainingLen}.fill(b, i)"}, {"suback.go", "\ti += p.fixed.fill(b, i)      // firstByte header\n\ti += remainingLen.fill(b, i) // remaining length", "\ti += fixedHeader{p.fixed, remainingLen}.fill(b, i)"}, {"subscribe.go", "\ti += p.fixed.fill(b, i)      // firstByte header\n\ti += remainingLen.fill(b, i) // remaining length", "\ti += fixedHeader{p.fixed, remainingLen}.fill(b, i)"}, {"unsuback.go", "\ti += p.fixed.fill(b, i)      // firstByte header\n\ti += remainingLen.fill(b, i) // remaining length", "\ti += fixedHeader{p.fixed, remainingLen}.fill(b, i)"}, {"unsubscribe.go", "\ti += p.fixed.fill(b, i)      // firstByte header\n\ti += remainingLen.fill(b, i) // remaining length", "\ti += fixedHeader{p.fixed, remainingLen}.fill(b, i)"}}},
		{Name: "header-helper-given-a-length-one-too-large", Rule: "R10.7", Where: "Auth", Edits: []Edit{{"auth.go", "\ti += p.fixed.fill(b, i)      // firstByte header\n\ti += remainingLen.fill(b, i) // remaining length", "\ti += fixedHeader{p.fixed, remainingLen + 1}.fill(b, i)"}, {"disconnect.go", "\ti += p.fixed.fill(b, i)      // firstByte header\n\ti += remainingLen.fill(b, i) // remaining length", "\ti += fixedHeader{p.fixed, remainingLen}.fill(b, i)"}, {"packet.go", "\treturn n + m, err\n}\n", "\treturn n + m, err\n}\n\n// fill writes the first byte and the remaining length at position\n// i. Returns the number of bytes that make up the fixed header.\nfunc (f fixedHeader) fill(b []byte, i int) int {\n\tn := i\n\ti += f.fixed.fill(b, i)        // firstByte header\n\ti += f.remainingLen.fill(b, i) // remaining length\n\treturn i - n\n}\n"}, {"pingreq.go", "\ti += p.fixed.fill(b, i)  // firstByte header\n\ti += vbint(0).fill(b, i) // remaining length none", "\ti += fixedHeader{p.fixed, 0}.fill(b, i) // remaining length none"}, {"pingresp.go", "\ti += p.fixed.fill(b, i)  // firstByte header\n\ti += vbint(0).fill(b, i) // remaining length none", "\ti += fixedHeader{p.fixed, 0}.fill(b, i) // remaining length none"}, {"puback.go", "\ti += p.fixed.fill(b, i)      // firstByte header\n\ti += remainingLen.fill(b, i) // remaining length", "\ti += fixedHeader{p.fixed, remainingLen}.fill(b, i)"}, {"pubcomp.go", "\ti += p.fixed.fill(b, i)      // firstByte header\n\ti += remainingLen.fill(b, i) // remaining length", "\ti += fixedHeader{p.fixed, remainingLen}.fill(b, i)"}, {"pubrec.go", "\ti += p.fixed.fill(b, i)      // firstByte header\n\ti += remainingLen.fill(b, i) // remaining length", "\ti += fixedHeader{p.fixed, remainingLen}.fill(b, i)"}, {"pubrel.go", "\ti += p.fixed.fill(b, i)      // firstByte header\n\ti += remainingLen.fill(b, i) // remaining length", "\ti += fixedHeader{p.fixed, remainingLen}.fill(b, i)"}, {"suback.go", "\ti += p.fixed.fill(b, i)      // firstByte header\n\ti += remainingLen.fill(b, i) // remaining length", "\ti += fixedHeader{p.fixed, remainingLen}.fill(b, i)"}, {"subscribe.go", "\ti += p.fixed.fill(b, i)      // firstByte header\n\ti += remainingLen.fill(b, i) // remaining length", "\ti += fixedHeader{p.fixed, remainingLen}.fill(b, i)"}, {"unsuback.go", "\ti += p.fixed.fill(b, i)      // firstByte header\n\ti += remainingLen.fill(b, i) // remaining length", "\ti += fixedHeader{p.fixed, remainingLen}.fill(b, i)"}, {"unsubscribe.go", "\ti += p.fixed.fill(b, i)      // firstByte header\n\ti += remainingLen.fill(b, i) // remaining length", "\ti += fixedHeader{p.fixed, remainingLen}.fill(b, i)"}}},
		{Name: "returns-len-instead-of-n", Rule: "R10.1", Where: "(*PingReq).WriteTo", Edits: []Edit{{"pingreq.go", "\tn, err := w.Write(b)\n\treturn int64(n), err", "\t_, err := w.Write(b)\n\treturn int64(len(b)), err"}}},
		{Name: "header-and-body-written-separately", Rule: "R10.1", Where: "(*PingResp).WriteTo", Edits: []Edit{{"pingresp.go", "\tn, err := w.Write(b)\n\treturn int64(n), err", "\tn, err := w.Write(b[:1])\n\tif err != nil {\n\t\treturn int64(n), err\n\t}\n\tm, err := w.Write(b[1:])\n\treturn int64(n + m), err"}}},
		{Name: "size-method-adds-the-parts", Silent: true, Edits: []Edit{{"connack.go", "\tb := make([]byte, p.fill(_LEN, 0))\n\tp.fill(b, 0)\n\tn, err := w.Write(b)\n\treturn int64(n), err\n}\n\nfunc (p *ConnAck) fill(", "\tb := make([]byte, p.width())\n\tp.fill(b, 0)\n\tn, err := w.Write(b)\n\treturn int64(n), err\n}\n\nfunc (p *ConnAck) fill("}, {"connack.go", "func (p *ConnAck) width() int {\n\treturn p.fill(_LEN, 0)\n}", "func (p *ConnAck) width() int {\n\trem := vbint(p.variableHeader(_LEN, 0))\n\treturn p.fixed.width() + rem.width() + int(rem)\n}"}}},
		{Name: "size-method-one-byte-short", Rule: "R10.1", Where: "(*ConnAck).WriteTo", Edits: []Edit{{"connack.go", "\tb := make([]byte, p.fill(_LEN, 0))\n\tp.fill(b, 0)\n\tn, err := w.Write(b)\n\treturn int64(n), err\n}\n\nfunc (p *ConnAck) fill(", "\tb := make([]byte, p.width())\n\tp.fill(b, 0)\n\tn, err := w.Write(b)\n\treturn int64(n), err\n}\n\nfunc (p *ConnAck) fill("}, {"connack.go", "func (p *ConnAck) width() int {\n\treturn p.fill(_LEN, 0)\n}", "func (p *ConnAck) width() int {\n\trem := vbint(p.variableHeader(_LEN, 0))\n\treturn p.fixed.width() + rem.width() + int(rem) - 1\n}"}}},
		{Name: "size-method-assumes-a-one-byte-length-field", Rule: "R10.1", Where: "(*ConnAck).WriteTo", Edits: []Edit{{"connack.go", "\tb := make([]byte, p.fill(_LEN, 0))\n\tp.fill(b, 0)\n\tn, err := w.Write(b)\n\treturn int64(n), err\n}\n\nfunc (p *ConnAck) fill(", "\tb := make([]byte, p.width())\n\tp.fill(b, 0)\n\tn, err := w.Write(b)\n\treturn int64(n), err\n}\n\nfunc (p *ConnAck) fill("}, {"connack.go", "func (p *ConnAck) width() int {\n\treturn p.fill(_LEN, 0)\n}", "func (p *ConnAck) width() int {\n\trem := vbint(p.variableHeader(_LEN, 0))\n\treturn p.fixed.width() + 1 + int(rem)\n}"}}},
		{Name: "remaining-length-in-a-two-path-helper", Silent: true, Edits: []Edit{{"publish.go", "func (p *Publish) WriteTo(w io.Writer) (int64, error) {\n\tb := make([]byte, p.fill(_LEN, 0))\n\tp.fill(b, 0)\n\tn, err := w.Write(b)\n\treturn int64(n), err\n}\n\nfunc (p *Publish) width() int {\n\treturn p.fill(_LEN, 0)\n}\n\nfunc (p *Publish) fill(b []byte, i int) int {\n\tremainingLen := vbint(p.variableHeader(_LEN, 0))\n\n\tif len(p.payload) > 0 {\n\t\tremainingLen += vbint(p.payload.fill(_LEN, 0))\n\t}\n\n\ti += p.fixed.fill(b, i)      // firstByte header\n\ti += remainingLen.fill(b, i) // remaining length\n\ti += p.variableHeader(b, i)  // variable header\n\tif len(p.payload) > 0 {\n\t\ti += p.payload.fill(b, i) // payload\n\t}\n\n\treturn i\n}\nfunc (p *Publish) variableHeader(b []byte, i int) int {\n\tn := i\n\n\ti += p.topicName.fill(b, i)\n\tif v := p.QoS(); v == 1 || v == 2 {\n\t\ti += p.packetID.fill(b, i)\n\t}\n\ti += vbint(p.properties(_LEN, 0)).fill(b, i) // Properties len\n\ti += p.properties(b, i)                      // Properties\n\n\treturn i - n\n}\n\n", "func (p *Publish) WriteTo(w io.Writer) (int64, error) {\n\tb := make([]byte, p.width())\n\tp.fill(b, 0)\n\tn, err := w.Write(b)\n\treturn int64(n), err\n}\n\nfunc (p *Publish) width() int {\n\treturn p.fill(_LEN, 0)\n}\n\n// remainingLen returns the number of bytes following the fixed\n// header, i.e. the variable header and the payload.\nfunc (p *Publish) remainingLen() vbint {\n\tn := vbint(p.variableHeader(_LEN, 0))\n\tif p.hasPayload() {\n\t\tn += vbint(p.payload.width())\n\t}\n\treturn n\n}\n\nfunc (p *Publish) hasPayload() bool { return len(p.payload) > 0 }\n\nfunc (p *Publish) fill(b []byte, i int) int {\n\tremainingLen := p.remainingLen()\n\n\ti += p.fixed.fill(b, i)      // firstByte header\n\ti += remainingLen.fill(b, i) // remaining length\n\ti += p.variableHeader(b, i)  // variable header\n\tif p.hasPayload() {\n\t\ti += p.payload.fill(b, i) // payload\n\t}\n\n\treturn i\n}\n\nfunc (p *Publish) variableHeader(b []byte, i int) int {\n\tn := i\n\tpropl := vbint(p.properties(_LEN, 0))\n\n\ti += p.topicName.fill(b, i)\n\tswitch p.QoS() {\n\tcase 1, 2:\n\t\ti += p.packetID.fill(b, i)\n\t}\n\ti += propl.fill(b, i)   // Properties len\n\ti += p.properties(b, i) // Properties\n\n\treturn i - n\n}\n\n"}}},
		{Name: "two-path-helper-forgets-a-one-byte-payload", Rule: "R10.7", Where: "Publish", Edits: []Edit{{"publish.go", "func (p *Publish) WriteTo(w io.Writer) (int64, error) {\n\tb := make([]byte, p.fill(_LEN, 0))\n\tp.fill(b, 0)\n\tn, err := w.Write(b)\n\treturn int64(n), err\n}\n\nfunc (p *Publish) width() int {\n\treturn p.fill(_LEN, 0)\n}\n\nfunc (p *Publish) fill(b []byte, i int) int {\n\tremainingLen := vbint(p.variableHeader(_LEN, 0))\n\n\tif len(p.payload) > 0 {\n\t\tremainingLen += vbint(p.payload.fill(_LEN, 0))\n\t}\n\n\ti += p.fixed.fill(b, i)      // firstByte header\n\ti += remainingLen.fill(b, i) // remaining length\n\ti += p.variableHeader(b, i)  // variable header\n\tif len(p.payload) > 0 {\n\t\ti += p.payload.fill(b, i) // payload\n\t}\n\n\treturn i\n}\nfunc (p *Publish) variableHeader(b []byte, i int) int {\n\tn := i\n\n\ti += p.topicName.fill(b, i)\n\tif v := p.QoS(); v == 1 || v == 2 {\n\t\ti += p.packetID.fill(b, i)\n\t}\n\ti += vbint(p.properties(_LEN, 0)).fill(b, i) // Properties len\n\ti += p.properties(b, i)                      // Properties\n\n\treturn i - n\n}\n\n", "func (p *Publish) WriteTo(w io.Writer) (int64, error) {\n\tb := make([]byte, p.width())\n\tp.fill(b, 0)\n\tn, err := w.Write(b)\n\treturn int64(n), err\n}\n\nfunc (p *Publish) width() int {\n\treturn p.fill(_LEN, 0)\n}\n\n// remainingLen returns the number of bytes following the fixed\n// header, i.e. the variable header and the payload.\nfunc (p *Publish) remainingLen() vbint {\n\tn := vbint(p.variableHeader(_LEN, 0))\n\tif p.hasPayload() && len(p.payload) > 1 {\n\t\tn += vbint(p.payload.width())\n\t}\n\treturn n\n}\n\nfunc (p *Publish) hasPayload() bool { return len(p.payload) > 0 }\n\nfunc (p *Publish) fill(b []byte, i int) int {\n\tremainingLen := p.remainingLen()\n\n\ti += p.fixed.fill(b, i)      // firstByte header\n\ti += remainingLen.fill(b, i) // remaining length\n\ti += p.variableHeader(b, i)  // variable header\n\tif p.hasPayload() {\n\t\ti += p.payload.fill(b, i) // payload\n\t}\n\n\treturn i\n}\n\nfunc (p *Publish) variableHeader(b []byte, i int) int {\n\tn := i\n\tpropl := vbint(p.properties(_LEN, 0))\n\n\ti += p.topicName.fill(b, i)\n\tswitch p.QoS() {\n\tcase 1, 2:\n\t\ti += p.packetID.fill(b, i)\n\t}\n\ti += propl.fill(b, i)   // Properties len\n\ti += p.properties(b, i) // Properties\n\n\treturn i - n\n}\n\n"}}},
		{Name: "string-size-by-concatenation-is-not-the-dry-run", Rule: "R10.4", Where: "(*SubAck).String", Edits: []Edit{{"suback.go", ")\n\n// NewSubAck returns a suback packet without reason codes.\nfunc NewSubAck() *SubAck {\n\treturn &SubAck{fixed: bits(SUBACK)}\n}\n\ntype SubAck struct {\n\tfixed    bits\n\tpacketID wuint16\n\tUserProperties\n\n\treasonString wstring\n\treasonCodes  []uint8\n}\n\nfunc (p *SubAck) String() string {\n\treturn fmt.Sprintf(\"%s p%v %v bytes\",\n\t\tfirstByte(p.fixed).String(),\n\t\tp.packetID,\n\t\tp.width(),\n\t)", "\t\"strconv\"\n)\n\n// NewSubAck returns a suback packet without reason codes.\nfunc NewSubAck() *SubAck {\n\treturn &SubAck{fixed: bits(SUBACK)}\n}\n\ntype SubAck struct {\n\tfixed    bits\n\tpacketID wuint16\n\tUserProperties\n\n\treasonString wstring\n\treasonCodes  []uint8\n}\n\nfunc (p *SubAck) String() string {\n\treturn firstByte(p.fixed).String() + \" p\" + strconv.Itoa(int(p.packetID)) +\n\t\t\" \" + strconv.Itoa(2+p.variableHeader(_LEN, 0)) + \" bytes\""}}},
		{Name: "encoder-takes-another-path-at-offset-0", Rule: "R10.3", Where: "properties", Edits: []Edit{{"userprop.go", "func (p *UserProperties) properties(b []byte, i int) int {", "func (p *UserProperties) properties(b []byte, i int) int {\n\tif i == 0 {\n\t\t// only the length is wanted: one identifier byte and the\n\t\t// key value pair for each property\n\t\tvar n int\n\t\tfor _, v := range *p {\n\t\t\tn += UserProperty.width() + v.width()\n\t\t}\n\t\treturn n\n\t}"}}},
		{Name: "connect-size-by-parts-with-the-will", Silent: true, Edits: []Edit{{"connect.go", "\tb := make([]byte, p.fill(_LEN, 0))\n\tp.fill(b, 0)\n\n\tn, err := w.Write(b)\n\treturn int64(n), err\n}\n\nfunc (p *Connect) fill(", "\tb := make([]byte, p.width())\n\tp.fill(b, 0)\n\n\tn, err := w.Write(b)\n\treturn int64(n), err\n}\n\n// width sums up the parts instead of running the encoder an extra time\nfunc (p *Connect) width() int {\n\trem := p.variableHeader(_LEN, 0) + p.payloadWidth()\n\treturn p.fixed.width() + vbint(rem).width() + rem\n}\n\nfunc (p *Connect) payloadWidth() int {\n\tn := p.clientID.width()\n\tif p.flags.Has(WillFlag) {\n\t\tw := p.willDelayInterval.fillProp(_LEN, 0, WillDelayInterval)\n\t\tw += p.will.payloadFormat.fillProp(_LEN, 0, PayloadFormatIndicator)\n\t\tw += p.will.messageExpiryInterval.fillProp(_LEN, 0, MessageExpiryInterval)\n\t\tw += p.will.contentType.fillProp(_LEN, 0, ContentType)\n\t\tw += p.will.responseTopic.fillProp(_LEN, 0, ResponseTopic)\n\t\tw += p.will.correlationData.fillProp(_LEN, 0, CorrelationData)\n\t\tw += p.will.UserProperties.properties(_LEN, 0)\n\t\tn += willLenWidth(w) + w + p.will.topicName.width() + p.willPayload.width()\n\t}\n\tif p.flags.Has(UsernameFlag) {\n\t\tn += p.username.width()\n\t}\n\tif p.flags.Has(PasswordFlag) {\n\t\tn += p.password.width()\n\t}\n\treturn n\n}\n\nfunc willLenWidth(n int) int {\n\tswitch {\n\tcase n < 128:\n\t\treturn 1\n\tcase n < 16384:\n\t\treturn 2\n\tcase n < 2097152:\n\t\treturn 3\n\t}\n\treturn 4\n}\n\nfunc (p *Connect) fill("}}},
		{Name: "adv4-D-will-property-length-threshold-mistyped", Rule: "R10.1", Where: "(*Connect).WriteTo", Edits: []Edit{{"connect.go", "\tb := make([]byte, p.fill(_LEN, 0))\n\tp.fill(b, 0)\n\n\tn, err := w.Write(b)\n\treturn int64(n), err\n}\n\nfunc (p *Connect) fill(", "\tb := make([]byte, p.width())\n\tp.fill(b, 0)\n\n\tn, err := w.Write(b)\n\treturn int64(n), err\n}\n\n// width sums up the parts instead of running the encoder an extra time\nfunc (p *Connect) width() int {\n\trem := p.variableHeader(_LEN, 0) + p.payloadWidth()\n\treturn p.fixed.width() + vbint(rem).width() + rem\n}\n\nfunc (p *Connect) payloadWidth() int {\n\tn := p.clientID.width()\n\tif p.flags.Has(WillFlag) {\n\t\tw := p.willDelayInterval.fillProp(_LEN, 0, WillDelayInterval)\n\t\tw += p.will.payloadFormat.fillProp(_LEN, 0, PayloadFormatIndicator)\n\t\tw += p.will.messageExpiryInterval.fillProp(_LEN, 0, MessageExpiryInterval)\n\t\tw += p.will.contentType.fillProp(_LEN, 0, ContentType)\n\t\tw += p.will.responseTopic.fillProp(_LEN, 0, ResponseTopic)\n\t\tw += p.will.correlationData.fillProp(_LEN, 0, CorrelationData)\n\t\tw += p.will.UserProperties.properties(_LEN, 0)\n\t\tn += willLenWidth(w) + w + p.will.topicName.width() + p.willPayload.width()\n\t}\n\tif p.flags.Has(UsernameFlag) {\n\t\tn += p.username.width()\n\t}\n\tif p.flags.Has(PasswordFlag) {\n\t\tn += p.password.width()\n\t}\n\treturn n\n}\n\nfunc willLenWidth(n int) int {\n\tswitch {\n\tcase n < 128:\n\t\treturn 1\n\tcase n < 16834:\n\t\treturn 2\n\tcase n < 2097152:\n\t\treturn 3\n\t}\n\treturn 4\n}\n\nfunc (p *Connect) fill("}}},
		{Name: "size-method-with-a-mistyped-threshold", Rule: "R10.1", Where: "(*Publish).WriteTo", Edits: []Edit{{"publish.go", "\tb := make([]byte, p.fill(_LEN, 0))\n\tp.fill(b, 0)\n\tn, err := w.Write(b)\n\treturn int64(n), err\n}\n\nfunc (p *Publish) width() int {\n\treturn p.fill(_LEN, 0)", "\tb := make([]byte, p.width())\n\tp.fill(b, 0)\n\tn, err := w.Write(b)\n\treturn int64(n), err\n}\n\n// width returns the size of the encoded packet. It is used by both\n// String and WriteTo, so the size is summed up from the parts\n// instead of running the entire encoder an extra time.\nfunc (p *Publish) width() int {\n\trem := p.variableHeader(_LEN, 0) + p.payload.width()\n\treturn p.fixed.width() + lenWidth(rem) + rem\n}\n\n// lenWidth returns the number of bytes a remaining length of n\n// occupies, see vbint.fill\nfunc lenWidth(n int) int {\n\tswitch {\n\tcase n < 128:\n\t\treturn 1\n\tcase n < 16384:\n\t\treturn 2\n\tcase n < 2097512:\n\t\treturn 3\n\t}\n\treturn 4"}}},
		{Name: "two-path-remaining-length-off-at-128-bytes-of-properties", Rule: "R10.7", Where: "ConnAck", Edits: []Edit{{"connack.go", "\ti += p.fixed.fill(b, i)                          // firstByte header\n\ti += vbint(p.variableHeader(_LEN, 0)).fill(b, i) // remaining length\n\ti += p.variableHeader(b, i)                      // variable header\n\treturn i", "\ti += p.fixed.fill(b, i)          // firstByte header\n\ti += p.remainingLen().fill(b, i) // remaining length\n\ti += p.variableHeader(b, i)      // variable header\n\treturn i\n}\n\n// remainingLen returns the size of the variable header. The encoder\n// is not used for this as it would calculate the properties twice.\nfunc (p *ConnAck) remainingLen() vbint {\n\tpropl := p.properties(_LEN, 0)\n\t// acknowledge flags, reason code and one byte property length\n\tn := 3 + propl\n\tif propl > 128 {\n\t\t// property length needs more than one byte\n\t\tn += vbint(propl).width() - 1\n\t}\n\treturn vbint(n)"}}},
		{Name: "buffer-sized-by-other-call", Rule: "R10.1", Where: "(*ConnAck).WriteTo", Edits: []Edit{{"connack.go", "\tb := make([]byte, p.fill(_LEN, 0))\n\tp.fill(b, 0)\n\tn, err := w.Write(b)", "\tb := make([]byte, p.variableHeader(_LEN, 0)+2)\n\tp.fill(b, 0)\n\tn, err := w.Write(b)"}}},
		{Name: "emission-width-not-added", Rule: "R10.2", Where: "(*ConnAck).variableHeader", Edits: []Edit{{"connack.go", "\ti += p.reasonCode.fill(b, i)\n\ti += vbint(p.properties(_LEN, 0)).fill(b, i) // Properties len", "\tp.reasonCode.fill(b, i)\n\ti += vbint(p.properties(_LEN, 0)).fill(b, i) // Properties len"}}},
		{Name: "emission-at-stale-offset", Rule: "R10.2", Where: "(*Auth).properties", Edits: []Edit{{"auth.go", "\ti += p.authData.fillProp(b, i, AuthData)", "\ti += p.authData.fillProp(b, n, AuthData)"}}},
		{Name: "string-size-computed-in-a-shared-helper", Rule: "R10.4", Where: "(*PubAck).String", Edits: []Edit{{"puback.go", "\treturn withReason(p, fmt.Sprintf(\"%s p%v %v bytes\",\n\t\tfirstByte(p.fixed).String(),\n\t\tp.packetID,\n\t\tp.width(),\n\t))\n}", "\treturn withReason(p, ackString(p.fixed, p.packetID, p.variableHeader(_LEN, 0)))\n}\n\nfunc ackString(fixed bits, id wuint16, remaining int) string {\n\treturn fmt.Sprintf(\"%s p%v %v bytes\", firstByte(fixed).String(), id, 2+remaining)\n}"}}},
		{Name: "string-size-passed-to-a-helper-unchanged", Silent: true, Edits: []Edit{{"puback.go", "\treturn withReason(p, fmt.Sprintf(\"%s p%v %v bytes\",\n\t\tfirstByte(p.fixed).String(),\n\t\tp.packetID,\n\t\tp.width(),\n\t))\n}", "\treturn withReason(p, ackString(p.fixed, p.packetID, p.width()))\n}\n\nfunc ackString(fixed bits, id wuint16, size int) string {\n\treturn fmt.Sprintf(\"%s p%v %v bytes\", firstByte(fixed).String(), id, size)\n}"}}},
		{Name: "remaining-length-helper-counts-packet-id-for-qos3", Rule: "R10.7", Where: "Publish", Edits: []Edit{
			{"publish.go", "\tremainingLen := vbint(p.variableHeader(_LEN, 0))\n\n\tif len(p.payload) > 0 {\n\t\tremainingLen += vbint(p.payload.fill(_LEN, 0))\n\t}\n", "\tremainingLen := p.remainingLen()\n"},
			{"publish.go", "func (p *Publish) variableHeader(b []byte, i int) int {", "func (p *Publish) remainingLen() vbint {\n\tpropl := p.properties(_LEN, 0)\n\tn := p.topicName.width()\n\tif p.QoS() > 0 {\n\t\tn += p.packetID.width()\n\t}\n\tn += vbint(propl).width() + propl\n\tn += p.payload.width()\n\treturn vbint(n)\n}\n\nfunc (p *Publish) variableHeader(b []byte, i int) int {"}}},
		{Name: "sub-encoder-returns-the-offset-on-its-empty-path", Rule: "R10.2", Where: "(*Unsubscribe).payload#return-convention", Edits: []Edit{{"unsubscribe.go", "func (p *Unsubscribe) payload(b []byte, i int) int {\n", "func (p *Unsubscribe) payload(b []byte, i int) int {\n\tif len(p.filters) == 0 {\n\t\treturn i\n\t}\n"}}},
		{Name: "packet-encoder-refuses-by-returning-zero", Rule: "R10.2", Where: "(*Unsubscribe).fill#return-convention", Edits: []Edit{{"unsubscribe.go", "func (p *Unsubscribe) fill(b []byte, i int) int {\n", "func (p *Unsubscribe) fill(b []byte, i int) int {\n\tif len(p.filters) == 0 {\n\t\treturn 0\n\t}\n"}}},
		{Name: "string-prints-other-size", Rule: "R10.4", Where: "(*SubAck).String", Edits: []Edit{{"suback.go", "\t\tfirstByte(p.fixed).String(),\n\t\tp.packetID,\n\t\tp.width(),\n\t)\n}\n\nfunc (p *SubAck) dump", "\t\tfirstByte(p.fixed).String(),\n\t\tp.packetID,\n\t\tp.variableHeader(_LEN, 0),\n\t)\n}\n\nfunc (p *SubAck) dump"}}},
		{Name: "undefined-writes-first", Rule: "R10.5", Where: "(*Undefined).WriteTo", Edits: []Edit{{"undefined.go", "\treturn 0, fmt.Errorf(\"cannot write %T\", p)", "\tw.Write(p.data)\n\treturn 0, fmt.Errorf(\"cannot write %T\", p)"}}},
		{Name: "undefined-returns-nil", Rule: "R10.5", Where: "(*Undefined).WriteTo", Edits: []Edit{{"undefined.go", "\treturn 0, fmt.Errorf(\"cannot write %T\", p)", "\treturn 0, nil"}}},
		{Name: "primitive-width-differs-on-short-buffer", Rule: "R10.3", Where: "(wuint16).fill", Edits: []Edit{{"wiretypes.go", "\tif len(data) >= i+2 {\n\t\tbinary.BigEndian.PutUint16(data[i:], uint16(v))\n\t}\n\treturn 2", "\tif len(data) >= i+2 {\n\t\tbinary.BigEndian.PutUint16(data[i:], uint16(v))\n\t\treturn 2\n\t}\n\treturn 0"}}},
		{Name: "u32-guard-one-too-strong", Rule: "R10.6", Where: "(wuint32).fill", Edits: []Edit{{"wiretypes.go", "\tif len(data) >= i+v.width() {\n\t\tbinary.BigEndian.PutUint32", "\tif len(data) > i+v.width() {\n\t\tbinary.BigEndian.PutUint32"}}},
		{Name: "vbi-byte-guard-off-by-one", Rule: "R10.6", Where: "(vbint).fill", Edits: []Edit{{"wiretypes.go", "\t\tif i < len(data) {\n\t\t\tdata[i] = encodedByte", "\t\tif i+1 < len(data) {\n\t\t\tdata[i] = encodedByte"}}},
		{Name: "guard-written-the-other-way-round", Silent: true, Edits: []Edit{{"wiretypes.go", "\tif len(data) >= i+2 {\n\t\tbinary.BigEndian.PutUint16(data[i:], uint16(v))\n\t}\n\treturn 2", "\tif i+2 > len(data) {\n\t\treturn 2\n\t}\n\tbinary.BigEndian.PutUint16(data[i:], uint16(v))\n\treturn 2"}}},
		{Name: "one-byte-payload-not-counted", Rule: "R10.7", Where: "Publish", Edits: []Edit{{"publish.go", "\tif len(p.payload) > 0 {\n\t\tremainingLen += vbint(p.payload.fill(_LEN, 0))", "\tif len(p.payload) > 1 {\n\t\tremainingLen += vbint(p.payload.fill(_LEN, 0))"}}},
		{Name: "payload-thresholds-disagree-beyond-sample-lengths", Rule: "R10.8", Where: "(*Publish).fill#length-prefixes", Edits: []Edit{
			{"publish.go", "\tif len(p.payload) > 0 {\n\t\tremainingLen += vbint(p.payload.fill(_LEN, 0))", "\tif len(p.payload) > 100 {\n\t\tremainingLen += vbint(p.payload.fill(_LEN, 0))"},
			{"publish.go", "\tif len(p.payload) > 0 {\n\t\ti += p.payload.fill(b, i) // payload", "\tif len(p.payload) > 200 {\n\t\ti += p.payload.fill(b, i) // payload"}}},
		{Name: "property-length-counts-other-receiver", Rule: "R10.8", Where: "(*Connect).payload#length-prefixes", Edits: []Edit{{"connect.go", "\t\ti += vbint(properties(_LEN, 0)).fill(b, i)", "\t\ti += vbint(p.will.UserProperties.properties(_LEN, 0)).fill(b, i)"}}},
		{Name: "payload-guards-spelled-differently", Silent: true, Edits: []Edit{{"publish.go", "\tif len(p.payload) > 0 {\n\t\ti += p.payload.fill(b, i) // payload", "\tif len(p.payload) != 0 {\n\t\ti += p.payload.fill(b, i) // payload"}}},
		{Name: "delegated-helper-returns-buffer-length", Rule: "R10.1", Where: "(*PingReq).WriteTo", Edits: []Edit{
			{"pingreq.go", "\tb := make([]byte, p.width())\n\tp.fill(b, 0)\n\tn, err := w.Write(b)\n\treturn int64(n), err", "\treturn writeAllX(w, p)"},
			{"pingreq.go", "func NewPingReq() *PingReq {", "type fillerX interface{ fill([]byte, int) int }\n\nfunc writeAllX(w io.Writer, p fillerX) (int64, error) {\n\tb := make([]byte, p.fill(_LEN, 0))\n\tp.fill(b, 0)\n\t_, err := w.Write(b)\n\treturn int64(len(b)), err\n}\n\nfunc NewPingReq() *PingReq {"}}},
		{Name: "delegated-helper-with-the-same-shape", Silent: true, Edits: []Edit{
			{"pingreq.go", "\tb := make([]byte, p.width())\n\tp.fill(b, 0)\n\tn, err := w.Write(b)\n\treturn int64(n), err", "\treturn writeAllX(w, p)"},
			{"pingreq.go", "func NewPingReq() *PingReq {", "type fillerX interface{ fill([]byte, int) int }\n\nfunc writeAllX(w io.Writer, p fillerX) (int64, error) {\n\tb := make([]byte, p.fill(_LEN, 0))\n\tp.fill(b, 0)\n\tn, err := w.Write(b)\n\treturn int64(n), err\n}\n\nfunc NewPingReq() *PingReq {"}}},
		{Name: "undefined-reports-a-byte", Rule: "R10.5", Where: "(*Undefined).WriteTo", Edits: []Edit{{"undefined.go", "\treturn 0, fmt.Errorf(\"cannot write %T\", p)", "\treturn 1, fmt.Errorf(\"cannot write %T\", p)"}}},
		{Name: "raw-payload-never-copied", Rule: "R10.2", Where: "(rawdata).fill#writes", Edits: []Edit{{"wiretypes.go", "\tif len(data) >= i+v.width() {\n\t\treturn copy(data[i:], []byte(v))\n\t}\n\treturn v.width()", "\treturn v.width()"}}},
		{Name: "explicit-error-branch", Silent: true, Edits: []Edit{{"pingreq.go", "\tn, err := w.Write(b)\n\treturn int64(n), err", "\tn, err := w.Write(b)\n\tif err != nil {\n\t\treturn int64(n), err\n\t}\n\treturn int64(n), nil"}}},
		{Name: "dry-run-hoisted-into-local", Silent: true, Edits: []Edit{{"connack.go", "\tb := make([]byte, p.fill(_LEN, 0))\n\tp.fill(b, 0)\n\tn, err := w.Write(b)", "\tsize := p.fill(_LEN, 0)\n\tb := make([]byte, size)\n\tp.fill(b, 0)\n\tn, err := w.Write(b)"}}},
	}})
}

// nilSliceGlobal: a package-level []byte that is never assigned (the dry-run
// buffer).
func (p *Prog) isNilSliceLoad(v ssa.Value) bool {
	ld, ok := v.(*ssa.UnOp)
	if !ok || ld.Op != token.MUL {
		return false
	}
	g, ok := ld.X.(*ssa.Global)
	if !ok {
		return false
	}
	e := p.allEffects()
	return e.nilGlobals[g] && isByteSlice(ld.Type())
}

// dryRunCall: v is F(recv, <nil slice>, 0) for a fill-family method F, possibly
// through a tiny accessor (width()) that returns exactly that.
func (p *Prog) dryRunCall(v ssa.Value, depth int) (*ssa.Function, ssa.Value, bool) {
	call, ok := v.(*ssa.Call)
	if !ok || depth > 2 {
		return nil, nil, false
	}
	sc := call.Call.StaticCallee()
	if sc == nil || sc.Blocks == nil {
		return nil, nil, false
	}
	args := call.Call.Args
	if isFillFamily(sc) && sc.Signature.Recv() != nil && len(args) >= 3 {
		if k, isC := constInt(args[2]); isC && k == 0 && p.isNilSliceLoad(args[1]) {
			return sc, args[0], true
		}
		return nil, nil, false
	}
	// accessor: single block returning a dry-run call on its own receiver
	if len(sc.Blocks) == 1 && len(args) == 1 && sc.Signature.Recv() != nil {
		if ret, ok := terminator(sc.Blocks[0]).(*ssa.Return); ok && len(ret.Results) == 1 {
			if f, r, ok := p.dryRunCall(ret.Results[0], depth+1); ok && r == ssa.Value(sc.Params[0]) {
				return f, args[0], true
			}
		}
	}
	// a size method of a packet type that computes the frame's size in another way: same number as the dry run
	// of the type's encoder on every abstract packet state
	if len(args) == 1 && depth == 0 {
		if f, _ := p.sizeByEvaluation(sc); f != nil {
			return f, args[0], true
		}
	}
	return nil, nil, false
}

func checkC10(p *Prog, c *Check) {
	c.Rule("R10.1", "every WriteTo allocates one buffer whose size is the dry run fill(nil-slice, 0) of the receiver, fills it with the same function on the same receiver from offset 0, hands exactly that buffer to the writer in exactly one Write on every path, uses the writer for nothing else and returns int64(n), err of that very call")
	c.Rule("R10.2", "in every fill-family function each emission is made at the offset i_entry + (sum of the results of all emissions before it) and the function returns that sum (or i_entry + sum): frames are contiguous and sizes add up")
	c.Rule("R10.6", "a size guard in an encoder primitive skips its writes only if the buffer is too short for them (len(buf) < offset + extent): every byte counted by the dry run is written by the real run")
	c.Rule("R10.3", "the dry run equals the real run: no fill-family function branches on the buffer except a primitive's own `len(buf) >= i + width` guard, and a primitive returns the same width on both sides of that guard")
	c.Rule("R10.7", "for every abstract packet state (well formed or not) the encoder writes the first byte, then a remaining-length field whose value is exactly the number of bytes written after it: the buffer handed to the writer is 1 + size of the remaining-length field + remaining length bytes")
	c.Rule("R10.8", "length prefixes, for all packet states: in every fill-family function, on every feasible path, the dry-run calls summed into a length prefix are exactly the emissions it covers (remaining length: everything after it; property length: the emissions immediately following), same callee on the same receiver")
	c.Rule("R10.4", "the size printed by every String() is the dry-run size of the same receiver")
	c.Rule("R10.5", "the packet type that cannot be serialised returns a non-nil error on every path and never touches the writer")
	c.Explanation = "WriteTo's shape and result flow are read off the SSA form (value identity of the buffer and of the Write call's results). Offset threading is checked with a ghost counter over the emissions of each fill-family function, branch by branch. Together with C02's length-prefix rule this gives: returned count = bytes handed to the writer = 1 + size of the remaining-length field + remaining length = the size String prints."
	c.Trusted = []string{"go/types + go/ssa (x/tools v0.29.0) faithful IR", "io.Writer contract: Write returns the number of bytes accepted and a non-nil error if that is less than offered"}
	c.NotDecided = []string{"behaviour of caller-supplied writers beyond the io.Writer contract", "the remaining-length equation for packet states outside the abstract state generator (R10.7 evaluates the encoder on representative states; R10.2 covers the offset arithmetic for all states)"}
	roots := p.Roots()
	enc := append([]*ssa.Function(nil), roots.Encode...)
	sort.Slice(enc, func(i, j int) bool { return qname(enc[i]) < qname(enc[j]) })
	refusing := 0
	fillOf := map[string]*ssa.Function{} // receiver type -> fill function used by WriteTo
	for _, fn := range enc {
		c.Fn(qname(fn))
		if f, refuses := checkWriteTo(p, c, fn); refuses {
			refusing++
		} else if f != nil {
			fillOf[typeStr(fn.Signature.Recv().Type())] = f
		}
	}
	c.Measured["WriteTo_methods"] = len(enc)
	c.Measured["refusing_WriteTo"] = refusing
	c.Floor("WriteTo methods", len(enc), 15, "15 MQTT packet types")

	// R10.2 / R10.3 over every fill-family function
	nff := 0
	for _, fn := range p.AllFuncs() {
		if !isFillFamily(fn) || fn.Synthetic != "" {
			continue
		}
		nff++
		c.Fn(qname(fn))
		checkThreading(p, c, fn)
	}
	c.Measured["fill_family_functions"] = nff
	c.Floor("fill-family functions", nff, 15+6, "one per packet type plus the wire-type primitives")

	// R10.7: the frame's own arithmetic on abstract packet states
	checkFrameArithmetic(p, c)
	// R10.8: the same equation, structurally, for all states
	top := map[*ssa.Function]bool{}
	for _, f := range fillOf {
		top[f] = true
	}
	nlp := 0
	for _, f := range lengthPrefixFindings(p, top) {
		nlp++
		switch {
		case f.ok:
			c.OK("R10.8", f.cons, f.pos, f.how)
		case f.unk && f.top != nil && (evaluatedOK(c, "R10.7", f.top) || allEvaluatedOK(c, "R10.7", f.tops)):
			// the structural argument does not reach this spelling of the remaining length (a helper with several
			// paths, say); the equation itself was evaluated on every abstract packet state of the type (R10.7)
			c.OK("R10.8", f.cons, f.pos, "not decided structurally ("+f.how+"); backed by R10.7: the remaining length equals the bytes that follow on every abstract packet state of the type")
		case f.unk:
			c.Unk("R10.8", f.cons, f.pos, f.how)
		default:
			c.Bad("R10.8", f.cons, f.pos, f.how)
		}
	}
	c.Floor("functions emitting a length prefix", nlp, 15, "every packet type with a body writes a remaining length; most write a property length")

	// R10.4
	ns := 0
	for _, fn := range roots.Render {
		if fn.Name() != "String" || fn.Signature.Recv() == nil {
			continue
		}
		rt := typeStr(fn.Signature.Recv().Type())
		f, ok := fillOf[rt]
		if !ok {
			continue // not a packet with a frame size
		}
		ns++
		c.Fn(qname(fn))
		checkStringSize(p, c, fn, f)
	}
	c.Floor("String methods of writable packets", ns, 15, "15 MQTT packet types")
}

// checkWriteTo verifies R10.1 (or R10.5) and returns the fill function used.
func checkWriteTo(p *Prog, c *Check, fn *ssa.Function) (*ssa.Function, bool) {
	tmp := NewCheck(c.ID, p)
	f, refuses := checkWriteToShape(p, tmp, fn)
	merge := func() {
		c.Obls = append(c.Obls, tmp.Obls...)
		for k := range tmp.Funcs {
			c.Funcs[k] = true
		}
	}
	if len(tmp.Failing()) == 0 {
		merge()
		return f, refuses
	}
	// not one of the recognised shapes (the buffer made and written by a helper that is handed a part of the packet):
	// WriteTo itself is evaluated on abstract packet states with a recording writer and compared with the encoder —
	// but only where the structure already guarantees what no sample can: there is exactly one Write site in
	// everything WriteTo reaches, and it is not in a loop (frames written in pieces, a retry after a failed Write)
	nsites, inLoop := 0, false
	for g := range p.Reach([]*ssa.Function{fn}) {
		if !p.inMQ(g) {
			continue
		}
		for _, b := range g.Blocks {
			for _, ins := range b.Instrs {
				ci, isCall := ins.(ssa.CallInstruction)
				if !isCall {
					continue
				}
				cc := ci.Common()
				isWrite := cc.IsInvoke() && (cc.Method.Name() == "Write" || cc.Method.Name() == "WriteString" || cc.Method.Name() == "ReadFrom")
				if sc := cc.StaticCallee(); sc != nil && sc.Blocks == nil {
					switch fullName(sc) {
					case "io.WriteString", "io.Copy", "io.CopyN", "fmt.Fprint", "fmt.Fprintf", "fmt.Fprintln":
						isWrite = true
					}
				}
				if isWrite {
					nsites++
					if loopContaining(g, b) != nil {
						inLoop = true
					}
				}
			}
		}
	}
	if nsites != 1 || inLoop {
		merge()
		return f, refuses
	}
	if enc, how := p.writeToByEvaluation(fn); enc != nil {
		c.OK("R10.1", qname(fn), p.Pos(fn.Pos()), how)
		return enc, false
	}
	merge()
	return f, refuses
}

// writeToByEvaluation: on every basic abstract state of the packet type (none, all setters, the variant values, with
// and without a will, lengths at 128 and 16 384) WriteTo makes exactly one Write, of one whole buffer, into which the
// wire primitives have emitted exactly the encoder's event sequence for that state, and returns (len, nil) of it.
// Returns the type's encoder and a description, or nil.
func (p *Prog) writeToByEvaluation(wt *ssa.Function) (*ssa.Function, string) {
	if wt == nil || wt.Signature.Recv() == nil || len(wt.Params) != 2 {
		return nil, ""
	}
	nt := namedOf(wt.Signature.Recv().Type())
	if nt == nil {
		return nil, ""
	}
	tn := nt.Obj().Name()
	fill := p.Method(tn, "fill")
	if fill == nil {
		return nil, ""
	}
	norm := func(e layoutEvent) string {
		v := e.Val
		val := ""
		switch v.k {
		case 'i':
			val = fmt.Sprint(v.i)
		case 'b':
			val = fmt.Sprint(v.b)
		case 's':
			val = fmt.Sprintf("len=%d %s+%d", v.i, v.addr, v.off)
		}
		return fmt.Sprintf("%s %s(%s) id=%#02x width=%d src=%s %s", e.Op, e.Wire, e.Kind, e.ID, e.Width, e.Src, val)
	}
	// the states C10 compares size methods on: every abstract state (values outside MQTT's ranges included) and the
	// boundary-targeted ones, steered by the constants of whatever WriteTo calls
	var extra []*ssa.Function
	for g := range p.Reach([]*ssa.Function{wt}) {
		if g != wt && g != fill && p.inMQ(g) && len(g.Blocks) > 0 && !isFillFamily(g) {
			extra = append(extra, g)
		}
	}
	sort.Slice(extra, func(a, b int) bool { return qname(extra[a]) < qname(extra[b]) })
	if len(extra) > 6 {
		extra = extra[:6]
	}
	var states []*packetState
	for _, sp := range p.c10Specs(tn) {
		st, _ := p.c10State(tn, sp)
		if st == nil {
			return nil, ""
		}
		states = append(states, st)
	}
	for _, ts := range p.targetedStates(tn, fill, extra...) {
		states = append(states, ts.st)
	}
	n := 0
	for _, st := range states {
		want, total, why := p.encoderTrace(st, fill)
		if why != "" {
			return nil, ""
		}
		evs, bufs, rs, writes, why := p.traceRun(st, wt, []sv{{k: 'p', addr: st.Recv}, {k: 'I', addr: "WRITER"}}, true)
		if why != "" || len(writes) != 1 || len(rs) != 2 {
			return nil, ""
		}
		w := writes[0]
		if w.k != 's' || w.addr == "" || w.off != 0 || w.i != total {
			return nil, ""
		}
		var got []layoutEvent
		for i, e := range evs {
			if bufs[i] == w.addr {
				got = append(got, e)
			}
		}
		if len(got) != len(want) {
			return nil, ""
		}
		for i := range got {
			if norm(got[i]) != norm(want[i]) {
				return nil, ""
			}
		}
		if rs[0].k != 'i' || rs[0].i != total || rs[1].k != 'z' {
			return nil, ""
		}
		// byte for byte where the evaluation determines the bytes (a store into the buffer behind the encoder's back —
		// `b[0] |= 1` after fill — is no emission): the buffer handed over holds what the encoder writes into a buffer of
		// that size
		snap, _ := p.cache["writesnap"].(map[int64]sv)
		delete(p.cache, "writesnap")
		_, _, _, _, whyF := p.traceRun(st, fill, []sv{{k: 'p', addr: st.Recv}, {k: 's', i: total, addr: "REALB"}, {k: 'i', i: 0}}, true)
		fmem, _ := p.cache["tracemem"].(map[string]sv)
		delete(p.cache, "tracemem")
		if whyF != "" || fmem == nil {
			return nil, ""
		}
		for k := int64(0); k < total && k < 4096; k++ {
			fc, okF := fmem[fmt.Sprintf("REALB[%d]", k)]
			wc, okW := snap[k]
			if okF != okW {
				return nil, ""
			}
			if okF && (fc.k != wc.k || fc.i != wc.i || fc.b != wc.b) {
				return nil, ""
			}
		}
		// a writer that takes one byte and fails: WriteTo hands back that count and that error, after the one Write
		for _, took := range []int64{1, 0} { // … and one that fails before taking any
			p.cache["writefails"] = took + 1
			_, _, rs2, writes2, why2 := p.traceRun(st, wt, []sv{{k: 'p', addr: st.Recv}, {k: 'I', addr: "WRITER"}}, true)
			delete(p.cache, "writefails")
			if why2 != "" || len(writes2) != 1 || len(rs2) != 2 || rs2[0].k != 'i' || rs2[0].i != took || rs2[1].k != 'I' || rs2[1].addr != "WERR" {
				return nil, ""
			}
		}
		n++
	}
	if n == 0 {
		return nil, ""
	}
	return fill, fmt.Sprintf("evaluated with a recording writer on %d abstract packet states: one Write of one whole buffer holding exactly what %s emits for the state; the byte count and error of that Write are returned", n, qname(fill))
}

func checkWriteToShape(p *Prog, c *Check, fn *ssa.Function) (*ssa.Function, bool) {
	cons := qname(fn)
	pos := p.Pos(fn.Pos())
	var w *ssa.Parameter
	for _, prm := range fn.Params[1:] {
		if it, ok := prm.Type().Underlying().(*types.Interface); ok && it.NumMethods() > 0 {
			w = prm
		}
	}
	if w == nil || len(fn.Params) < 2 {
		c.Unk("R10.1", cons, pos, "no io.Writer parameter")
		return nil, false
	}
	// delegation: WriteTo hands its writer and its receiver to a shared helper and returns that helper's results
	if f, handled := checkWriteToDelegated(p, c, fn, w); handled {
		return f, false
	}
	var writes []*ssa.Call
	otherUse := ""
	for _, r := range *w.Referrers() {
		switch x := r.(type) {
		case *ssa.DebugRef:
		case *ssa.Call:
			if x.Call.IsInvoke() && x.Call.Value == ssa.Value(w) && x.Call.Method.Name() == "Write" {
				writes = append(writes, x)
			} else {
				otherUse = "the writer is passed to " + x.String()
			}
		default:
			otherUse = fmt.Sprintf("the writer is used by %T", r)
		}
	}
	if len(writes) == 0 {
		// R10.5: refuses
		ok := otherUse == ""
		pr := NewProver(p, fn)
		for _, b := range fn.Blocks {
			ret, isR := terminator(b).(*ssa.Return)
			if !isR {
				continue
			}
			if !pr.NonNil(ret.Results[1], b, 0) {
				ok = false
				c.Bad("R10.5", cons, posOf(p, ret), "a WriteTo that never writes returns a nil error: the caller believes a frame was sent")
			}
			if k, isC := constInt(ret.Results[0]); !isC || k != 0 {
				ok = false
				c.Bad("R10.5", cons, posOf(p, ret), "a WriteTo that never writes reports a byte count other than 0: "+describeVal(ret.Results[0]))
			}
		}
		if otherUse != "" {
			c.Bad("R10.5", cons, pos, otherUse)
		}
		if ok {
			c.OK("R10.5", cons, pos, "returns a non-nil error on every path and never touches the writer")
		}
		return nil, true
	}
	if otherUse != "" {
		c.Bad("R10.1", cons, pos, otherUse)
		return nil, false
	}
	if len(writes) != 1 {
		// a refusing type that also writes is R10.5's business if every return is an error
		pr := NewProver(p, fn)
		allErr := true
		for _, b := range fn.Blocks {
			if ret, isR := terminator(b).(*ssa.Return); isR && !pr.NonNil(ret.Results[1], b, 0) {
				allErr = false
			}
		}
		if allErr {
			c.Bad("R10.5", cons, pos, "the refusing WriteTo hands bytes to the writer")
			return nil, true
		}
		c.Bad("R10.1", cons, pos, fmt.Sprintf("%d Write calls on the writer (want exactly one: one frame, one Write)", len(writes)))
		return nil, false
	}
	wr := writes[0]
	// refusing variant that writes once
	{
		pr := NewProver(p, fn)
		allErr := true
		for _, b := range fn.Blocks {
			if ret, isR := terminator(b).(*ssa.Return); isR && !pr.NonNil(ret.Results[1], b, 0) {
				allErr = false
			}
		}
		if allErr {
			c.Bad("R10.5", cons, posOf(p, wr), "the refusing WriteTo hands bytes to the writer")
			return nil, true
		}
	}
	// on every path
	for _, b := range fn.Blocks {
		if _, isR := terminator(b).(*ssa.Return); isR && !wr.Block().Dominates(b) {
			c.Bad("R10.1", cons, posOf(p, terminator(b)), "an exit that does not pass through the Write")
			return nil, false
		}
	}
	if loopContaining(fn, wr.Block()) != nil {
		c.Bad("R10.1", cons, posOf(p, wr), "the Write is inside a loop")
		return nil, false
	}
	buf, ok := wr.Call.Args[0].(*ssa.MakeSlice)
	if !ok {
		c.Bad("R10.1", cons, posOf(p, wr), "the argument of Write is not the freshly made buffer itself (sliced, converted or foreign): "+describeVal(wr.Call.Args[0]))
		return nil, false
	}
	f, recv, ok := p.dryRunCall(buf.Len, 0)
	if !ok || buf.Cap != buf.Len {
		why := describeVal(buf.Len)
		if call, isC := buf.Len.(*ssa.Call); isC {
			if _, w := p.sizeByEvaluation(call.Call.StaticCallee()); w != "" {
				why += " — " + w
			}
		}
		c.Bad("R10.1", cons, posOf(p, buf), "the buffer is not sized by the dry run fill(nil-slice, 0): "+why)
		return nil, false
	}
	if call, isC := buf.Len.(*ssa.Call); isC {
		if g, w := p.sizeByEvaluation(call.Call.StaticCallee()); g != nil {
			c.OK("R10.1", cons+"#size", posOf(p, buf), w)
		}
	}
	if !isRecvOf(p, fn, recv) {
		c.Bad("R10.1", cons, posOf(p, buf), "the dry run is made on another receiver")
		return nil, false
	}
	// the real run
	var real *ssa.Call
	for _, r := range *buf.Referrers() {
		call, isC := r.(*ssa.Call)
		if !isC || call == wr {
			if _, isD := r.(*ssa.DebugRef); !isD && r != ssa.Instruction(wr) {
				c.Bad("R10.1", cons, posOf(p, r), "the frame buffer is used by something other than the fill and the Write: "+r.String())
				return nil, false
			}
			continue
		}
		if call.Call.StaticCallee() != f {
			c.Bad("R10.1", cons, posOf(p, call), "the buffer is filled by "+call.String()+", not by the function that sized it ("+qname(f)+")")
			return nil, false
		}
		if real != nil {
			c.Bad("R10.1", cons, posOf(p, call), "the buffer is filled twice")
			return nil, false
		}
		real = call
	}
	if real == nil {
		c.Bad("R10.1", cons, posOf(p, buf), "the buffer is never filled")
		return nil, false
	}
	off, isC := constInt(real.Call.Args[2])
	if real.Call.Args[0] != ssa.Value(fn.Params[0]) || real.Call.Args[1] != ssa.Value(buf) || !isC || off != 0 {
		c.Bad("R10.1", cons, posOf(p, real), "the real run is not fill(buffer, 0) on the receiver")
		return nil, false
	}
	if !real.Block().Dominates(wr.Block()) || (real.Block() == wr.Block() && instrIndex(real) > instrIndex(wr)) {
		c.Bad("R10.1", cons, posOf(p, real), "the buffer is written to the writer before it is filled")
		return nil, false
	}
	// result flow
	okRes := true
	for _, b := range fn.Blocks {
		ret, isR := terminator(b).(*ssa.Return)
		if !isR {
			continue
		}
		n, e := ret.Results[0], ret.Results[1]
		cv, isConv := n.(*ssa.Convert)
		var nx *ssa.Extract
		if isConv {
			nx, _ = cv.X.(*ssa.Extract)
		}
		if nx == nil || nx.Tuple != ssa.Value(wr) || nx.Index != 0 {
			okRes = false
			c.Bad("R10.1", cons, posOf(p, ret), "the returned count is not int64(n) of the Write call: "+describeVal(n))
			continue
		}
		ex, isEx := e.(*ssa.Extract)
		switch {
		case isEx && ex.Tuple == ssa.Value(wr) && ex.Index == 1:
		case isNilConst(e):
			// allowed only behind `err == nil`
			werr := extractOf(wr, 1)
			good := false
			if werr != nil {
				_, isNil := errEdges(werr)
				good = dominatedByAny(isNil, b)
			}
			if !good {
				okRes = false
				c.Bad("R10.1", cons, posOf(p, ret), "returns a nil error without having seen the writer's error to be nil")
			}
		default:
			okRes = false
			c.Bad("R10.1", cons, posOf(p, ret), "the returned error is not the writer's: "+describeVal(e))
		}
	}
	if okRes {
		c.OK("R10.1", cons, pos, "buffer = make(dry run of "+qname(f)+"); filled once by the same function from offset 0; one Write of that buffer on every path; results forwarded")
	}
	return f, false
}

func isRecvOf(p *Prog, fn *ssa.Function, v ssa.Value) bool {
	_, ok := recvBase(p, fn, v)
	return ok
}

// emission: a call of a fill-family function on this function's own buffer.
type emission struct {
	call   *ssa.Call
	offset ssa.Value
}

func emissionsOf(p *Prog, fn *ssa.Function) (buf *ssa.Parameter, off *ssa.Parameter, ems []emission, dry []*ssa.Call) {
	np := len(fn.Params)
	base := 0
	if fn.Signature.Recv() != nil {
		base = 1
	}
	if k := fillBufIndex(fn); k > 0 {
		base += k
	}
	if np < base+2 {
		return
	}
	buf, off = fn.Params[base], fn.Params[base+1]
	for _, b := range fn.Blocks {
		for _, ins := range b.Instrs {
			call, ok := ins.(*ssa.Call)
			if !ok {
				continue
			}
			callees, _ := p.CG().Callees(call)
			if len(callees) == 0 || !isFillFamily(callees[0]) {
				continue
			}
			args := call.Call.Args
			bi := 0
			if call.Call.IsInvoke() {
				bi = 0
			} else if callees[0].Signature.Recv() != nil && call.Call.StaticCallee() != nil {
				bi = 1
			}
			if k := fillBufIndex(callees[0]); k > 0 {
				bi += k
			}
			if bi+1 >= len(args) {
				continue
			}
			if args[bi] == ssa.Value(buf) {
				ems = append(ems, emission{call, args[bi+1]})
			} else {
				dry = append(dry, call)
			}
		}
	}
	return
}

// threaded computes, for an offset-carrying value, the set of emissions whose
// results it contains (per path), or fails.
type threadSet map[*ssa.Call]bool

// checkThreading: R10.2 (and R10.3/R10.6) for one fill-family function.  The syntactic threading rule is tried
// first; where it does not recognise the way the offsets are spelled, the path-wise linear accounting of
// fillacct.go decides (loop-free functions).
func checkThreading(p *Prog, c *Check, fn *ssa.Function) {
	sc := NewCheck(c.ID, p)
	checkThreadingSyntactic(p, sc, fn)
	failing := false
	for _, o := range sc.Obls {
		if o.Rule == "R10.2" && o.Status != Discharged {
			failing = true
		}
	}
	if failing {
		if ar := p.fillAccounting(fn, false); ar.applicable && ar.threadOK {
			for i := range sc.Obls {
				if sc.Obls[i].Rule == "R10.2" && sc.Obls[i].Status != Discharged {
					sc.Obls[i].Status = Discharged
					sc.Obls[i].StatusS = ""
					sc.Obls[i].Detail = fmt.Sprintf("by path-wise accounting over %d feasible path(s): every emission is made where the bytes emitted so far end, and that end is what is returned", ar.paths)
				}
			}
		}
	}
	for _, o := range sc.Obls {
		c.add(o.Rule, o.Construct, o.Pos, o.Status, o.Detail)
	}
	for f := range sc.Funcs {
		c.Fn(f)
	}
	// one convention per function: a fill-family function returns a width on every path or an end position on
	// every path — and a function whose result callers add to their offset (`i += f(b, i)`) returns a width.  The
	// dry runs made at offset 0 cannot tell the two apart; the real run at a later offset can.
	if _, off, _, _ := emissionsOf(p, fn); off != nil {
		// coefficient of the entry offset in a value: 1 for the threaded offset, 0 for widths
		var coef func(v ssa.Value, assume map[*ssa.Phi]int, depth int) (int, bool)
		coef = func(v ssa.Value, assume map[*ssa.Phi]int, depth int) (int, bool) {
			if depth > 60 {
				return 0, false
			}
			switch x := v.(type) {
			case *ssa.Parameter:
				if x == off {
					return 1, true
				}
				return 0, true
			case *ssa.Const, *ssa.Call, *ssa.Extract, *ssa.UnOp:
				return 0, true
			case *ssa.Convert:
				return coef(x.X, assume, depth+1)
			case *ssa.ChangeType:
				return coef(x.X, assume, depth+1)
			case *ssa.BinOp:
				a, ok1 := coef(x.X, assume, depth+1)
				b, ok2 := coef(x.Y, assume, depth+1)
				if !ok1 || !ok2 {
					return 0, false
				}
				switch x.Op {
				case token.ADD:
					return a + b, true
				case token.SUB:
					return a - b, true
				}
				if a == 0 && b == 0 {
					return 0, true
				}
				return 0, false
			case *ssa.Phi:
				if c, ok := assume[x]; ok {
					return c, true
				}
				for _, guess := range []int{0, 1} {
					assume[x] = guess
					okAll := true
					for _, ed := range x.Edges {
						if c, ok := coef(ed, assume, depth+1); !ok || c != guess {
							okAll = false
							break
						}
					}
					if okAll {
						return guess, true
					}
				}
				delete(assume, x)
				return 0, false
			}
			return 0, false
		}
		nabs, nrel := 0, 0
		absAt, relAt := "", ""
		for _, b := range fn.Blocks {
			ret, ok := terminator(b).(*ssa.Return)
			if !ok || len(ret.Results) != 1 {
				continue
			}
			switch c0, ok := coef(ret.Results[0], map[*ssa.Phi]int{}, 0); {
			case ok && c0 == 0:
				nrel++
				relAt = posOf(p, ret)
			case ok && c0 == 1:
				nabs++
				absAt = posOf(p, ret)
			}
		}
		if nabs+nrel > 0 {
			cons := qname(fn) + "#return-convention"
			switch {
			case nabs > 0 && nrel > 0:
				c.Bad("R10.2", cons, p.Pos(fn.Pos()), "the function returns a width at "+relAt+" and the entry offset plus a width at "+absAt+": at any offset but 0 one of them is wrong for the caller")
			case nabs > 0 && p.emissionCallees()[fn]:
				c.Bad("R10.2", cons, p.Pos(fn.Pos()), "the function returns an end position ("+absAt+") but callers add its result to their offset as a width")
			default:
				c.OK("R10.2", cons, p.Pos(fn.Pos()), fmt.Sprintf("one return convention on all %d return(s), matching how the result is used", nabs+nrel))
			}
		}
	}
}

// emissionCallees: the fill-family functions whose result some caller uses as the width of an emission.
func (p *Prog) emissionCallees() map[*ssa.Function]bool {
	if v, ok := p.cache["emcallees"]; ok {
		return v.(map[*ssa.Function]bool)
	}
	out := map[*ssa.Function]bool{}
	for _, fn := range p.AllFuncs() {
		if !isFillFamily(fn) {
			continue
		}
		_, _, ems, _ := emissionsOf(p, fn)
		for _, e := range ems {
			// the call's result is used as an addend (not as the new offset)
			usedAsWidth := false
			if refs := e.call.Referrers(); refs != nil {
				for _, r := range *refs {
					if bo, ok := r.(*ssa.BinOp); ok && bo.Op == token.ADD {
						usedAsWidth = true
					}
				}
			}
			if !usedAsWidth {
				continue
			}
			// statically resolved calls only: a call through an interface or a type parameter resolves to every
			// fill method in the package, the packet encoders (which return an end position) among them
			if sc := e.call.Call.StaticCallee(); sc != nil {
				out[sc] = true
			}
		}
	}
	p.cache["emcallees"] = out
	return out
}

func checkThreadingSyntactic(p *Prog, c *Check, fn *ssa.Function) {
	cons := qname(fn)
	buf, off, ems, _ := emissionsOf(p, fn)
	if buf == nil {
		return
	}
	isEm := map[ssa.Value]*ssa.Call{}
	for _, e := range ems {
		isEm[e.call] = e.call
	}
	memo := map[ssa.Value]threadSet{}
	var failWhy string
	// sum style: a width accumulator S that starts at 0 and grows by the result of each emission made at
	// offset i_entry + S (n += x.fill(b, i+n)); threadSum(v) = the emissions summed into v
	memoS := map[ssa.Value]threadSet{}
	var threadSum func(v ssa.Value, depth int) (threadSet, bool)
	threadSum = func(v ssa.Value, depth int) (threadSet, bool) {
		if ts, ok := memoS[v]; ok {
			return ts, ts != nil
		}
		if depth > 200 {
			return nil, false
		}
		memoS[v] = nil
		var out threadSet
		switch x := v.(type) {
		case *ssa.Const:
			if k, ok := constInt(x); ok && k == 0 {
				out = threadSet{}
			}
		case *ssa.BinOp:
			if x.Op == token.ADD {
				var u ssa.Value
				var r *ssa.Call
				if e, ok := isEm[x.Y]; ok {
					u, r = x.X, e
				} else if e, ok := isEm[x.X]; ok {
					u, r = x.Y, e
				}
				if r != nil {
					if ts, ok := threadSum(u, depth+1); ok {
						// the emission must have been made at i_entry + u
						var at ssa.Value
						for _, e := range ems {
							if e.call == r {
								at = e.offset
							}
						}
						atOK := false
						if bo, isB := at.(*ssa.BinOp); isB && bo.Op == token.ADD {
							atOK = bo.X == ssa.Value(off) && bo.Y == u || bo.Y == ssa.Value(off) && bo.X == u
						}
						if k, isC := constInt(u); isC && k == 0 && at == ssa.Value(off) {
							atOK = true
						}
						if atOK && !ts[r] {
							out = threadSet{}
							for k := range ts {
								out[k] = true
							}
							out[r] = true
						}
					}
				}
			}
		case *ssa.Phi:
			out = threadSet{}
			okAll := true
			for _, e := range x.Edges {
				if e == v {
					continue
				}
				ts, ok := threadSum(e, depth+1)
				if !ok {
					if bo, isB := e.(*ssa.BinOp); isB && (bo.X == v || bo.Y == v) {
						continue
					}
					okAll = false
					break
				}
				for k := range ts {
					out[k] = true
				}
			}
			if !okAll {
				out = nil
			}
		}
		memoS[v] = out
		return out, out != nil
	}
	var thread func(v ssa.Value, depth int) (threadSet, bool)
	thread = func(v ssa.Value, depth int) (threadSet, bool) {
		if ts, ok := memo[v]; ok {
			return ts, ts != nil
		}
		if depth > 200 {
			return nil, false
		}
		memo[v] = nil
		var out threadSet
		switch x := v.(type) {
		case *ssa.Parameter:
			if x == off {
				out = threadSet{}
			}
		case *ssa.BinOp:
			if x.Op == token.ADD {
				var u ssa.Value
				var r *ssa.Call
				if e, ok := isEm[x.Y]; ok {
					u, r = x.X, e
				} else if e, ok := isEm[x.X]; ok {
					u, r = x.Y, e
				}
				if r == nil {
					// i_entry + S with S a width accumulator
					var sv ssa.Value
					if x.X == ssa.Value(off) {
						sv = x.Y
					} else if x.Y == ssa.Value(off) {
						sv = x.X
					}
					if sv != nil {
						if ts, ok := threadSum(sv, depth+1); ok {
							out = threadSet{}
							for k := range ts {
								out[k] = true
							}
						}
					}
				}
				if r != nil {
					if ts, ok := thread(u, depth+1); ok {
						// the emission must have been made at exactly u
						var at ssa.Value
						for _, e := range ems {
							if e.call == r {
								at = e.offset
							}
						}
						if at != u {
							failWhy = fmt.Sprintf("the result of the emission at %s is added to an offset other than the one it was made at", posOf(p, r))
						} else if ts[r] {
							failWhy = "an emission's width is added twice"
						} else {
							out = threadSet{}
							for k := range ts {
								out[k] = true
							}
							out[r] = true
						}
					}
				}
			}
		case *ssa.Phi:
			// loop-carried or merged offsets: union (each path is checked where it is used)
			out = threadSet{}
			okAll := true
			for _, e := range x.Edges {
				if e == v {
					continue
				}
				ts, ok := thread(e, depth+1)
				if !ok {
					// a back edge not yet resolved: tolerate if it is phi + emission
					if bo, isB := e.(*ssa.BinOp); isB && (bo.X == v || bo.Y == v) {
						continue
					}
					okAll = false
					break
				}
				for k := range ts {
					out[k] = true
				}
			}
			if !okAll {
				out = nil
			}
		}
		memo[v] = out
		return out, out != nil
	}
	bad := false
	// every emission is made at a threaded offset that contains every emission dominating it
	for i, e := range ems {
		ecs := fmt.Sprintf("%s#emit%d", cons, i+1)
		ts, ok := thread(e.offset, 0)
		if !ok {
			bad = true
			why := failWhy
			if why == "" {
				why = "the offset argument is not i_entry plus the results of the preceding emissions: " + describeVal(e.offset)
			}
			c.Bad("R10.2", ecs, posOf(p, e.call), why)
			continue
		}
		missing := ""
		for _, d := range ems {
			if d.call == e.call {
				continue
			}
			before := d.call.Block().Dominates(e.call.Block()) && (d.call.Block() != e.call.Block() || instrIndex(d.call) < instrIndex(e.call))
			inLoop := loopContaining(fn, d.call.Block()) != nil
			if before && !inLoop && !ts[d.call] {
				missing = posOf(p, d.call)
			}
		}
		if missing != "" {
			bad = true
			c.Bad("R10.2", ecs, posOf(p, e.call), "emitted at an offset that does not include the width of the emission at "+missing+": bytes would overlap")
		} else {
			c.OK("R10.2", ecs, posOf(p, e.call), "offset = entry offset + widths of all earlier emissions")
		}
	}
	// returns
	pr := NewProver(p, fn)
	pr.assumeContracts()
	for _, b := range fn.Blocks {
		ret, ok := terminator(b).(*ssa.Return)
		if !ok || len(ems) == 0 {
			continue
		}
		rv := ret.Results[0]
		rcs := fmt.Sprintf("%s#return@b%d", cons, exitOrdinal(fn, b))
		var inner ssa.Value = rv
		rel := false
		if bo, ok := rv.(*ssa.BinOp); ok && bo.Op == token.SUB && bo.Y == ssa.Value(off) {
			inner, rel = bo.X, true
		}
		if call, isCall := rv.(*ssa.Call); isCall && isEm[call] != nil {
			// returns the result of a single emission made at the entry offset
			var at ssa.Value
			for _, e := range ems {
				if e.call == call {
					at = e.offset
				}
			}
			if at == ssa.Value(off) {
				c.OK("R10.2", rcs, posOf(p, ret), "returns the width of the single emission made at the entry offset")
				continue
			}
		}
		ts, ok := thread(inner, 0)
		if !ok {
			if ts2, ok2 := threadSum(rv, 0); ok2 {
				ts, ok, rel = ts2, true, true
			}
		}
		if !ok && writesBufferDirectly(fn, buf) {
			if okx, how := extentRule(p, pr, fn, buf, off, ems, ret); okx {
				c.OK("R10.2", rcs, posOf(p, ret), how)
				continue
			} else if how != "" {
				bad = true
				c.Bad("R10.2", rcs, posOf(p, ret), how)
				continue
			}
		}
		if !ok {
			// fall back to linear equality with the sum of all emissions (straight-line functions)
			sum := linConst(0)
			straight := len(fn.Blocks) == 1
			for _, e := range ems {
				sum = sum.add(pr.lin(e.call))
			}
			if straight && pr.lin(rv).equal(sum) {
				c.OK("R10.2", rcs, posOf(p, ret), "returns a value provably equal to the sum of the emitted widths ("+sum.String()+")")
				continue
			}
			if k, isC := constInt(rv); isC && k == 0 {
				// early return of 0 before any emission
				emitted := false
				for _, e := range ems {
					if e.call.Block().Dominates(b) {
						emitted = true
					}
				}
				if !emitted {
					c.OK("R10.2", rcs, posOf(p, ret), "returns 0 on a path without emissions")
					continue
				}
			}
			bad = true
			c.Bad("R10.2", rcs, posOf(p, ret), "the returned size is not the sum of the emitted widths: "+describeVal(rv))
			continue
		}
		missing := ""
		for _, d := range ems {
			if d.call.Block().Dominates(b) && loopContaining(fn, d.call.Block()) == nil && !ts[d.call] {
				missing = posOf(p, d.call)
			}
		}
		if missing != "" {
			bad = true
			c.Bad("R10.2", rcs, posOf(p, ret), "the returned size omits the emission at "+missing)
			continue
		}
		form := "entry offset + sum of emitted widths"
		if rel {
			form = "sum of emitted widths"
		}
		c.OK("R10.2", rcs, posOf(p, ret), "returns "+form)
	}
	// primitives without emissions: extent rule / byte-per-iteration rule
	if len(ems) == 0 && writesBufferDirectly(fn, buf) {
		for _, b := range fn.Blocks {
			ret, ok := terminator(b).(*ssa.Return)
			if !ok {
				continue
			}
			rcs := fmt.Sprintf("%s#return@b%d", cons, exitOrdinal(fn, b))
			if len(AllLoops(fn)) > 0 {
				if okx, how := bytePerIteration(p, pr, fn, buf, off, ret); okx {
					c.OK("R10.2", rcs, posOf(p, ret), how)
				} else {
					c.Unk("R10.2", rcs, posOf(p, ret), how)
				}
				continue
			}
			if okx, how := extentRule(p, pr, fn, buf, off, ems, ret); okx {
				c.OK("R10.2", rcs, posOf(p, ret), how)
			} else {
				c.Bad("R10.2", rcs, posOf(p, ret), how)
			}
		}
	}
	// a wire primitive that reports a width must write it
	if len(ems) == 0 && !writesBufferDirectly(fn, buf) && isWirePrimitive(fn) {
		if rs := p.retSummary(fn); !(rs.exact != nil && rs.exact.isConst() && rs.exact.c == 0) && !p.alwaysPanics(fn) {
			c.Bad("R10.2", cons+"#writes", p.Pos(fn.Pos()), "the primitive reports a width but never writes into the buffer: those bytes of the frame stay zero")
		}
	}
	_ = bad
	// R10.3: branches on the buffer
	checkDryEqualsReal(p, c, fn, buf, off, ems, pr)
}

// R10.3
func checkDryEqualsReal(p *Prog, c *Check, fn *ssa.Function, buf, off *ssa.Parameter, ems []emission, pr *Prover) {
	cons := qname(fn)
	dependsOnBuf := func(v ssa.Value) bool {
		return dependsOn(v, func(x ssa.Value) bool { return x == ssa.Value(buf) }, map[ssa.Value]bool{})
	}
	nguards := 0
	okAll := true
	for _, b := range fn.Blocks {
		iff, ok := terminator(b).(*ssa.If)
		if !ok || !dependsOnBuf(iff.Cond) {
			continue
		}
		nguards++
		// a size guard: both sides must return the same value / leave the offsets alone.
		// Accept when every return reachable yields the same linear form on both sides.
		var forms []Lin
		same := true
		for _, side := range b.Succs {
			for _, r := range returnsReachable(side) {
				l := pr.lin(r.Results[0])
				// copy(dst, src) under the guard len(dst) >= len(src) is len(src)
				if call, isCall := r.Results[0].(*ssa.Call); isCall {
					if bi, isB := call.Call.Value.(*ssa.Builtin); isB && bi.Name() == "copy" {
						dl, sl := pr.lenOf(call.Call.Args[0]), pr.lenOf(call.Call.Args[1])
						if pr.Prove(call.Block(), dl.sub(sl)) {
							l = sl
						}
					}
				}
				forms = append(forms, l)
			}
		}
		for _, f := range forms[1:] {
			if !f.equal(forms[0]) {
				same = false
			}
		}
		// offsets of emissions after the merge must not depend on which side was taken:
		// guaranteed when no emission result from inside the guard feeds a phi… simpler:
		// emissions inside a buffer guard are allowed only if the function's returns agree.
		if !same {
			okAll = false
			c.Bad("R10.3", cons, posOf(p, iff), "the width returned depends on whether the buffer is large enough: the dry run (nil buffer) and the real run disagree")
		}
	}
	// … and no branch on the offset alone: the dry run is made at offset 0, the real run of a nested encoder at
	// another one — a path chosen by `i == 0` is a path the dry run takes and the real run does not
	if off != nil {
		dependsOnOff := func(v ssa.Value) bool {
			return dependsOn(v, func(x ssa.Value) bool { return x == ssa.Value(off) }, map[ssa.Value]bool{})
		}
		for _, b := range fn.Blocks {
			iff, ok := terminator(b).(*ssa.If)
			if !ok || dependsOnBuf(iff.Cond) || !dependsOnOff(iff.Cond) {
				continue
			}
			okAll = false
			c.Unk("R10.3", cons+"#offset-branch", posOf(p, iff), "a branch of the encoder depends on the offset it is asked to write at (not on the room in the buffer): the dry run at offset 0 and the real run can take different paths, so their widths are not shown to agree")
		}
	}
	// R10.6: a size guard skips its writes only when the buffer really is too short for them
	for _, f := range writeGuardFindings(p, pr, fn, buf, ems) {
		if f.ok {
			c.OK("R10.6", f.cons, f.pos, f.how)
		} else if f.unk {
			c.Unk("R10.6", f.cons, f.pos, f.how)
		} else {
			c.Bad("R10.6", f.cons, f.pos, f.how)
		}
	}
	// stores/copies into the buffer must be behind a guard; nothing else may read the buffer
	for _, b := range fn.Blocks {
		for _, ins := range b.Instrs {
			if ld, ok := ins.(*ssa.UnOp); ok && ld.Op == token.MUL {
				if ia, ok := ld.X.(*ssa.IndexAddr); ok && ia.X == ssa.Value(buf) {
					okAll = false
					c.Bad("R10.3", cons, posOf(p, ins), "the encoder reads the buffer's content")
				}
			}
		}
	}
	if okAll {
		how := "no branch depends on the buffer"
		if nguards > 0 {
			how = fmt.Sprintf("%d size guard(s) on the buffer; the returned width is the same on both sides", nguards)
		}
		c.OK("R10.3", cons, p.Pos(fn.Pos()), how)
	}
}

// R10.4
func checkStringSize(p *Prog, c *Check, fn *ssa.Function, fill *ssa.Function) {
	cons := qname(fn)
	prints := sizePrintsOf(p, fn, 0, map[*ssa.Function]bool{})
	for _, sp := range prints {
		switch {
		case sp.why != "":
			c.Bad("R10.4", cons, sp.pos, "the size printed before \"bytes\" is not the frame's dry-run size: "+sp.why)
		case sp.f == fill && isRecvOf(p, fn, sp.recv) && sp.partial != "":
			c.Unk("R10.4", cons, sp.pos, "the size is printed on some paths of "+sp.partial+" only (another path returns or renders without it): that String states the size for every packet is not decided")
		case sp.f == fill && isRecvOf(p, fn, sp.recv) && sp.text != nil && !textReachesReturn(p, fn, sp.text, 0, map[ssa.Value]bool{}):
			c.Unk("R10.4", cons, sp.pos, "the text that states the size is cut, indexed or otherwise transformed on its way to String's result (a helper that shortens long lines drops the trailing \"N bytes\"): that the result still states the size is not decided")
		case sp.f == fill && isRecvOf(p, fn, sp.recv):
			c.OK("R10.4", cons, sp.pos, "prints the dry-run size "+qname(sp.f)+"(nil-slice, 0) of the receiver"+sp.via)
		default:
			c.Bad("R10.4", cons, sp.pos, "the size printed before \"bytes\" is the dry run of another function or another packet than the receiver's own encoder"+sp.via)
		}
	}
	if len(prints) == 0 {
		// the size is rendered in a way not recognised above (a strings.Builder, a small type with its own String):
		// decided by what sizes the rendering has at hand at all — every call of an encoder or of a packet's size
		// method in String and in the (non-encoder) mq functions it calls must be the dry run of the receiver's own
		// encoder, and there must be one
		nsz, bad := 0, ""
		seen := map[*ssa.Function]bool{}
		var visit func(g *ssa.Function, depth int, top bool)
		visit = func(g *ssa.Function, depth int, top bool) {
			if g == nil || g.Blocks == nil || seen[g] || depth > 3 {
				return
			}
			seen[g] = true
			for _, b := range g.Blocks {
				for _, ins := range b.Instrs {
					call, ok := ins.(*ssa.Call)
					if !ok {
						continue
					}
					sc := call.Call.StaticCallee()
					if sc == nil || !p.inMQ(sc) || sc.Blocks == nil {
						continue
					}
					if f, recv, ok := p.dryRunCall(call, 0); ok {
						nsz++
						if f != fill || (top && !isRecvOf(p, fn, recv)) {
							bad = "a size computed at " + posOf(p, call) + " (" + describeVal(call) + ") is not the dry run of the receiver's own encoder"
						}
						continue
					}
					if isFillFamily(sc) {
						nsz++
						bad = "an encoder is called at " + posOf(p, call) + " other than as the dry run of the whole frame: " + describeVal(call)
						continue
					}
					visit(sc, depth+1, false)
				}
			}
		}
		visit(fn, 0, true)
		switch {
		case bad != "":
			c.Bad("R10.4", cons, p.Pos(fn.Pos()), "the size String can state is not the frame's: "+bad)
		case nsz == 0:
			c.Unk("R10.4", cons, p.Pos(fn.Pos()), "no \"N bytes\" print found and no size is computed from the encoder here or in the mq functions it calls: that String states the frame's size is not decided")
		default:
			c.OK("R10.4", cons, p.Pos(fn.Pos()), fmt.Sprintf("the rendering is not a recognised \"N bytes\" print; the only size(s) computed for it (%d call(s)) are dry runs of the receiver's own encoder", nsz))
		}
	}
}

// textReachesReturn: the string v (in fn) reaches fn's result only through steps that keep it whole: returned as it
// is, an operand of a concatenation or of a fmt call whose result in turn reaches the result, or handed to a function
// of the library that treats its parameter the same way (never slices or indexes it).
func textReachesReturn(p *Prog, fn *ssa.Function, v ssa.Value, depth int, seen map[ssa.Value]bool) bool {
	if depth > 6 || seen[v] {
		return false
	}
	seen[v] = true
	refs := v.Referrers()
	if refs == nil {
		return false
	}
	reaches := false
	for _, r := range *refs {
		switch x := r.(type) {
		case *ssa.DebugRef:
		case *ssa.Return:
			reaches = true
		case *ssa.Slice, *ssa.Index, *ssa.Lookup, *ssa.IndexAddr, *ssa.Range:
			return false
		case *ssa.MakeInterface:
			if textReachesReturn(p, fn, x, depth+1, seen) {
				reaches = true
			}
		case *ssa.Store:
			// a variadic operand slot of a fmt call
			if ia, ok := x.Addr.(*ssa.IndexAddr); ok {
				if al, ok := ia.X.(*ssa.Alloc); ok && al.Referrers() != nil {
					for _, r2 := range *al.Referrers() {
						if sl, ok := r2.(*ssa.Slice); ok && sl.Referrers() != nil {
							for _, r3 := range *sl.Referrers() {
								if call, ok := r3.(*ssa.Call); ok && AsFmtCall(call) != nil && !fmtKeepsOperandsWhole(AsFmtCall(call)) {
									return false // `%.120s`: a precision cuts the operand
								}
								if call, ok := r3.(*ssa.Call); ok && AsFmtCall(call) != nil && isStringT(call.Type().Underlying()) {
									if textReachesReturn(p, fn, call, depth+1, seen) {
										reaches = true
									}
								} else if ok && AsFmtCall(call) != nil && len(call.Call.Args) > 0 {
									// fmt.Fprintf(&sb, …, text): the text goes into a local builder
									if builderTextReaches(p, fn, call.Call.Args[0], depth, seen) {
										reaches = true
									}
								}
							}
						}
					}
				}
			}
		case *ssa.BinOp:
			if x.Op == token.ADD && textReachesReturn(p, fn, x, depth+1, seen) {
				reaches = true
			}
		case *ssa.Phi:
			// merged with something that is not made from this text (`if big { size = "… KiB" }`): replaced on a path
			for _, e := range x.Edges {
				if !textDerivesFrom(e, v, 0) {
					return false
				}
			}
			if textReachesReturn(p, fn, x, depth+1, seen) {
				reaches = true
			}
		case *ssa.Call:
			sc := x.Call.StaticCallee()
			if sc == nil || sc.Blocks == nil || !p.inMQ(sc) {
				if bi, ok := x.Call.Value.(*ssa.Builtin); ok && bi.Name() == "len" {
					continue
				}
				// sb.WriteString(text) on a local builder whose String() reaches the result
				if sc != nil && len(x.Call.Args) == 2 && x.Call.Args[1] == v {
					switch fullName(sc) {
					case "(*strings.Builder).WriteString", "(*bytes.Buffer).WriteString":
						if builderTextReaches(p, fn, x.Call.Args[0], depth, seen) {
							reaches = true
							continue
						}
					}
				}
				return false
			}
			for k, a := range x.Call.Args {
				if a != v || k >= len(sc.Params) {
					continue
				}
				if !textReachesReturn(p, sc, sc.Params[k], depth+1, map[ssa.Value]bool{}) {
					return false
				}
			}
			if textReachesReturn(p, fn, x, depth+1, seen) {
				reaches = true
			}
		}
	}
	return reaches
}

// textDerivesFrom: e is the text v or is built from it whole (concatenation, a phi of such values).
func textDerivesFrom(e, v ssa.Value, depth int) bool {
	if e == v {
		return true
	}
	if depth > 4 {
		return false
	}
	switch x := e.(type) {
	case *ssa.BinOp:
		return x.Op == token.ADD && (textDerivesFrom(x.X, v, depth+1) || textDerivesFrom(x.Y, v, depth+1))
	case *ssa.Phi:
		for _, e2 := range x.Edges {
			if e2 != ssa.Value(x) && !textDerivesFrom(e2, v, depth+1) {
				return false
			}
		}
		return true
	}
	return false
}

// fmtKeepsOperandsWhole: the fmt call prints its operands in full — no format, or a constant format without a
// precision, an argument index or a `*` in any verb.
func fmtKeepsOperandsWhole(fc *FmtCall) bool {
	if !fc.HasFmt {
		return true
	}
	if !fc.ConstF {
		return false
	}
	f := fc.Format
	for i := 0; i < len(f); i++ {
		if f[i] != '%' {
			continue
		}
		i++
		for i < len(f) && strings.IndexByte("+-# 0123456789.[]*", f[i]) >= 0 {
			if f[i] == '.' || f[i] == '*' || f[i] == '[' {
				return false
			}
			i++
		}
	}
	return true
}

// builderTextReaches: w is (the address of, possibly as an io.Writer) a local strings.Builder / bytes.Buffer that is
// only written to, never reset or truncated, and whose String() reaches fn's result whole.
func builderTextReaches(p *Prog, fn *ssa.Function, w ssa.Value, depth int, seen map[ssa.Value]bool) bool {
	if mi, ok := w.(*ssa.MakeInterface); ok {
		w = mi.X
	}
	al, ok := w.(*ssa.Alloc)
	if !ok || al.Referrers() == nil {
		return false
	}
	reaches := false
	for _, r := range *al.Referrers() {
		switch x := r.(type) {
		case *ssa.DebugRef:
		case *ssa.MakeInterface:
			// as an io.Writer: only the destination of fmt.Fprint* calls
			if x.Referrers() != nil {
				for _, r2 := range *x.Referrers() {
					if _, isD := r2.(*ssa.DebugRef); isD {
						continue
					}
					call, isCall := r2.(*ssa.Call)
					if !isCall || AsFmtCall(call) == nil || len(call.Call.Args) == 0 || call.Call.Args[0] != ssa.Value(x) {
						return false
					}
				}
			}
		case *ssa.Call:
			sc := x.Call.StaticCallee()
			if sc == nil || len(x.Call.Args) == 0 || x.Call.Args[0] != ssa.Value(al) {
				return false
			}
			switch fullName(sc) {
			case "(*strings.Builder).String", "(*bytes.Buffer).String":
				if textReachesReturn(p, fn, x, depth+1, seen) {
					reaches = true
				}
			case "(*strings.Builder).WriteString", "(*strings.Builder).WriteByte", "(*strings.Builder).WriteRune", "(*strings.Builder).Write", "(*strings.Builder).Grow", "(*strings.Builder).Len",
				"(*bytes.Buffer).WriteString", "(*bytes.Buffer).WriteByte", "(*bytes.Buffer).WriteRune", "(*bytes.Buffer).Write", "(*bytes.Buffer).Grow", "(*bytes.Buffer).Len":
			default:
				return false // Reset, Truncate, handed elsewhere
			}
		default:
			return false
		}
	}
	return reaches
}

// sizePrint: one fmt call (in fn or in an mq function fn calls, directly or through helpers) whose constant
// format prints an operand right before " bytes".  f/recv: the dry-run call that operand is, with the receiver
// expressed in fn's own values; why: set when the operand is something else.
type sizePrint struct {
	pos  string
	f    *ssa.Function
	recv ssa.Value
	why  string
	via  string
	text ssa.Value // the rendered text (result of the print), when it is made in the examined function itself
	// the print is not made on every path through the function it sits in (`if n >= 10240 { return "… KiB" }` in
	// front of it): the size is stated for some packets only
	partial string
}

// printOnEveryPath: the block of the print dominates every return of its function.
func printOnEveryPath(ins ssa.Instruction) bool {
	fn := ins.Parent()
	for _, b := range fn.Blocks {
		if _, isRet := terminator(b).(*ssa.Return); isRet && !ins.Block().Dominates(b) {
			return false
		}
	}
	return true
}

func sizePrintsOf(p *Prog, fn *ssa.Function, depth int, seen map[*ssa.Function]bool) []sizePrint {
	if fn == nil || fn.Blocks == nil || depth > 3 || seen[fn] {
		return nil
	}
	seen[fn] = true
	defer delete(seen, fn)
	var out []sizePrint
	for _, b := range fn.Blocks {
		for _, ins := range b.Instrs {
			// the concatenation form: … + strconv.Itoa(size) + " bytes"
			if bo, isBin := ins.(*ssa.BinOp); isBin && bo.Op == token.ADD {
				if cs, isC := bo.Y.(*ssa.Const); isC && cs.Value != nil && cs.Value.Kind() == constant.String && strings.HasPrefix(constant.StringVal(cs.Value), " bytes") {
					var num ssa.Value = bo.X
					if lb, ok := bo.X.(*ssa.BinOp); ok && lb.Op == token.ADD {
						num = lb.Y
					}
					sp := sizePrint{pos: posOf(p, bo)}
					if !printOnEveryPath(bo) {
						sp.partial = qname(fn)
					}
					if nc, ok := num.(*ssa.Call); ok {
						if sc := nc.Call.StaticCallee(); sc != nil && (fullName(sc) == "strconv.Itoa" || fullName(sc) == "strconv.FormatInt" || fullName(sc) == "strconv.FormatUint") && len(nc.Call.Args) >= 1 {
							arg := stripConvs(nc.Call.Args[0])
							if f, recv, ok := p.dryRunCall(arg, 0); ok {
								sp.f, sp.recv = f, recv
							} else if prm, isP := arg.(*ssa.Parameter); isP {
								sp.recv = prm
							} else {
								sp.why = describeVal(arg)
							}
							out = append(out, sp)
							continue
						}
					}
					sp.why = "the text in front of \" bytes\" is " + describeVal(num) + ", not a number rendered from the dry run"
					out = append(out, sp)
					continue
				}
			}
			call, ok := ins.(*ssa.Call)
			if !ok {
				continue
			}
			if fc := AsFmtCall(call); fc != nil {
				if !fc.ConstF || !strings.Contains(fc.Format, "bytes") {
					continue
				}
				// the operand printed right before " bytes"
				idx := -1
				n := 0
				for i := 0; i < len(fc.Format); i++ {
					if fc.Format[i] != '%' {
						continue
					}
					j := i + 1
					for j < len(fc.Format) && strings.IndexByte("+-# 0123456789.", fc.Format[j]) >= 0 {
						j++
					}
					if j < len(fc.Format) && fc.Format[j] == '%' {
						i = j
						continue
					}
					if strings.HasPrefix(fc.Format[j+1:], " bytes") {
						idx = n
					}
					n++
					i = j
				}
				if idx < 0 || idx >= len(fc.Args) {
					continue
				}
				arg := fc.Args[idx]
				if mi, ok := arg.(*ssa.MakeInterface); ok {
					arg = mi.X
				}
				sp := sizePrint{pos: posOf(p, call)}
				if !printOnEveryPath(call) {
					sp.partial = qname(fn)
				}
				if depth == 0 && call.Type() != nil && isStringT(call.Type().Underlying()) {
					sp.text = call
				}
				if f, recv, ok := p.dryRunCall(arg, 0); ok {
					sp.f, sp.recv = f, recv
				} else if prm, isP := stripConvs(arg).(*ssa.Parameter); isP {
					sp.recv = prm // a size handed in by the caller: resolved at the call site
				} else {
					sp.why = describeVal(arg)
				}
				out = append(out, sp)
				continue
			}
			sc := call.Call.StaticCallee()
			if sc == nil || sc.Blocks == nil || sc.Pkg != fn.Pkg || isFillFamily(sc) {
				continue
			}
			for _, sp := range sizePrintsOf(p, sc, depth+1, seen) {
				sp.via = " (printed by " + qname(sc) + " at " + sp.pos + ")"
				sp.pos = posOf(p, call)
				if sp.why == "" {
					// express the callee's value in this function's terms
					prm, isP := sp.recv.(*ssa.Parameter)
					k := -1
					if isP {
						for i, q := range sc.Params {
							if q == prm {
								k = i
							}
						}
					}
					switch {
					case k < 0 || k >= len(call.Call.Args):
						sp.why = "the helper " + qname(sc) + " prints a size that is not a function of what it is given"
					case sp.f != nil:
						sp.recv = call.Call.Args[k] // the receiver of the dry run is the callee's parameter k
					default:
						// the size itself is parameter k: it must be a dry-run call here
						a := call.Call.Args[k]
						if f, recv, ok := p.dryRunCall(stripConvs(a), 0); ok {
							sp.f, sp.recv = f, recv
						} else if q, isQ := stripConvs(a).(*ssa.Parameter); isQ {
							sp.recv = q
						} else {
							sp.why = describeVal(a) + " is passed to " + qname(sc) + ", which prints it as the size"
						}
					}
				}
				out = append(out, sp)
			}
		}
	}
	if depth == 0 {
		for i := range out {
			if out[i].why == "" && out[i].f == nil {
				out[i].why = "a size that reaches the renderer from outside (" + describeVal(out[i].recv) + ")"
			}
		}
	}
	return out
}

// writesBufferDirectly: the function stores, copies or PutUints into its own
// buffer parameter (it is a primitive, not only a composition of emissions).
func writesBufferDirectly(fn *ssa.Function, buf *ssa.Parameter) bool {
	for _, b := range fn.Blocks {
		for _, ins := range b.Instrs {
			switch x := ins.(type) {
			case *ssa.Store:
				if ia, ok := x.Addr.(*ssa.IndexAddr); ok && ia.X == ssa.Value(buf) {
					return true
				}
			case *ssa.Call:
				if bi, ok := x.Call.Value.(*ssa.Builtin); ok && bi.Name() == "copy" {
					if sl, ok := x.Call.Args[0].(*ssa.Slice); ok && sl.X == ssa.Value(buf) {
						return true
					}
				}
				if sc := x.Call.StaticCallee(); sc != nil && strings.Contains(fullName(sc), "bigEndian).PutUint") {
					if sl, ok := x.Call.Args[1].(*ssa.Slice); ok && sl.X == ssa.Value(buf) {
						return true
					}
				}
				// a result-less helper that is handed the buffer and stores into it (`putByte(data, i, b)`)
				if sc := x.Call.StaticCallee(); sc != nil && isBufHelper(sc) {
					for k, a := range x.Call.Args {
						if a == ssa.Value(buf) && k < len(sc.Params) && writesBufferDirectly(sc, sc.Params[k]) {
							return true
						}
					}
				}
			}
		}
	}
	return false
}

// isBufHelper: an unexported function without result that takes a byte slice immediately followed by an int (an
// offset into it) — a helper through which encoders write single bytes.  The offset is non-negative by contract
// (K1), checked at its call sites like that of the fill family.
func isBufHelper(fn *ssa.Function) bool {
	if fn == nil || fn.Blocks == nil || fn.Signature.Results().Len() != 0 || !closedCallSites(fn) || fn.Signature.Recv() != nil {
		return false
	}
	return bufHelperIndex(fn) >= 0
}

func bufHelperIndex(fn *ssa.Function) int {
	ps := fn.Signature.Params()
	for k := 0; k+1 < ps.Len(); k++ {
		if !isByteSlice(ps.At(k).Type()) {
			continue
		}
		if b, ok := ps.At(k + 1).Type().Underlying().(*types.Basic); ok && b.Kind() == types.Int {
			return k
		}
		return -1
	}
	return -1
}

// extentRule: the pieces a primitive writes are contiguous from the entry
// offset and their lengths add up to the returned width.
func extentRule(p *Prog, pr *Prover, fn *ssa.Function, buf, off *ssa.Parameter, ems []emission, ret *ssa.Return) (bool, string) {
	type piece struct {
		at, n Lin
		pos   string
	}
	var pieces []piece
	if len(AllLoops(fn)) > 0 {
		return false, "" // loops are handled by the byte-per-iteration rule
	}
	for _, b := range fn.Blocks {
		for _, ins := range b.Instrs {
			switch x := ins.(type) {
			case *ssa.Store:
				if ia, ok := x.Addr.(*ssa.IndexAddr); ok && ia.X == ssa.Value(buf) {
					pieces = append(pieces, piece{pr.lin(ia.Index), linConst(1), posOf(p, ins)})
				}
			case *ssa.Call:
				if bi, ok := x.Call.Value.(*ssa.Builtin); ok && bi.Name() == "copy" {
					if sl, ok := x.Call.Args[0].(*ssa.Slice); ok && sl.X == ssa.Value(buf) && sl.Low != nil && sl.High == nil {
						n := pr.lenOf(x.Call.Args[1])
						if !pr.Prove(b, pr.lenOf(x.Call.Args[0]).sub(n)) {
							return false, "copy into the buffer at " + posOf(p, ins) + " may be cut short (destination not proven large enough)"
						}
						pieces = append(pieces, piece{pr.lin(sl.Low), n, posOf(p, ins)})
					}
				}
				if sc := x.Call.StaticCallee(); sc != nil && strings.Contains(fullName(sc), "bigEndian).PutUint") {
					if sl, ok := x.Call.Args[1].(*ssa.Slice); ok && sl.X == ssa.Value(buf) && sl.Low != nil {
						n := int64(2)
						if strings.HasSuffix(fullName(sc), "32") {
							n = 4
						} else if strings.HasSuffix(fullName(sc), "64") {
							n = 8
						}
						pieces = append(pieces, piece{pr.lin(sl.Low), linConst(n), posOf(p, ins)})
					}
				}
			}
		}
	}
	for _, e := range ems {
		pieces = append(pieces, piece{pr.lin(e.offset), pr.lin(e.call), posOf(p, e.call)})
	}
	if len(pieces) == 0 {
		return false, ""
	}
	// alternatives (e.g. the two arms storing 0x00 / 0x01 at the same index) collapse
	var uniq []piece
	for _, pc := range pieces {
		dup := false
		for _, u := range uniq {
			if u.at.equal(pc.at) && u.n.equal(pc.n) {
				dup = true
			}
		}
		if !dup {
			uniq = append(uniq, pc)
		}
	}
	cur := pr.lin(off)
	total := linConst(0)
	used := make([]bool, len(uniq))
	for range uniq {
		found := false
		for i, pc := range uniq {
			if !used[i] && pc.at.equal(cur) {
				used[i] = true
				cur = cur.add(pc.n)
				total = total.add(pc.n)
				found = true
				break
			}
		}
		if !found {
			return false, "the pieces written into the buffer are not contiguous from the entry offset (gap or overlap after " + total.String() + " bytes)"
		}
	}
	rv := pr.lin(ret.Results[0])
	if call, ok := ret.Results[0].(*ssa.Call); ok {
		if bi, ok := call.Call.Value.(*ssa.Builtin); ok && bi.Name() == "copy" {
			if pr.Prove(call.Block(), pr.lenOf(call.Call.Args[0]).sub(pr.lenOf(call.Call.Args[1]))) {
				rv = pr.lenOf(call.Call.Args[1])
			}
		}
	}
	if !rv.equal(total) {
		// returns of the short-buffer side are compared by R10.3; here the value must match what is written when it is written
		return false, fmt.Sprintf("the returned width %s differs from the %s bytes written", rv, total)
	}
	return true, fmt.Sprintf("writes %d contiguous piece(s) from the entry offset totalling %s bytes, which is what it returns", len(uniq), total)
}

// byteStoreSites: where fn stores one byte into buf — `buf[i] = b`, or a call of a result-less helper that does
// exactly that with the buffer and the index it is handed (`putByte(buf, i, b)`).
type byteStoreSite struct {
	block *ssa.BasicBlock
	index ssa.Value
}

func byteStoreSites(fn *ssa.Function, buf *ssa.Parameter) []byteStoreSite {
	var out []byteStoreSite
	for _, b := range fn.Blocks {
		for _, ins := range b.Instrs {
			switch x := ins.(type) {
			case *ssa.Store:
				if ia, ok := x.Addr.(*ssa.IndexAddr); ok && ia.X == ssa.Value(buf) {
					out = append(out, byteStoreSite{b, ia.Index})
				}
			case *ssa.Call:
				sc := x.Call.StaticCallee()
				if sc == nil || !isBufHelper(sc) {
					continue
				}
				k := bufHelperIndex(sc)
				if k+1 >= len(x.Call.Args) || x.Call.Args[k] != ssa.Value(buf) {
					continue
				}
				// the helper stores exactly once, at its own (buffer, offset) pair
				n, okH := 0, true
				for _, hb := range sc.Blocks {
					for _, hi := range hb.Instrs {
						if st, ok := hi.(*ssa.Store); ok {
							ia, isIA := st.Addr.(*ssa.IndexAddr)
							if !isIA || ia.X != ssa.Value(sc.Params[k]) || ia.Index != ssa.Value(sc.Params[k+1]) {
								okH = false
							}
							n++
						}
					}
				}
				if okH && n == 1 {
					out = append(out, byteStoreSite{b, x.Call.Args[k+1]})
				}
			}
		}
	}
	return out
}

// bytePerIteration: a loop primitive that stores one byte at offset φ and
// advances φ by one on every cycle, returning the number of cycles.
func bytePerIteration(p *Prog, pr *Prover, fn *ssa.Function, buf, off *ssa.Parameter, ret *ssa.Return) (bool, string) {
	loops := AllLoops(fn)
	if len(loops) != 1 {
		return false, "more than one loop in a buffer-writing primitive"
	}
	l := loops[0]
	var phi *ssa.Phi
	nstores := 0
	sites := byteStoreSites(fn, buf)
	for _, st := range sites {
		if l.Blocks[st.block] {
			nstores++
			phi, _ = st.index.(*ssa.Phi)
		}
	}
	if nstores != 1 || phi == nil || !l.Blocks[phi.Block()] {
		return false, "the loop does not store exactly one byte at the running offset"
	}
	var step *ssa.BinOp
	for i, e := range phi.Edges {
		if !l.Blocks[phi.Block().Preds[i]] {
			if e != ssa.Value(off) {
				return false, "the running offset does not start at the entry offset"
			}
			continue
		}
		bo, ok := e.(*ssa.BinOp)
		k, isC := constInt(bo.Y)
		if !ok || bo.Op != token.ADD || bo.X != ssa.Value(phi) || !isC || k != 1 {
			return false, "the running offset is not advanced by exactly one per cycle"
		}
		step = bo
	}
	if step == nil || !acyclicWithout(l, map[*ssa.BasicBlock]bool{step.Block(): true}) {
		return false, "the offset increment is not on every cycle"
	}
	rv, ok := ret.Results[0].(*ssa.BinOp)
	// the offset after the last byte: the incremented value, or — when the loop is left from the block of the
	// running offset's phi — the phi itself (it then holds the increment of the last completed cycle)
	afterLast := ok && rv.X == ssa.Value(step)
	if ok && rv.X == ssa.Value(phi) {
		afterLast = true
		for _, e := range l.ExitEdges() {
			if e.from != phi.Block() {
				afterLast = false
			}
		}
	}
	// tail form: one more byte is stored after the loop at the running offset, and offset+1 is returned
	if ok && !afterLast {
		if add, isAdd := rv.X.(*ssa.BinOp); isAdd && add.Op == token.ADD && add.X == ssa.Value(phi) {
			if k, isC := constInt(add.Y); isC && k == 1 {
				fromHeader := true
				for _, e := range l.ExitEdges() {
					if e.from != phi.Block() {
						fromHeader = false
					}
				}
				ntail := 0
				for _, st := range sites {
					if l.Blocks[st.block] {
						continue
					}
					ntail++
					if st.index != ssa.Value(phi) {
						ntail += 100
					}
				}
				if fromHeader && ntail == 1 {
					return true, "one byte is stored at the running offset on every cycle and one more after the loop; the number of bytes stored is returned"
				}
			}
		}
	}
	if !ok || rv.Op != token.SUB || rv.Y != ssa.Value(off) || !afterLast {
		return false, "the primitive does not return (running offset after the last byte) - (entry offset): " + describeVal(ret.Results[0])
	}
	return true, "one byte is stored at the running offset on every cycle, the offset advances by one, and the number of cycles is returned"
}

type guardFinding struct {
	cons, pos, how string
	ok, unk        bool
	top            *ssa.Function   // an undecided finding about the remaining length of this packet encoder
	tops           []*ssa.Function // … or of the helper these packet encoders hand their whole frame to
}

// writeGuardFindings: for every branch of an encoder primitive that depends on the buffer, the side
// that skips the writes must entail that the buffer is too short for (one of) them:
// len(buf) < offset + extent.  A guard that is stronger than that leaves bytes of a large-enough
// buffer unwritten (they stay zero), although the width is still counted.
func writeGuardFindings(p *Prog, pr *Prover, fn *ssa.Function, buf *ssa.Parameter, ems []emission) []guardFinding {
	type piece struct {
		at, n Lin
		b     *ssa.BasicBlock
	}
	var pieces []piece
	for _, b := range fn.Blocks {
		for _, ins := range b.Instrs {
			switch x := ins.(type) {
			case *ssa.Store:
				if ia, ok := x.Addr.(*ssa.IndexAddr); ok && ia.X == ssa.Value(buf) {
					pieces = append(pieces, piece{pr.lin(ia.Index), linConst(1), b})
				}
			case *ssa.Call:
				if bi, ok := x.Call.Value.(*ssa.Builtin); ok && bi.Name() == "copy" {
					if sl, ok := x.Call.Args[0].(*ssa.Slice); ok && sl.X == ssa.Value(buf) && sl.Low != nil && sl.High == nil {
						pieces = append(pieces, piece{pr.lin(sl.Low), pr.lenOf(x.Call.Args[1]), b})
					}
				}
				if sc := x.Call.StaticCallee(); sc != nil && strings.Contains(fullName(sc), "bigEndian).PutUint") {
					if sl, ok := x.Call.Args[1].(*ssa.Slice); ok && sl.X == ssa.Value(buf) && sl.Low != nil {
						n := int64(2)
						if strings.HasSuffix(fullName(sc), "32") {
							n = 4
						} else if strings.HasSuffix(fullName(sc), "64") {
							n = 8
						}
						pieces = append(pieces, piece{pr.lin(sl.Low), linConst(n), b})
					}
				}
			}
		}
	}
	for _, e := range ems {
		pieces = append(pieces, piece{pr.lin(e.offset), pr.lin(e.call), e.call.Block()})
	}
	dependsOnBuf := func(v ssa.Value) bool {
		return dependsOn(v, func(x ssa.Value) bool { return x == ssa.Value(buf) }, map[ssa.Value]bool{})
	}
	var out []guardFinding
	ng := 0
	for _, b := range fn.Blocks {
		iff, ok := terminator(b).(*ssa.If)
		if !ok || !dependsOnBuf(iff.Cond) {
			continue
		}
		ng++
		cons := fmt.Sprintf("%s#bufguard%d", qname(fn), ng)
		pos := posOf(p, iff)
		var under [2][]piece
		for side := 0; side < 2; side++ {
			for _, pc := range pieces {
				if edgeDominates(b, b.Succs[side], pc.b) {
					under[side] = append(under[side], pc)
				}
			}
		}
		room := -1
		switch {
		case len(under[0]) > 0 && len(under[1]) == 0:
			room = 0
		case len(under[1]) > 0 && len(under[0]) == 0:
			room = 1
		}
		if room < 0 {
			out = append(out, guardFinding{cons: cons, pos: pos, unk: true, how: "a branch on the buffer that does not simply guard writes into it"})
			continue
		}
		skipFacts := pr.condFacts(iff.Cond, room == 1) // truth value of the condition on the skipping side
		proved := false
		lb := pr.lenOf(buf)
		for _, pc := range under[room] {
			// goal: at + n - len(buf) - 1 >= 0
			goal := pc.at.add(pc.n).sub(lb).add(linConst(-1))
			if pr.Prove(b, goal, skipFacts...) {
				proved = true
				break
			}
		}
		if proved {
			out = append(out, guardFinding{cons: cons, pos: pos, ok: true, how: "the writes are skipped only when the buffer ends before them"})
		} else {
			out = append(out, guardFinding{cons: cons, pos: pos, how: "the guard skips the write(s) although the buffer may be large enough for them: those bytes of the frame stay zero while the width is still counted"})
		}
	}
	return out
}

// c10Specs: the abstract packet states C10 evaluates encoders on — the C01 generator's, plus (C10's domain
// includes malformed but constructible packets) every state once more with QoS 3 and the packet without any
// filter / reason code.
func (p *Prog) c10Specs(tn string) []stateSpec {
	specs := p.stateSpecs(tn)
	if p.Method(tn, "SetQoS") != nil {
		for _, sp := range append([]stateSpec(nil), specs...) {
			if sp.bias > 0 {
				continue
			}
			sp.name += ", QoS 3"
			sp.qos = 3
			specs = append(specs, sp)
		}
	}
	// values that are constructible but outside MQTT's ranges: everything set (also what only exists together with
	// another field), and everything cleared to zero (also where zero is not a valid value)
	for _, sp := range append([]stateSpec(nil), specs...) {
		if sp.bias > 0 || !(sp.name == "all" || sp.name == "all set, then cleared with zero values") {
			continue
		}
		sp.name += ", values outside MQTT's ranges allowed"
		sp.wide = true
		specs = append(specs, sp)
	}
	if payloadList[tn] != "" {
		for _, sp := range append([]stateSpec(nil), specs...) {
			if sp.bias > 0 || !(strings.HasPrefix(sp.name, "none") || strings.HasPrefix(sp.name, "all")) || strings.Contains(sp.name, "twice") || strings.Contains(sp.name, "but") {
				continue
			}
			sp.name += ", empty payload list"
			sp.emptyList = true
			specs = append(specs, sp)
		}
	}
	return specs
}

// c10State builds the abstract state for spec (with the will packet it asks for).
func (p *Prog) c10State(tn string, spec stateSpec) (*packetState, string) {
	var wp *packetState
	if spec.will == 1 {
		wp, _ = p.willState()
	}
	if spec.will == 3 || spec.will == 1 && spec.bias > 0 {
		wp, _ = p.willFor(spec)
	}
	if spec.will == 1 && spec.willStretch > 0 {
		p.cache["stretch"] = spec.willStretch
		wp, _ = p.willState()
		delete(p.cache, "stretch")
	}
	return p.buildStateSpec(tn, spec, nil, wp)
}

// sizeByEvaluation: a method S of a packet type that is not syntactically the dry run of the type's encoder
// (`width()` as fixed.width() + rem.width() + int(rem)) but gives the same number: S and fill(nil-slice, 0) are
// evaluated on every abstract packet state of the type.  Returns the encoder when they agree on all of them;
// otherwise the reason (empty when S is not a candidate at all).
func (p *Prog) sizeByEvaluation(sz *ssa.Function) (*ssa.Function, string) {
	type res struct {
		f   *ssa.Function
		why string
	}
	key := "sizeeval:" + qname(sz)
	if v, ok := p.cache[key]; ok {
		r := v.(res)
		return r.f, r.why
	}
	p.cache[key] = res{}
	f, why := p.sizeByEvaluation1(sz)
	p.cache[key] = res{f, why}
	return f, why
}

func (p *Prog) sizeByEvaluation1(sz *ssa.Function) (*ssa.Function, string) {
	if sz == nil || sz.Blocks == nil || !p.inMQ(sz) || sz.Signature.Recv() == nil || len(sz.Params) != 1 || isFillFamily(sz) {
		return nil, ""
	}
	if sz.Signature.Results().Len() != 1 {
		return nil, ""
	}
	if bt, ok := sz.Signature.Results().At(0).Type().Underlying().(*types.Basic); !ok || bt.Kind() != types.Int {
		return nil, ""
	}
	nt := namedOf(sz.Signature.Recv().Type())
	if nt == nil {
		return nil, ""
	}
	tn := nt.Obj().Name()
	isPacket := false
	for _, x := range packetTypeNames() {
		if x == tn {
			isPacket = true
		}
	}
	fill := p.Method(tn, "fill")
	if !isPacket || fill == nil || !isFillFamily(fill) {
		return nil, ""
	}
	n := 0
	for _, spec := range p.c10Specs(tn) {
		st, why := p.c10State(tn, spec)
		if st == nil {
			return nil, "state " + spec.name + ": " + why
		}
		_, total, why := p.encoderTrace(st, fill)
		if why != "" {
			return nil, "state " + spec.name + ": " + why
		}
		ctx := p.newSym(p.globalInput())
		for k, v := range st.Mem {
			ctx.mem[k] = v
		}
		for k, v := range st.Maps {
			ctx.maps[k] = v
		}
		rs, ok := ctx.evalPure(sz, []sv{{k: 'p', addr: st.Recv}}, nil, 0)
		if !ok || len(rs) != 1 || rs[0].k != 'i' {
			return nil, "state " + spec.name + ": cannot evaluate " + qname(sz) + ": " + ctx.why
		}
		if rs[0].i != total {
			return nil, fmt.Sprintf("state %s (setters %v): %s gives %d, the encoder %s writes %d bytes", spec.name, st.Calls, qname(sz), rs[0].i, qname(fill), total)
		}
		n++
	}
	for _, ts := range p.targetedStates(tn, fill, sz) {
		_, total, why := p.encoderTrace(ts.st, fill)
		if why != "" {
			return nil, "state " + ts.name + ": " + why
		}
		ctx := p.newSym(p.globalInput())
		for k, v := range ts.st.Mem {
			ctx.mem[k] = v
		}
		for k, v := range ts.st.Maps {
			ctx.maps[k] = v
		}
		rs, ok := ctx.evalPure(sz, []sv{{k: 'p', addr: ts.st.Recv}}, nil, 0)
		if !ok || len(rs) != 1 || rs[0].k != 'i' {
			return nil, "state " + ts.name + ": cannot evaluate " + qname(sz) + ": " + ctx.why
		}
		if rs[0].i != total {
			return nil, fmt.Sprintf("state %s: %s gives %d, the encoder %s writes %d bytes", ts.name, qname(sz), rs[0].i, qname(fill), total)
		}
		n++
	}
	if n == 0 {
		return nil, "no abstract state of " + tn
	}
	return fill, fmt.Sprintf("%s and the dry run of %s give the same size on all %d abstract states (boundary-targeted ones included)", qname(sz), qname(fill), n)
}

// ---------- targeted states: a length prefix steered onto a boundary ----------

// harvestedConstants: the integer constants ≥ 100 (and within the variable byte integer range) that occur in
// the given functions and in the library functions they call (three levels deep).
func (p *Prog) harvestedConstants(roots []*ssa.Function) []int64 {
	seen := map[*ssa.Function]bool{}
	set := map[int64]bool{}
	var visit func(fn *ssa.Function, depth int)
	visit = func(fn *ssa.Function, depth int) {
		if fn == nil || seen[fn] || fn.Blocks == nil || !p.inMQ(fn) || depth > 3 {
			return
		}
		seen[fn] = true
		// the wire types' own methods are decided on their own (C15, R1.4): their constants are not thresholds of
		// the packet-level arithmetic
		if fn.Signature.Recv() != nil {
			rt := fn.Signature.Recv().Type()
			if pt, ok := rt.Underlying().(*types.Pointer); ok {
				rt = pt.Elem()
			}
			if p.wireKindOf(rt) != "" {
				return
			}
		}
		for _, k := range intConstantsOf(fn) {
			if k >= 100 && k <= vbiMax+1 {
				set[k] = true
			}
		}
		for _, b := range fn.Blocks {
			for _, ins := range b.Instrs {
				if call, ok := ins.(*ssa.Call); ok {
					if sc := call.Call.StaticCallee(); sc != nil {
						visit(sc, depth+1)
					}
				}
			}
		}
	}
	for _, r := range roots {
		visit(r, 0)
	}
	var out []int64
	for k := range set {
		out = append(out, k)
	}
	sort.Slice(out, func(i, j int) bool { return out[i] < out[j] })
	return out
}

type targetedState struct {
	name string
	st   *packetState
}

// targetedStates: abstract packet states of tn in which the remaining length, or the first property length, has
// exactly a boundary value: the sizes at which a variable byte integer grows by a byte (127/128, 16 383/16 384,
// 2 097 151/2 097 152) and the neighbourhood of every constant ≥ 100 in the encoder's own code (`extra` roots
// add theirs).  The state is the "all setters" (and the "no setter") state with the user properties stretched
// until the measured length is the target; a type without AddUserProp, or a target below what the state
// occupies anyway, yields nothing.
func (p *Prog) targetedStates(tn string, fill *ssa.Function, extra ...*ssa.Function) []targetedState {
	key := "targeted:" + tn
	for _, e := range extra {
		key += "|" + qname(e)
	}
	if v, ok := p.cache[key]; ok {
		return v.([]targetedState)
	}
	var out []targetedState
	defer func() { p.cache[key] = out }()
	if p.Method(tn, "AddUserProp") == nil || fill == nil || os.Getenv("MQV_NOTARGET") != "" {
		return nil
	}
	tset := map[int64]bool{}
	for _, k := range []int64{127, 128, 16383, 16384, 2097151, 2097152} {
		tset[k] = true
	}
	consts := p.harvestedConstants(extra) // the size function's own constants first, all of them
	more := p.harvestedConstants([]*ssa.Function{fill})
	if len(more) > 40 {
		more = append(more[:20:20], more[len(more)-20:]...)
	}
	consts = append(consts, more...)
	for _, k := range consts {
		for d := int64(-1); d <= 1; d++ {
			if k+d >= 100 && k+d <= vbiMax {
				tset[k+d] = true
			}
		}
	}
	var targets []int64
	for k := range tset {
		targets = append(targets, k)
	}
	sort.Slice(targets, func(i, j int) bool { return targets[i] < targets[j] })
	measure := func(st *packetState, which int) (int64, bool) {
		evs, _, why := p.encoderTrace(st, fill)
		if why != "" {
			return 0, false
		}
		var em []layoutEvent
		for _, e := range evs {
			if e.Width != 0 {
				em = append(em, e)
			}
		}
		if len(em) < 2 || em[1].Kind != "vbi" || em[1].Val.k != 'i' {
			return 0, false
		}
		if which == 0 {
			return em[1].Val.i, true
		}
		seen := 0
		for _, e := range em[2:] {
			if e.Kind == "vbi" && e.Src == "" && e.Val.k == 'i' && e.Op == "fill" {
				seen++
				if seen == which {
					return e.Val.i, true
				}
			}
		}
		return 0, false
	}
	whats := []string{"remaining length", "property length"}
	if p.Method(tn, "SetWill") != nil {
		whats = append(whats, "property length of the will message")
	}
	for _, baseName := range []string{"all", "none", "all+will"} {
		var base *stateSpec
		for _, sp := range p.stateSpecs(tn) {
			if sp.name == baseName {
				sp := sp
				base = &sp
			}
		}
		if base == nil {
			continue
		}
		inner := base.choose
		base.choose = func(n string) int {
			if n == "AddUserProp" {
				return 0
			}
			return inner(n)
		}
		for which, what := range whats {
			for _, t := range targets {
				if baseName == "none" && (which >= 1 || t > 200) {
					continue // the bare packet: only the first growth of the remaining-length field
				}
				if (which == 2) != (baseName == "all+will") || which == 2 && t > 20000 {
					continue // with a will message: the will's own property length only
				}
				stretch := int64(0)
				var st *packetState
				hit := false
				for iter := 0; iter < 5; iter++ {
					sp := *base
					if which == 2 {
						sp.willStretch = stretch
					} else {
						sp.stretch = stretch
					}
					s2, _ := p.c10State(tn, sp)
					if s2 == nil {
						break
					}
					m, ok := measure(s2, which)
					if !ok {
						break
					}
					if os.Getenv("MQV_TARGET") == "3" && iter == 1 && t > 2000000 {
						evs, _, _ := p.encoderTrace(s2, fill)
						for _, e := range evs {
							if e.Kind == "pair" {
								fmt.Fprintf(os.Stderr, "   pair width %d val %v\n", e.Width, e.Val)
							}
						}
					}
					if os.Getenv("MQV_TARGET") == "2" {
						fmt.Fprintf(os.Stderr, "  iter %d stretch=%d measure=%d target=%d\n", iter, stretch, m, t)
					}
					if m == t {
						st, hit = s2, true
						break
					}
					stretch += t - m
					if stretch <= 0 {
						break
					}
				}
				if os.Getenv("MQV_TARGET") != "" {
					fmt.Fprintf(os.Stderr, "target %s %s %s=%d hit=%v stretch=%d\n", tn, baseName, what, t, hit, stretch)
				}
				if hit {
					out = append(out, targetedState{name: fmt.Sprintf("%s, user properties stretched until the %s is %d", baseName, what, t), st: st})
				}
			}
		}
	}
	return out
}

// frameArithmeticProblem: the emitted frame starts with the one-byte header and a remaining-length field whose
// value is exactly the number of bytes emitted after it, in the minimal number of bytes.
func frameArithmeticProblem(evs []layoutEvent) string {
	var em []layoutEvent
	for _, e := range evs {
		if e.Width != 0 {
			em = append(em, e)
		}
	}
	switch {
	case len(em) < 2 || em[0].Kind != "byte" || em[0].Width != 1:
		return "the frame does not start with the one-byte header"
	case em[1].Kind != "vbi" || em[1].Val.k != 'i':
		return "the second item is not a determined remaining-length field"
	}
	var rest int64
	for _, e := range em[2:] {
		rest += e.Width
	}
	if em[1].Val.i != rest {
		return fmt.Sprintf("remaining length says %d but %d bytes follow it (frame of %d bytes)", em[1].Val.i, rest, 1+em[1].Width+rest)
	}
	if em[1].Width != vbiWidth(rest) {
		return fmt.Sprintf("the remaining-length field for %d occupies %d bytes", rest, em[1].Width)
	}
	return ""
}

// traceStringShort: the trace, shortened in the middle when long (stretched states carry many user properties).
func traceStringShort(evs []layoutEvent) string {
	t := traceString(evs)
	if len(t) > 900 {
		t = t[:600] + " … " + t[len(t)-250:]
	}
	return t
}

// checkFrameArithmetic (R10.7): evaluate each packet encoder on the abstract packet states of the
// C01 generator (without the well-formedness filter: C10 also covers malformed-but-constructible packets)
// and compare the remaining-length value with the widths of everything emitted after it.
func checkFrameArithmetic(p *Prog, c *Check) {
	nstates := 0
	ntargeted := 0
	for _, tn := range packetTypeNames() {
		fill := p.Method(tn, "fill")
		if fill == nil {
			c.Bad("anchor", tn, "-", "fill not found")
			continue
		}
		bad := ""
		n := 0
		specs := p.c10Specs(tn)
		for _, spec := range specs {
			st, why := p.c10State(tn, spec)
			if st == nil {
				if bad == "" {
					bad = "state " + spec.name + ": " + why
				}
				continue
			}
			evs, _, why := p.encoderTrace(st, fill)
			if why != "" {
				if bad == "" {
					bad = "state " + spec.name + ": " + why
				}
				continue
			}
			n++
			if problem := frameArithmeticProblem(evs); problem != "" && bad == "" {
				bad = fmt.Sprintf("state %s (setters %v): %s; emitted: %s", spec.name, st.Calls, problem, traceString(evs))
			}
		}
		// … and on states steered so that the remaining length, or the property length, sits on a boundary
		for _, ts := range p.targetedStates(tn, fill) {
			evs, _, why := p.encoderTrace(ts.st, fill)
			if why != "" {
				if bad == "" {
					bad = "state " + ts.name + ": " + why
				}
				continue
			}
			n++
			ntargeted++
			if problem := frameArithmeticProblem(evs); problem != "" && bad == "" {
				bad = fmt.Sprintf("state %s: %s; emitted: %s", ts.name, problem, traceStringShort(evs))
			}
		}
		nstates += n
		if bad != "" {
			c.Bad("R10.7", tn, p.Pos(fill.Pos()), bad)
		} else {
			c.OK("R10.7", tn, p.Pos(fill.Pos()), fmt.Sprintf("remaining length = bytes that follow on all %d abstract states", n))
		}
	}
	c.Measured["abstract_states"] = nstates
	c.Measured["boundary_targeted_states"] = ntargeted
}

// allEvaluatedOK: the helper's finding concerns the packet encoders that hand it their whole frame: all of them
// were discharged by the evaluation rule.
func allEvaluatedOK(c *Check, rule string, fns []*ssa.Function) bool {
	if len(fns) == 0 {
		return false
	}
	for _, f := range fns {
		if !evaluatedOK(c, rule, f) {
			return false
		}
	}
	return true
}

// evaluatedOK: the evaluation rule `rule` was discharged for the packet type whose encoder is fn.
func evaluatedOK(c *Check, rule string, fn *ssa.Function) bool {
	if fn == nil || fn.Signature.Recv() == nil {
		return false
	}
	nt := namedOf(fn.Signature.Recv().Type())
	if nt == nil {
		return false
	}
	found := false
	for _, o := range c.Obls {
		if o.Rule == rule && o.Construct == nt.Obj().Name() {
			if o.Status != Discharged {
				return false
			}
			found = true
		}
	}
	return found
}

// ---------- R10.8: length prefixes, structurally ----------

// lengthPrefixFindings decides, for every fill-family function that emits a length prefix (a variable byte
// integer whose value is computed from dry-run calls), that on every feasible path the dry-run calls that
// make up the prefix are exactly — callee for callee, receiver for receiver — the emissions that follow it:
// all emissions to the end of the frame for the remaining length of a packet's top-level encoder, the
// emissions immediately after it for a property length.  With R10.3 (dry run = real run) and R10.2
// (sizes add up) the prefix then equals the number of bytes it covers, for every packet state.
// helperDrySum: call is h(args…) where h is a one-block mq function (not of the fill family, no stores) whose
// single result is, through conversions and additions, a sum of dry-run calls F(x, nil-slice, 0) with x one of h's
// own parameters.  Returns the terms as "F on <caller's key of the argument passed for x>" (the key format of
// lengthPrefixFindings); with pr == nil only the shape is tested.
func helperDrySum(p *Prog, pr *Prover, call *ssa.Call) ([]string, bool) {
	h := call.Call.StaticCallee()
	if h == nil || h.Blocks == nil || len(h.Blocks) != 1 || isFillFamily(h) || h.Pkg == nil || h.Pkg.Pkg != p.Pkg || len(h.FreeVars) != 0 {
		return nil, false
	}
	ret, ok := terminator(h.Blocks[0]).(*ssa.Return)
	if !ok || len(ret.Results) != 1 {
		return nil, false
	}
	for _, ins := range h.Blocks[0].Instrs {
		switch ins.(type) {
		case *ssa.Store, *ssa.MapUpdate, *ssa.Send, *ssa.Go, *ssa.Defer:
			return nil, false
		}
	}
	n := 0
	var ev func(v ssa.Value, depth int) ([]string, bool)
	ev = func(v ssa.Value, depth int) ([]string, bool) {
		if depth > 12 {
			return nil, false
		}
		switch x := v.(type) {
		case *ssa.Const:
			if k, ok := constInt(x); ok && k == 0 {
				return nil, true
			}
		case *ssa.Convert:
			return ev(x.X, depth+1)
		case *ssa.ChangeType:
			return ev(x.X, depth+1)
		case *ssa.BinOp:
			if x.Op == token.ADD {
				a, ok1 := ev(x.X, depth+1)
				b, ok2 := ev(x.Y, depth+1)
				return append(a, b...), ok1 && ok2
			}
		case *ssa.Call:
			sc := x.Call.StaticCallee()
			if sc == nil || !isFillFamily(sc) || sc.Signature.Recv() == nil {
				return nil, false
			}
			args := x.Call.Args
			bi := 1
			if k := fillBufIndex(sc); k > 0 {
				bi += k
			}
			if bi+1 >= len(args) || !p.isNilSliceLoad(args[bi]) {
				return nil, false
			}
			if k, ok := constInt(args[bi+1]); !ok || k != 0 {
				return nil, false
			}
			prm, isPrm := args[0].(*ssa.Parameter)
			if !isPrm {
				return nil, false
			}
			for i, q := range h.Params {
				if q == prm && i < len(call.Call.Args) {
					n++
					key := ""
					if pr != nil {
						key = qname(sc) + " on " + pr.key(call.Call.Args[i])
					}
					return []string{key}, true
				}
			}
		}
		return nil, false
	}
	d, ok := ev(ret.Results[0], 0)
	return d, ok && n > 0
}

func lengthPrefixFindings(p *Prog, topLevel map[*ssa.Function]bool) []guardFinding {
	var out []guardFinding
	// a packet encoder that hands the whole frame to a helper of the fill family (`return fillAck(b, i, …)`): the
	// helper is the packet encoder as far as this rule is concerned
	top := map[*ssa.Function]bool{}
	for f := range topLevel {
		top[f] = true
	}
	delegates := map[*ssa.Function]*ssa.Function{}
	for changed := true; changed; {
		changed = false
		for f := range top {
			if delegates[f] != nil {
				continue
			}
			_, _, ems, _ := emissionsOf(p, f)
			if len(ems) != 1 {
				continue
			}
			sc := ems[0].call.Call.StaticCallee()
			if sc == nil || sc.Blocks == nil || !isFillFamily(sc) || sc.Pkg == nil || sc.Pkg.Pkg != p.Pkg || sc == f {
				continue
			}
			if buf, _, _, _ := emissionsOf(p, sc); buf == nil || writesBufferDirectly(sc, buf) {
				continue
			}
			delegates[f] = sc
			if !top[sc] {
				top[sc] = true
				changed = true
			}
		}
	}
	topLevel = top
	for _, fn := range p.AllFuncs() {
		if !isFillFamily(fn) || fn.Synthetic != "" {
			continue
		}
		buf, _, ems, dry := emissionsOf(p, fn)
		// a packet encoder always carries one length prefix, the remaining length (its second emission): when
		// that is not built from dry runs inside the function the rule below would have nothing to look at —
		// it is then decided by linear accounting, is the constant 0 with nothing after it, or is undecided
		topUndecided := func() {
			cons := qname(fn) + "#length-prefixes"
			pos := p.Pos(fn.Pos())
			if d := delegates[fn]; d != nil {
				out = append(out, guardFinding{cons: cons, pos: pos, ok: true, how: "the whole frame is emitted by " + qname(d) + ", which carries the remaining-length obligation"})
				return
			}
			if len(ems) == 2 {
				if len(ems[1].call.Call.Args) > 0 {
					if k, isC := constInt(stripConvs(ems[1].call.Call.Args[0])); isC && k == 0 {
						out = append(out, guardFinding{cons: cons, pos: pos, ok: true, how: "remaining length is the constant 0 and nothing is emitted after it"})
						return
					}
				}
			}
			if ar := p.fillAccounting(fn, true); ar.applicable && ar.prefixes > 0 && ar.prefixOK {
				out = append(out, guardFinding{cons: cons, pos: pos, ok: true, how: fmt.Sprintf("%d length prefix(es), %d feasible path(s): by linear accounting each prefix equals the total width of the emissions it covers", ar.prefixes, ar.paths)})
				return
			} else if ar.applicable && ar.prefixes > 0 && ar.prefixWhy != "" {
				out = append(out, guardFinding{cons: cons, pos: pos, unk: true, top: fn, how: "the remaining length is not a sum of dry runs of what follows it, and linear accounting does not settle it: " + ar.prefixWhy})
				return
			}
			what := "nothing"
			if len(ems) > 1 && len(ems[1].call.Call.Args) > 0 {
				what = describeVal(ems[1].call.Call.Args[0])
			}
			var tops []*ssa.Function
			for f, d := range delegates {
				for d != nil {
					if d == fn {
						tops = append(tops, f)
						break
					}
					d = delegates[d]
				}
			}
			out = append(out, guardFinding{cons: cons, pos: pos, unk: true, top: fn, tops: tops, how: "the remaining length of this packet encoder (" + what + ") is not computed from dry runs of what is emitted after it inside the encoder: that it equals the bytes that follow is not decided for all packet states"})
		}
		if buf == nil || len(ems) == 0 {
			continue
		}
		if len(dry) == 0 && !topLevel[fn] {
			continue
		}
		isDry := map[*ssa.Call]bool{}
		for _, d := range dry {
			isDry[d] = true
		}
		// does v depend on a dry-run call (inside fn)?
		var dependsOnDry func(v ssa.Value, seen map[ssa.Value]bool) bool
		dependsOnDry = func(v ssa.Value, seen map[ssa.Value]bool) bool {
			if seen[v] {
				return false
			}
			seen[v] = true
			switch x := v.(type) {
			case *ssa.Call:
				if isDry[x] {
					return true
				}
				_, ok := helperDrySum(p, nil, x)
				return ok
			case *ssa.Convert:
				return dependsOnDry(x.X, seen)
			case *ssa.ChangeType:
				return dependsOnDry(x.X, seen)
			case *ssa.BinOp:
				return dependsOnDry(x.X, seen) || dependsOnDry(x.Y, seen)
			case *ssa.Phi:
				for _, e := range x.Edges {
					if dependsOnDry(e, seen) {
						return true
					}
				}
			}
			return false
		}
		isPrefix := map[*ssa.Call]bool{}
		np := 0
		for _, e := range ems {
			if len(e.call.Call.Args) > 0 && e.call.Call.StaticCallee() != nil && dependsOnDry(e.call.Call.Args[0], map[ssa.Value]bool{}) {
				isPrefix[e.call] = true
				np++
			}
		}
		if np == 0 {
			if topLevel[fn] {
				topUndecided()
			}
			continue
		}
		cons := qname(fn) + "#length-prefixes"
		pos := p.Pos(fn.Pos())
		if len(AllLoops(fn)) > 0 {
			out = append(out, guardFinding{cons: cons, pos: pos, unk: true, how: "a length prefix is computed in a function with loops; the path rule does not apply"})
			continue
		}
		pr := NewProver(p, fn)
		pr.assumeContracts()
		isEm := map[*ssa.Call]bool{}
		for _, e := range ems {
			isEm[e.call] = true
		}
		keyOf := func(call *ssa.Call) string {
			if sc := call.Call.StaticCallee(); sc != nil {
				if _, isClosure := call.Call.Value.(*ssa.MakeClosure); !isClosure && sc.Signature.Recv() != nil && len(call.Call.Args) > 0 {
					return qname(sc) + " on " + pr.key(call.Call.Args[0])
				}
				if mc, isClosure := call.Call.Value.(*ssa.MakeClosure); isClosure {
					return "closure " + mc.Name()
				}
				return qname(sc)
			}
			return "value " + call.Call.Value.Name()
		}
		// paths
		type path struct {
			blocks []*ssa.BasicBlock
		}
		npaths, nchecked := 0, 0
		problem := ""
		undecided := ""
		var walk func(b *ssa.BasicBlock, blocks []*ssa.BasicBlock, facts []Lin, truth map[string]bool)
		check := func(blocks []*ssa.BasicBlock) {
			npaths++
			pred := map[*ssa.BasicBlock]*ssa.BasicBlock{}
			for i := 1; i < len(blocks); i++ {
				pred[blocks[i]] = blocks[i-1]
			}
			var seq []*ssa.Call
			for _, b := range blocks {
				for _, ins := range b.Instrs {
					if call, ok := ins.(*ssa.Call); ok && isEm[call] {
						seq = append(seq, call)
					}
				}
			}
			var evalDry func(v ssa.Value, depth int) ([]string, bool)
			evalDry = func(v ssa.Value, depth int) ([]string, bool) {
				if depth > 20 {
					return nil, false
				}
				switch x := v.(type) {
				case *ssa.Const:
					if k, ok := constInt(x); ok && k == 0 {
						return nil, true
					}
					return nil, false
				case *ssa.Convert:
					return evalDry(x.X, depth+1)
				case *ssa.ChangeType:
					return evalDry(x.X, depth+1)
				case *ssa.BinOp:
					if x.Op != token.ADD {
						return nil, false
					}
					a, ok1 := evalDry(x.X, depth+1)
					b, ok2 := evalDry(x.Y, depth+1)
					return append(a, b...), ok1 && ok2
				case *ssa.Phi:
					pb := pred[x.Block()]
					for i, pp := range x.Block().Preds {
						if pp == pb {
							return evalDry(x.Edges[i], depth+1)
						}
					}
					return nil, false
				case *ssa.Call:
					if !isDry[x] {
						// a one-block helper that returns a sum of dry runs on what it is given (remainingLen()):
						// its terms, expressed in this function's values
						if d, ok := helperDrySum(p, pr, x); ok {
							return d, true
						}
						return nil, false
					}
					// must be a real dry run: nil-slice buffer, offset 0
					args := x.Call.Args
					bi := 0
					if sc := x.Call.StaticCallee(); sc != nil && sc.Signature.Recv() != nil {
						if _, isClosure := x.Call.Value.(*ssa.MakeClosure); !isClosure {
							bi = 1
						}
					}
					if sc := x.Call.StaticCallee(); sc != nil {
						if k := fillBufIndex(sc); k > 0 {
							bi += k
						}
					}
					if bi+1 >= len(args) || !p.isNilSliceLoad(args[bi]) {
						return nil, false
					}
					if k, ok := constInt(args[bi+1]); !ok || k != 0 {
						return nil, false
					}
					return []string{keyOf(x)}, true
				}
				return nil, false
			}
			for i, call := range seq {
				if !isPrefix[call] {
					continue
				}
				nchecked++
				d, ok := evalDry(call.Call.Args[0], 0)
				if !ok {
					if undecided == "" {
						undecided = "the value of the length prefix at " + posOf(p, call) + " is not a sum of dry-run calls: " + describeVal(call.Call.Args[0])
					}
					continue
				}
				var after []string
				for _, c2 := range seq[i+1:] {
					after = append(after, keyOf(c2))
				}
				covered := after
				whole := topLevel[fn] && i == 1
				if !whole {
					if len(d) > len(after) {
						covered = after
					} else {
						covered = after[:len(d)]
					}
				}
				ds := append([]string(nil), d...)
				cs := append([]string(nil), covered...)
				sort.Strings(ds)
				sort.Strings(cs)
				if strings.Join(ds, "; ") != strings.Join(cs, "; ") {
					what := "the emissions that immediately follow it"
					if whole {
						what = "everything emitted after it"
					}
					if problem == "" {
						problem = fmt.Sprintf("on a feasible path the length prefix at %s counts [%s] but %s are [%s]", posOf(p, call), strings.Join(ds, "; "), what, strings.Join(cs, "; "))
					}
				}
			}
		}
		walk = func(b *ssa.BasicBlock, blocks []*ssa.BasicBlock, facts []Lin, truth map[string]bool) {
			if npaths > 4096 {
				return
			}
			blocks = append(blocks, b)
			switch t := terminator(b).(type) {
			case *ssa.Return:
				check(blocks)
			case *ssa.If:
				k := pr.key(t.Cond)
				for side := 0; side < 2; side++ {
					tv := side == 0
					if prev, seen := truth[k]; seen && prev != tv {
						continue
					}
					cf := pr.condFacts(t.Cond, tv)
					contradicts := false
					for _, g := range cf {
						// the earlier branches entail the negation of g (g >= 0 negated: -g - 1 >= 0)
						if pr.Prove(b, g.scale(-1).addConst(-1), facts...) {
							contradicts = true
						}
					}
					if contradicts {
						continue // this side cannot be taken after the earlier branches
					}
					nf := append(append([]Lin(nil), facts...), cf...)
					nt := map[string]bool{}
					for kk, vv := range truth {
						nt[kk] = vv
					}
					nt[k] = tv
					walk(b.Succs[side], append([]*ssa.BasicBlock(nil), blocks...), nf, nt)
				}
			case *ssa.Jump:
				walk(b.Succs[0], blocks, facts, truth)
			}
		}
		walk(fn.Blocks[0], nil, nil, map[string]bool{})
		if problem != "" || undecided != "" {
			// the prefix is not spelled as a plain sum of dry runs: decide by linear accounting of widths
			if ar := p.fillAccounting(fn, topLevel[fn]); ar.applicable && ar.prefixes > 0 && ar.prefixOK {
				out = append(out, guardFinding{cons: cons, pos: pos, ok: true, how: fmt.Sprintf("%d length prefix(es), %d feasible path(s): by linear accounting each prefix equals the total width of the emissions it covers", ar.prefixes, ar.paths)})
				continue
			} else if ar.applicable && ar.prefixes > 0 && problem == "" {
				problem = ar.prefixWhy
			}
		}
		switch {
		case npaths > 4096:
			out = append(out, guardFinding{cons: cons, pos: pos, unk: true, how: "too many paths"})
		case problem != "":
			out = append(out, guardFinding{cons: cons, pos: pos, how: problem})
		case undecided != "":
			out = append(out, guardFinding{cons: cons, pos: pos, unk: true, how: undecided})
		case nchecked == 0:
			out = append(out, guardFinding{cons: cons, pos: pos, unk: true, how: "no feasible path reaches the length prefix"})
		default:
			out = append(out, guardFinding{cons: cons, pos: pos, ok: true, how: fmt.Sprintf("%d length prefix(es), %d feasible path(s): each prefix is the sum of the dry runs of exactly the emissions it covers", np, npaths)})
		}
	}
	return out
}

// checkWriteToDelegated: `func (p *T) WriteTo(w) (int64, error) { return helper(w, p) }` where helper sizes a
// buffer with x.M(nil-slice, 0), fills it with x.M(buffer, 0) on the same interface value x, hands exactly that
// buffer to the writer in exactly one Write on every path and returns int64(n), err of that call.  The encoder
// used is then T's method M.  handled is false when fn is not of that delegating form (the ordinary rule applies).
func checkWriteToDelegated(p *Prog, c *Check, fn *ssa.Function, w *ssa.Parameter) (*ssa.Function, bool) {
	if len(fn.Blocks) != 1 {
		return nil, false
	}
	ret, ok := terminator(fn.Blocks[0]).(*ssa.Return)
	if !ok || len(ret.Results) != 2 {
		return nil, false
	}
	e0, ok0 := ret.Results[0].(*ssa.Extract)
	e1, ok1 := ret.Results[1].(*ssa.Extract)
	if !ok0 || !ok1 || e0.Tuple != e1.Tuple || e0.Index != 0 || e1.Index != 1 {
		return nil, false
	}
	call, ok := e0.Tuple.(*ssa.Call)
	if !ok {
		return nil, false
	}
	H := call.Call.StaticCallee()
	if H == nil || H.Pkg == nil || H.Pkg.Pkg != p.Pkg || len(H.Blocks) == 0 || call.Call.IsInvoke() {
		return nil, false
	}
	wi, qi := -1, -1
	for k, a := range call.Call.Args {
		if a == ssa.Value(w) {
			wi = k
		}
		if a == ssa.Value(fn.Params[0]) {
			qi = k
		}
		if mi, ok := a.(*ssa.MakeInterface); ok && mi.X == ssa.Value(fn.Params[0]) {
			qi = k
		}
	}
	if wi < 0 || qi < 0 || wi >= len(H.Params) || qi >= len(H.Params) {
		return nil, false
	}
	cons := qname(fn)
	pos := p.Pos(fn.Pos())
	// the writer must have no other use in fn
	for _, r := range *w.Referrers() {
		if _, isD := r.(*ssa.DebugRef); !isD && r != ssa.Instruction(call) {
			c.Bad("R10.1", cons, posOf(p, r), "the writer is used besides being handed to "+qname(H))
			return nil, true
		}
	}
	hw, hq := H.Params[wi], H.Params[qi]
	var wr *ssa.Call
	for _, r := range *hw.Referrers() {
		switch x := r.(type) {
		case *ssa.DebugRef:
		case *ssa.Call:
			if x.Call.IsInvoke() && x.Call.Value == ssa.Value(hw) && x.Call.Method.Name() == "Write" && wr == nil {
				wr = x
				continue
			}
			c.Bad("R10.1", cons, posOf(p, r), qname(H)+" uses the writer for more than one Write")
			return nil, true
		default:
			c.Bad("R10.1", cons, posOf(p, r), fmt.Sprintf("%s uses the writer by %T", qname(H), r))
			return nil, true
		}
	}
	if wr == nil {
		c.Bad("R10.1", cons, pos, qname(H)+" never writes")
		return nil, true
	}
	for _, b := range H.Blocks {
		if _, isR := terminator(b).(*ssa.Return); isR && !wr.Block().Dominates(b) {
			c.Bad("R10.1", cons, posOf(p, terminator(b)), qname(H)+" has an exit that does not pass through the Write")
			return nil, true
		}
	}
	if loopContaining(H, wr.Block()) != nil {
		c.Bad("R10.1", cons, posOf(p, wr), "the Write is inside a loop")
		return nil, true
	}
	buf, ok := wr.Call.Args[0].(*ssa.MakeSlice)
	var marshalRet ssa.Instruction
	if mcall, isCall := wr.Call.Args[0].(*ssa.Call); !ok && isCall && !mcall.Call.IsInvoke() {
		// `w.Write(marshal(p))`: a straight-line function of the library that makes the buffer, fills it and returns it;
		// its result has no other use than the Write
		if mh := mcall.Call.StaticCallee(); mh != nil && p.inMQ(mh) && len(mh.Blocks) == 1 {
			qi2 := -1
			for k, a := range mcall.Call.Args {
				if a == ssa.Value(hq) {
					qi2 = k
				}
			}
			only := true
			for _, r := range *mcall.Referrers() {
				if _, isD := r.(*ssa.DebugRef); !isD && r != ssa.Instruction(wr) {
					only = false
				}
			}
			if mret, isRet := terminator(mh.Blocks[0]).(*ssa.Return); isRet && len(mret.Results) == 1 && qi2 >= 0 && qi2 < len(mh.Params) && only {
				if ms, isMs := mret.Results[0].(*ssa.MakeSlice); isMs {
					buf, ok = ms, true
					hq = mh.Params[qi2]
					marshalRet = mret
				}
			}
		}
	}
	if !ok || buf.Cap != buf.Len {
		c.Bad("R10.1", cons, posOf(p, wr), "the argument of Write in "+qname(H)+" is not the freshly made buffer itself")
		return nil, true
	}
	// calls of a method of the filler parameter: x.M(buffer, offset)
	onFiller := func(v ssa.Value) (*ssa.Call, string, []ssa.Value) {
		cl, ok := v.(*ssa.Call)
		if !ok {
			return nil, "", nil
		}
		if cl.Call.IsInvoke() && cl.Call.Value == ssa.Value(hq) {
			return cl, cl.Call.Method.Name(), cl.Call.Args
		}
		if sc := cl.Call.StaticCallee(); sc != nil && sc.Signature.Recv() != nil && len(cl.Call.Args) > 0 && cl.Call.Args[0] == ssa.Value(hq) {
			return cl, sc.Name(), cl.Call.Args[1:]
		}
		return nil, "", nil
	}
	dry, M, dargs := onFiller(buf.Len)
	widthName := "" // the buffer may be sized through x.width(), an accessor that is the dry run of the fill method
	switch {
	case dry != nil && len(dargs) == 0:
		widthName, M = M, ""
	case dry == nil || len(dargs) < 2 || !p.isNilSliceLoad(dargs[0]):
		c.Bad("R10.1", cons, posOf(p, buf), "the buffer in "+qname(H)+" is not sized by a dry run x.fill(nil-slice, 0) of the value handed in: "+describeVal(buf.Len))
		return nil, true
	default:
		if k, isC := constInt(dargs[1]); !isC || k != 0 {
			c.Bad("R10.1", cons, posOf(p, buf), "the dry run does not start at offset 0")
			return nil, true
		}
	}
	var real *ssa.Call
	for _, r := range *buf.Referrers() {
		if _, isD := r.(*ssa.DebugRef); isD || r == ssa.Instruction(wr) || (marshalRet != nil && r == marshalRet) {
			continue
		}
		rc, m2, rargs := onFiller(valueOf(r))
		if M == "" && rc != nil {
			M = m2
		}
		if rc == nil || m2 != M || real != nil || len(rargs) < 2 || rargs[0] != ssa.Value(buf) {
			c.Bad("R10.1", cons, posOf(p, r), "the frame buffer is used by something other than one "+M+"(buffer, 0) on the same value and the Write: "+r.String())
			return nil, true
		}
		if k, isC := constInt(rargs[1]); !isC || k != 0 {
			c.Bad("R10.1", cons, posOf(p, r), "the real run does not start at offset 0")
			return nil, true
		}
		real = rc
	}
	if marshalRet != nil && real != nil && real.Block() == marshalRet.Block() {
		// filled in the straight-line helper, before its return
	} else if real == nil || !real.Block().Dominates(wr.Block()) || (real.Block() == wr.Block() && instrIndex(real) > instrIndex(wr)) {
		c.Bad("R10.1", cons, posOf(p, buf), "the buffer is not filled before it is written")
		return nil, true
	}
	for _, b := range H.Blocks {
		hr, isR := terminator(b).(*ssa.Return)
		if !isR {
			continue
		}
		cv, isConv := hr.Results[0].(*ssa.Convert)
		var nx *ssa.Extract
		if isConv {
			nx, _ = cv.X.(*ssa.Extract)
		}
		ex, isEx := hr.Results[1].(*ssa.Extract)
		if nx == nil || nx.Tuple != ssa.Value(wr) || nx.Index != 0 || !isEx || ex.Tuple != ssa.Value(wr) || ex.Index != 1 {
			c.Bad("R10.1", cons, posOf(p, hr), qname(H)+" does not return int64(n), err of the Write call")
			return nil, true
		}
	}
	// the encoder is the receiver type's method M
	var f *ssa.Function
	if pt, ok := fn.Params[0].Type().Underlying().(*types.Pointer); ok {
		if nt := namedOf(pt.Elem()); nt != nil {
			f = p.Method(nt.Obj().Name(), M)
		}
	} else if nt := namedOf(fn.Params[0].Type()); nt != nil {
		f = p.Method(nt.Obj().Name(), M)
	}
	if f == nil {
		c.Unk("R10.1", cons, pos, "cannot resolve the method "+M+" of the receiver type")
		return nil, true
	}
	if widthName != "" {
		// T.width() must be the dry run of T.M on the same receiver
		okW := false
		var tn string
		if pt, ok := fn.Params[0].Type().Underlying().(*types.Pointer); ok {
			if nt := namedOf(pt.Elem()); nt != nil {
				tn = nt.Obj().Name()
			}
		} else if nt := namedOf(fn.Params[0].Type()); nt != nil {
			tn = nt.Obj().Name()
		}
		if w := p.Method(tn, widthName); w != nil && len(w.Blocks) == 1 {
			if wr, ok := terminator(w.Blocks[0]).(*ssa.Return); ok && len(wr.Results) == 1 {
				if g, recv, ok := p.dryRunCall(wr.Results[0], 0); ok && g == f && recv == ssa.Value(w.Params[0]) {
					okW = true
				}
			}
		}
		if !okW {
			c.Bad("R10.1", cons, pos, "the buffer in "+qname(H)+" is sized by "+widthName+"(), which is not the dry run of "+qname(f)+" on the same receiver")
			return nil, true
		}
	}
	c.OK("R10.1", cons, pos, "delegates to "+qname(H)+": buffer = make(dry run of the receiver's "+M+"); filled once by the same method on the same value from offset 0; one Write of that buffer on every path; results forwarded")
	return f, true
}

func valueOf(i ssa.Instruction) ssa.Value {
	v, _ := i.(ssa.Value)
	return v
}

// alwaysPanics: fn has no return (every path ends in a panic).
func (p *Prog) alwaysPanics(fn *ssa.Function) bool {
	for _, b := range fn.Blocks {
		if _, ok := terminator(b).(*ssa.Return); ok {
			return false
		}
	}
	return true
}
