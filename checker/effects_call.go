package main

import (
	"go/types"

	"golang.org/x/tools/go/ssa"
)

// external callees whose effects are modelled.  "pure" = reads its arguments
// only; result (if pointer-like) is fresh.
var externPure = map[string]bool{
	"fmt.Sprintf": true, "fmt.Sprint": true, "fmt.Sprintln": true, "fmt.Errorf": true,
	"errors.New": true, "bytes.Repeat": true, "bytes.Equal": true, "bytes.Compare": true,
	"strconv.FormatInt": true, "strconv.Itoa": true, "strconv.FormatUint": true, "strconv.Quote": true,
	"(time.Duration).String": true, "(*strings.Builder).String": true, "(*strings.Builder).Len": true,
	"(encoding/binary.bigEndian).Uint16": true, "(encoding/binary.bigEndian).Uint32": true, "(encoding/binary.bigEndian).Uint64": true,
	"strings.Repeat": true, "strings.Join": true, "strings.ToUpper": true, "strings.ToLower": true, "strings.TrimSpace": true,
	"strings.HasPrefix": true, "strings.HasSuffix": true, "strings.Contains": true, "strings.Index": true,
	"unicode/utf8.Valid": true, "unicode/utf8.ValidString": true, "errors.Is": true, "errors.As": false,
	"sort.Strings": false,
	// pure, deterministic, never panicking, work linear in the arguments, result a scalar or a fresh/immutable value
	"bytes.HasPrefix": true, "bytes.HasSuffix": true, "bytes.IndexByte": true, "bytes.Index": true, "bytes.LastIndex": true,
	"bytes.Contains": true, "bytes.ContainsAny": true, "bytes.ContainsRune": true, "bytes.Count": true, "bytes.EqualFold": true,
	"strings.IndexByte": true, "strings.LastIndex": true, "strings.ContainsAny": true, "strings.ContainsRune": true, "strings.Count": true,
	"strings.EqualFold": true, "strings.Compare": true, "strings.TrimPrefix": true, "strings.TrimSuffix": true, "strings.Trim": true,
	"strings.TrimLeft": true, "strings.TrimRight": true, "strings.ReplaceAll": true, "strings.Replace": true, "strings.Fields": true,
	"strings.Split": true, "strings.SplitN": true,
	"strconv.FormatBool": true, "strconv.QuoteToASCII": true,
	"unicode/utf8.RuneCount": true, "unicode/utf8.RuneCountInString": true, "unicode/utf8.RuneLen": true, "unicode/utf8.ValidRune": true,
	"math/bits.Len": true, "math/bits.Len8": true, "math/bits.Len16": true, "math/bits.Len32": true, "math/bits.Len64": true,
	"math/bits.OnesCount8": true, "math/bits.OnesCount": true, "math/bits.TrailingZeros8": true, "math/bits.TrailingZeros": true,
	"math/bits.LeadingZeros8": true, "math/bits.LeadingZeros": true,
	"errors.Unwrap": true,
}

// external callees that write through one argument only (index into the
// call's argument list, receiver first).
var externWritesArg = map[string]int{
	"(encoding/binary.bigEndian).PutUint16": 1, "(encoding/binary.bigEndian).PutUint32": 1, "(encoding/binary.bigEndian).PutUint64": 1,
	"(*strings.Builder).WriteString": 0, "(*strings.Builder).WriteByte": 0, "(*strings.Builder).Write": 0, "(*strings.Builder).WriteRune": 0,
	"(*strings.Builder).Grow": 0, "(*strings.Builder).Reset": 0,
	"(*bytes.Buffer).WriteString": 0, "(*bytes.Buffer).WriteByte": 0, "(*bytes.Buffer).Write": 0, "(*bytes.Buffer).Grow": 0,
}

var fmtWriterFuncs = map[string]bool{"fmt.Fprintf": true, "fmt.Fprint": true, "fmt.Fprintln": true}

func (st *fnState) reachStrict(a PSet) PSet { return st.reachAll(st.load(a)) }

func (st *fnState) tupleSet(call ssa.Value, rs []PSet) {
	if st.tupleRes == nil {
		st.tupleRes = map[ssa.Value][]PSet{}
	}
	old := st.tupleRes[call]
	if old == nil {
		old = make([]PSet, len(rs))
		for i := range old {
			old[i] = PSet{}
		}
		st.tupleRes[call] = old
	}
	for i := range rs {
		if i < len(old) && old[i].addAll(rs[i]) {
			st.changed = true
		}
	}
}

func (st *fnState) setResult(v *ssa.Call, rs []PSet) {
	if v == nil {
		return
	}
	n := v.Common().Signature().Results().Len()
	if n == 1 {
		if len(rs) > 0 && pointerLike(v.Type()) {
			st.set(v, rs[0])
		}
		return
	}
	st.tupleSet(v, rs)
}

func (st *fnState) call(v *ssa.Call, cc *ssa.CallCommon, insOpt ...ssa.Instruction) {
	var ins ssa.Instruction = v
	if v == nil {
		ins = insOpt[0]
	}
	site := ins.(ssa.CallInstruction)
	nres := cc.Signature().Results().Len()
	freshRes := func() []PSet {
		rs := make([]PSet, nres)
		for i := range rs {
			rs[i] = PSet{}
			if v != nil && pointerLike(cc.Signature().Results().At(i).Type()) {
				rs[i].add(Prov{Kind: PFresh, V: v})
			}
		}
		return rs
	}
	// ---- builtins
	if b, ok := cc.Value.(*ssa.Builtin); ok {
		switch b.Name() {
		case "copy":
			var val PSet
			if sl, ok := cc.Args[0].Type().Underlying().(*types.Slice); ok && pointerLike(sl.Elem()) {
				val = st.load(st.get(cc.Args[1]))
			}
			st.storeInto(st.get(cc.Args[0]), val, ins, ECopy, "", "")
		case "append":
			base := st.get(cc.Args[0])
			me := Prov{Kind: PFresh, V: v}
			var val PSet
			if sl, ok := cc.Args[0].Type().Underlying().(*types.Slice); ok && pointerLike(sl.Elem()) {
				val = PSet{}
				if len(cc.Args) > 1 {
					val.addAll(st.load(st.get(cc.Args[1])))
				}
				val.addAll(st.load(base))
			}
			// writes into spare capacity of the base
			if len(cc.Args) > 1 {
				st.storeInto(base, val, ins, EAppend, "", "")
			}
			st.storeInto(PSet{me: true}, val, ins, EAppend, "", "")
			if v != nil {
				st.set(v, base)
				st.set(v, PSet{me: true})
			}
		case "delete", "clear":
			st.storeInto(st.get(cc.Args[0]), nil, ins, EMap, "", "")
		case "close":
			st.storeInto(st.get(cc.Args[0]), nil, ins, ESend, "", "")
		}
		return
	}
	// ---- static external
	if sc := cc.StaticCallee(); sc != nil && sc.Blocks == nil {
		name := fullName(sc)
		switch {
		case name == "io.ReadFull" || name == "io.ReadAtLeast":
			for t := range st.get(cc.Args[0]) {
				st.sum.Writes = append(st.sum.Writes, Effect{Target: t, Kind: EReader, Ins: ins})
			}
			st.storeInto(st.get(cc.Args[1]), nil, ins, EExtern, "", name)
			st.setResult(v, freshRes())
		case fmtWriterFuncs[name]:
			for t := range st.get(cc.Args[0]) {
				st.sum.Writes = append(st.sum.Writes, Effect{Target: t, Kind: EWriter, Ins: ins})
			}
			st.setResult(v, freshRes())
		case externPure[name]:
			rs := freshRes()
			// the result may hold on to its (interface) operands, e.g. %w
			if fc := AsFmtCall(site); fc != nil && v != nil {
				me := Prov{Kind: PFresh, V: v}
				for _, a := range fc.Args {
					if pointerLike(a.Type()) {
						st.storeInto(PSet{me: true}, st.get(a), ins, EStore, "", "")
					}
				}
			}
			st.setResult(v, rs)
		default:
			if idx, ok := externWritesArg[name]; ok {
				st.storeInto(st.get(cc.Args[idx]), nil, ins, EExtern, "", name)
				st.setResult(v, freshRes())
			} else {
				st.sum.Writes = append(st.sum.Writes, Effect{Target: Prov{Kind: PUnknown}, Kind: EUnknown, Ins: ins, Note: "external function " + name + " is not in the model table"})
				rs := make([]PSet, nres)
				for i := range rs {
					rs[i] = PSet{Prov{Kind: PUnknown}: true}
				}
				st.setResult(v, rs)
			}
		}
		// reflective callees of fmt are translated below
		if !fmtWriterFuncs[name] && !externPure[name] {
			return
		}
	}
	// ---- resolved callees
	var callees []*ssa.Function
	var external bool
	if st.callInfo == nil {
		st.callInfo = map[ssa.CallInstruction]*CallInfo{}
		cis := st.e.p.Calls(st.fn)
		for i := range cis {
			st.callInfo[cis[i].Site] = &cis[i]
		}
	}
	if ci := st.callInfo[site]; ci != nil {
		{
			callees, external = ci.Callees, ci.External
			if ci.Ext != nil {
				external = false // handled above
			}
			if ci.Fmt != nil {
				// receivers of the reflective calls: any of the operands
				all := PSet{}
				for _, a := range ci.Fmt.Args {
					all.addAll(st.get(a))
				}
				for _, cal := range callees {
					st.translate(site, v, cal, []PSet{all}, nil, true)
				}
				return
			}
		}
	}
	if cc.IsInvoke() && external {
		// dynamic call on an interface declared outside mq
		m := cc.Method.Name()
		recv := st.get(cc.Value)
		switch {
		case m == "Write" && len(cc.Args) == 1:
			for t := range recv {
				st.sum.Writes = append(st.sum.Writes, Effect{Target: t, Kind: EWriter, Ins: ins})
			}
			st.setResult(v, freshRes())
		case m == "Read" && len(cc.Args) == 1:
			for t := range recv {
				st.sum.Writes = append(st.sum.Writes, Effect{Target: t, Kind: EReader, Ins: ins})
			}
			st.storeInto(st.get(cc.Args[0]), nil, ins, EExtern, "", "Read")
			st.setResult(v, freshRes())
		case m == "Error" || m == "String":
			if len(callees) == 0 {
				// foreign implementation: assumed to be a pure renderer
			}
			st.setResult(v, freshRes())
		default:
			st.sum.Writes = append(st.sum.Writes, Effect{Target: Prov{Kind: PUnknown}, Kind: EUnknown, Ins: ins, Note: "dynamic call of " + m + " on a foreign interface"})
			rs := make([]PSet, nres)
			for i := range rs {
				rs[i] = PSet{Prov{Kind: PUnknown}: true}
			}
			st.setResult(v, rs)
		}
	}
	if len(callees) == 0 && !external && cc.StaticCallee() == nil {
		st.sum.Writes = append(st.sum.Writes, Effect{Target: Prov{Kind: PUnknown}, Kind: EUnknown, Ins: ins, Note: "dynamic call with no resolved callee"})
		return
	}
	// actual arguments, receiver first
	var actual []PSet
	if cc.IsInvoke() {
		actual = append(actual, st.get(cc.Value))
	}
	for _, a := range cc.Args {
		actual = append(actual, st.get(a))
	}
	var closure PSet
	if !cc.IsInvoke() && cc.StaticCallee() == nil {
		closure = st.get(cc.Value)
	} else if mc, ok := cc.Value.(*ssa.MakeClosure); ok {
		closure = st.get(mc)
	}
	for _, cal := range callees {
		act := actual
		if cc.IsInvoke() && len(actual) > 0 && len(cal.Params) > 0 {
			// a method of T can only be reached with a receiver of dynamic type T
			rt := cal.Params[0].Type()
			filtered := PSet{}
			for a := range actual[0] {
				if a.Kind == PFresh && a.F == 0 {
					if al, ok := a.V.(*ssa.Alloc); ok && !types.Identical(al.Type(), rt) {
						if _, isPtr := rt.Underlying().(*types.Pointer); isPtr {
							continue
						}
					}
				}
				filtered.add(a)
			}
			act = append([]PSet{filtered}, actual[1:]...)
		}
		st.translate(site, v, cal, act, closure, false)
	}
}

// translate imports the summary of callee at this call site.
func (st *fnState) translate(site ssa.CallInstruction, v *ssa.Call, callee *ssa.Function, actual []PSet, closure PSet, reflective bool) {
	sum := st.e.Summary(callee)
	ins := site.(ssa.Instruction)
	var imported map[ssa.Value]bool
	var tr, trRaw func(p Prov) PSet
	var importFresh func(p Prov)
	importFresh = func(p Prov) {
		if imported == nil {
			imported = map[ssa.Value]bool{}
		}
		if imported[p.V] {
			return
		}
		imported[p.V] = true
		if sum.Contents == nil {
			return
		}
		for f, cs := range sum.Contents.m[p.V] {
			for c := range cs {
				if st.contents.add(Prov{Kind: PFresh, V: p.V, F: f}, tr(c)) {
					st.changed = true
				}
			}
		}
	}
	memo := map[Prov]PSet{}
	tr0 := func(p Prov) PSet { return nil }
	_ = tr0
	tr = func(p Prov) PSet {
		if r, ok := memo[p]; ok {
			return r
		}
		r := trRaw(p)
		memo[p] = r
		return r
	}
	trRaw = func(p Prov) PSet {
		switch p.Kind {
		case PParam:
			if p.Idx < len(actual) {
				return actual[p.Idx].withF(p.F)
			}
			if reflective && len(actual) > 0 {
				return actual[0]
			}
			return PSet{}
		case PParamR:
			if p.Idx < len(actual) {
				return st.reachStrict(actual[p.Idx].withF(p.F))
			}
			if reflective && len(actual) > 0 {
				return st.reachStrict(actual[0])
			}
			return PSet{}
		case PFree:
			return st.load(closure.withF(p.Idx + 1)).withF(p.F)
		case PFreeR:
			return st.reachStrict(st.load(closure.withF(p.Idx + 1)).withF(p.F))
		case PFresh:
			importFresh(p)
			return PSet{p: true}
		}
		return PSet{p: true}
	}
	for _, w := range sum.Writes {
		for t := range tr(w.Target) {
			if t.Kind == PFresh {
				continue
			}
			ch := append([]ssa.Instruction{ins}, w.Chain...)
			st.sum.Writes = append(st.sum.Writes, Effect{Target: t, Kind: w.Kind, Ins: w.Ins, Chain: ch, Note: w.Note, Field: w.Field})
		}
	}
	for _, r := range sum.Retains {
		vals := tr(r.Val)
		for into := range tr(r.Into) {
			if into.Kind == PFresh {
				if st.contents.add(into, vals) {
					st.changed = true
				}
				continue
			}
			for val := range st.reachAll(vals) {
				if val.Kind == PFresh {
					continue
				}
				ch := append([]ssa.Instruction{ins}, r.Chain...)
				st.sum.Retains = append(st.sum.Retains, Retain{Val: val, Into: into, Ins: r.Ins, Chain: ch})
			}
		}
	}
	if v != nil && !reflective {
		rs := make([]PSet, len(sum.Results))
		for i, r := range sum.Results {
			rs[i] = PSet{}
			for p := range r {
				rs[i].addAll(tr(p))
			}
		}
		st.setResult(v, rs)
	}
}
