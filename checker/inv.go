package main

// Representation invariants of the form
//     (obj.g & MASK == MASK)  ⇒  obj.f != nil
// for a struct type T with a byte-sized flag field g and a pointer field f
// (CONNECT: will flag ⇒ will message).  The invariant is proven over every
// instruction of the package that can write g or f.

import (
	"fmt"
	"go/token"
	"go/types"
	"strings"

	"golang.org/x/tools/go/ssa"
)

type FlagInv struct {
	T    *types.Named
	G    int
	Mask uint64
	F    int
}

func (inv FlagInv) String() string {
	st := inv.T.Underlying().(*types.Struct)
	return fmt.Sprintf("%s.%s&%#x == %#x ⇒ %s.%s != nil", inv.T.Obj().Name(), st.Field(inv.G).Name(), inv.Mask, inv.Mask, inv.T.Obj().Name(), st.Field(inv.F).Name())
}

func (inv FlagInv) key() string {
	return fmt.Sprintf("%s|%d|%d|%d", inv.T.Obj().Name(), inv.G, inv.Mask, inv.F)
}

// hasLike: fn(x, m) returns (x & m) == m.
func hasLike(fn *ssa.Function) bool {
	if fn == nil || len(fn.Blocks) != 1 || len(fn.Params) != 2 {
		return false
	}
	ret, ok := terminator(fn.Blocks[0]).(*ssa.Return)
	if !ok || len(ret.Results) != 1 {
		return false
	}
	eq, ok := ret.Results[0].(*ssa.BinOp)
	if !ok || eq.Op != token.EQL {
		return false
	}
	and, ok := eq.X.(*ssa.BinOp)
	m := eq.Y
	if !ok || and.Op != token.AND {
		and, ok = eq.Y.(*ssa.BinOp)
		m = eq.X
		if !ok || and.Op != token.AND {
			return false
		}
	}
	if m != ssa.Value(fn.Params[1]) {
		return false
	}
	a, b := stripConvs(and.X), stripConvs(and.Y)
	return a == ssa.Value(fn.Params[0]) && b == ssa.Value(fn.Params[1]) || b == ssa.Value(fn.Params[0]) && a == ssa.Value(fn.Params[1])
}

// flagTest recognises cond as Has(load(&X.g), MASK) and returns X, g, MASK.
func flagTest(cond ssa.Value) (ld *ssa.UnOp, fa *ssa.FieldAddr, mask uint64, ok bool) {
	call, isCall := cond.(*ssa.Call)
	if !isCall || len(call.Call.Args) != 2 {
		return nil, nil, 0, false
	}
	sc := call.Call.StaticCallee()
	if !hasLike(sc) {
		return nil, nil, 0, false
	}
	k, isC := constInt(call.Call.Args[1])
	if !isC {
		return nil, nil, 0, false
	}
	l, isL := stripConvs(call.Call.Args[0]).(*ssa.UnOp)
	if !isL || l.Op != token.MUL {
		return nil, nil, 0, false
	}
	f, isF := l.X.(*ssa.FieldAddr)
	if !isF {
		return nil, nil, 0, false
	}
	return l, f, uint64(k), true
}

// guardOf: is block b dominated by the true edge of a flag test on object R?
func guardOf(pr *Prover, b *ssa.BasicBlock, R ssa.Value) (g int, mask uint64, ok bool) {
	rk := pr.key(stripNilChk(R))
	for _, dc := range domConds(b) {
		if !dc.truth {
			continue
		}
		ld, fa, m, isT := flagTest(dc.cond)
		if !isT || pr.key(stripNilChk(fa.X)) != rk {
			continue
		}
		// the flag must not have been rewritten since it was loaded
		if pr.verAt != nil && len(b.Instrs) > 0 {
			if v := pr.verAt(b.Instrs[0], classOf(fa)); v != "" && v != pr.loadVer[ld] {
				continue
			}
		}
		return fa.Field, m, true
	}
	return 0, 0, false
}

func reachesAvoiding(from, to *ssa.BasicBlock, avoid map[*ssa.BasicBlock]bool) bool {
	if avoid[from] {
		return false
	}
	seen := map[*ssa.BasicBlock]bool{from: true}
	work := []*ssa.BasicBlock{from}
	for len(work) > 0 {
		b := work[len(work)-1]
		work = work[:len(work)-1]
		if b == to {
			return true
		}
		for _, s := range b.Succs {
			if !seen[s] && !avoid[s] {
				seen[s] = true
				work = append(work, s)
			}
		}
	}
	return false
}

type invSite struct {
	fn   *ssa.Function
	ins  ssa.Instruction
	base ssa.Value
	what string
}

// checkFlagInv proves inv over all writers; one obligation per writing site.
func (p *Prog) checkFlagInv(c *Check, rule string, inv FlagInv) bool {
	key := "inv:" + inv.key()
	if v, ok := p.cache[key]; ok && c == nil {
		return v.(bool)
	}
	okAll := true
	st := inv.T.Underlying().(*types.Struct)
	gname := inv.T.Obj().Name() + "." + st.Field(inv.G).Name()
	fname := inv.T.Obj().Name() + "." + st.Field(inv.F).Name()
	isField := func(a ssa.Value, idx int) (*ssa.FieldAddr, bool) {
		fa, ok := a.(*ssa.FieldAddr)
		if !ok || fa.Field != idx {
			return nil, false
		}
		pt, ok := fa.X.Type().Underlying().(*types.Pointer)
		if !ok || !types.Identical(pt.Elem(), inv.T) {
			return nil, false
		}
		return fa, true
	}
	record := func(cons, pos string, ok bool, how string) {
		if c != nil {
			if ok {
				c.OK(rule, cons, pos, how)
			} else {
				c.Unk(rule, cons, pos, how)
			}
		}
		if !ok {
			okAll = false
		}
	}
	nsites := 0
	for _, fn := range p.AllFuncs() {
		var pr *Prover
		getPr := func() *Prover {
			if pr == nil {
				pr = NewProver(p, fn)
				pr.assumeContracts()
			}
			return pr
		}
		// collect g-writing instructions of this function first (needed by post)
		type gw struct {
			ins    ssa.Instruction
			fa     *ssa.FieldAddr
			maySet bool
			how    string
		}
		var gwrites []gw
		for _, b := range fn.Blocks {
			for _, ins := range b.Instrs {
				fa, ok := ins.(*ssa.FieldAddr)
				if !ok {
					continue
				}
				if _, isG := isField(fa, inv.G); !isG {
					continue
				}
				for _, r := range *fa.Referrers() {
					switch x := r.(type) {
					case *ssa.DebugRef, *ssa.UnOp:
					case *ssa.Store:
						if x.Addr != ssa.Value(fa) {
							gwrites = append(gwrites, gw{x, fa, true, "the address of the flag field is stored"})
							continue
						}
						prv := getPr()
						isOld := func(v ssa.Value) bool {
							ld, ok := v.(*ssa.UnOp)
							if !ok || ld.Op != token.MUL {
								return false
							}
							ofa, ok := isField(ld.X, inv.G)
							if !ok || prv.key(stripNilChk(ofa.X)) != prv.key(stripNilChk(fa.X)) {
								return false
							}
							return prv.verAt == nil || prv.loadVer[ld] == prv.verAt(x, classOf(fa))
						}
						ms := p.maySet(x.Val, isOld, 0)
						if ms.pure() && ms.mask&inv.Mask == 0 {
							gwrites = append(gwrites, gw{x, fa, false, fmt.Sprintf("store can newly set only bits %#x", ms.mask)})
						} else {
							gwrites = append(gwrites, gw{x, fa, true, "store may set the flag"})
						}
					case *ssa.Call:
						handled := false
						if sc := x.Call.StaticCallee(); sc != nil && sc.Blocks != nil {
							for j, a := range x.Call.Args {
								if a != ssa.Value(fa) {
									continue
								}
								sub, ok := p.paramWriteBits(sc, j, 0)
								if !ok {
									break
								}
								handled = true
								if !sub.writes {
									continue
								}
								set := p.substBits(sub.set, x.Call.Args)
								if set.pure() && set.mask&inv.Mask == 0 {
									gwrites = append(gwrites, gw{x, fa, false, fmt.Sprintf("%s can newly set only bits %#x here", qname(sc), set.mask)})
								} else {
									gwrites = append(gwrites, gw{x, fa, true, qname(sc) + " may set the flag here"})
								}
							}
						}
						if !handled {
							gwrites = append(gwrites, gw{x, fa, true, "the flag field's address is handed to a call that may write anything"})
						}
					case *ssa.MakeInterface:
						// consumed by calls
						n := 0
						for _, r2 := range *x.Referrers() {
							if ci, ok := r2.(ssa.CallInstruction); ok {
								n++
								gwrites = append(gwrites, gw{ci.(ssa.Instruction), fa, true, "the flag field is decoded into through an interface"})
							} else if _, ok := r2.(*ssa.DebugRef); !ok {
								gwrites = append(gwrites, gw{r2, fa, true, "the flag field's address escapes"})
							}
						}
					default:
						gwrites = append(gwrites, gw{r, fa, true, fmt.Sprintf("the flag field's address is used by %T", r)})
					}
				}
			}
		}
		// post: after instruction s the invariant is re-established for object X on every exit
		post := func(s ssa.Instruction, X ssa.Value) (bool, string) {
			prv := getPr()
			xk := prv.key(stripNilChk(X))
			var fstores []*ssa.Store
			for _, b := range fn.Blocks {
				for _, ins := range b.Instrs {
					if stt, ok := ins.(*ssa.Store); ok {
						if ffa, ok := isField(stt.Addr, inv.F); ok && prv.key(stripNilChk(ffa.X)) == xk {
							fstores = append(fstores, stt)
						}
					}
				}
			}
			valOK := func(stt *ssa.Store, r *ssa.BasicBlock) bool {
				if prv.NonNil(stt.Val, stt.Block(), 0) {
					return true
				}
				// dereferenced before the exit: a nil value would have panicked
				if refs := stt.Val.Referrers(); refs != nil {
					for _, rr := range *refs {
						switch d := rr.(type) {
						case *ssa.FieldAddr:
							if d.X == stt.Val && d.Block().Dominates(r) {
								return true
							}
						case *ssa.UnOp:
							if d.Op == token.MUL && d.X == stt.Val && d.Block().Dominates(r) {
								return true
							}
						}
					}
				}
				return false
			}
			for _, rb := range fn.Blocks {
				if _, ok := terminator(rb).(*ssa.Return); !ok {
					continue
				}
				if !(rb == s.Block() || blocksReachableFrom(s.Block())[rb]) {
					continue
				}
				ok := false
				// (1) f is stored non-nil on every path to this exit
				for _, stt := range fstores {
					if stt.Block().Dominates(rb) && valOK(stt, rb) {
						later := false
						for _, o := range fstores {
							if o != stt && (blocksReachableFrom(stt.Block())[o.Block()] || o.Block() == stt.Block() && instrIndex(o) > instrIndex(stt)) {
								later = true
							}
						}
						if !later {
							ok = true
						}
					}
				}
				// (2) every path passes a test of the flag; its true side stores f non-nil
				if !ok {
					for _, tb := range fn.Blocks {
						iff, isIf := terminator(tb).(*ssa.If)
						if !isIf {
							continue
						}
						ld, tfa, m, isT := flagTest(iff.Cond)
						if !isT || m&inv.Mask != inv.Mask || tfa.Field != inv.G || prv.key(stripNilChk(tfa.X)) != xk {
							continue
						}
						// the flag is loaded after s
						if !(s.Block().Dominates(ld.Block()) && (s.Block() != ld.Block() || instrIndex(ld) > instrIndex(s))) {
							continue
						}
						if reachesAvoiding(s.Block(), rb, map[*ssa.BasicBlock]bool{tb: true}) && s.Block() != tb {
							continue
						}
						// no other flag write between the test and the exit
						clean := true
						for _, w := range gwrites {
							if w.ins == s || !w.maySet {
								continue
							}
							wb := w.ins.Block()
							if (wb == tb && instrIndex(w.ins) > instrIndex(ld) || blocksReachableFrom(tb)[wb]) && (wb == rb || blocksReachableFrom(wb)[rb]) {
								clean = false
							}
						}
						if !clean {
							continue
						}
						for _, stt := range fstores {
							sb := stt.Block()
							if !(sb == tb.Succs[0] || blocksReachableFrom(tb.Succs[0])[sb]) || !valOK(stt, sb) {
								continue
							}
							if !reachesAvoiding(tb.Succs[0], rb, map[*ssa.BasicBlock]bool{sb: true}) || tb.Succs[0] == sb {
								ok = true
							}
						}
					}
				}
				if !ok {
					return false, "an exit at " + posOf(p, terminator(rb)) + " can be reached with the flag possibly set and " + fname + " possibly nil"
				}
			}
			return true, "every exit reachable from here re-establishes " + fname + " != nil whenever the flag is set"
		}
		for i, w := range gwrites {
			nsites++
			c2 := fmt.Sprintf("%s#%s-write%d", qname(fn), st.Field(inv.G).Name(), i+1)
			if !w.maySet {
				record(c2, posOf(p, w.ins), true, w.how+": cannot set "+fmt.Sprintf("%#x", inv.Mask))
				continue
			}
			ok, how := post(w.ins, w.fa.X)
			record(c2, posOf(p, w.ins), ok, w.how+"; "+how)
		}
		// stores to f
		nf := 0
		for _, b := range fn.Blocks {
			for _, ins := range b.Instrs {
				stt, ok := ins.(*ssa.Store)
				if !ok {
					continue
				}
				ffa, isF := isField(stt.Addr, inv.F)
				if !isF {
					continue
				}
				nf++
				nsites++
				prv := getPr()
				c2 := fmt.Sprintf("%s#%s-write%d", qname(fn), st.Field(inv.F).Name(), nf)
				okv := prv.NonNil(stt.Val, b, 0)
				how := "stores a non-nil value"
				if !okv {
					// dereferenced on every path to every exit
					okv = true
					for _, rb := range fn.Blocks {
						if _, isR := terminator(rb).(*ssa.Return); !isR || !(rb == b || blocksReachableFrom(b)[rb]) {
							continue
						}
						d := false
						if refs := stt.Val.Referrers(); refs != nil {
							for _, rr := range *refs {
								switch x := rr.(type) {
								case *ssa.FieldAddr:
									if x.X == stt.Val && x.Block().Dominates(rb) {
										d = true
									}
								case *ssa.UnOp:
									if x.Op == token.MUL && x.X == stt.Val && x.Block().Dominates(rb) {
										d = true
									}
								}
							}
						}
						if !d {
							okv = false
						}
					}
					how = "the stored pointer is dereferenced before every exit (a nil argument panics inside the setter: API precondition)"
				}
				if !okv {
					how = "may store nil into " + fname + " while " + gname + " may have the flag set"
				}
				_ = ffa
				record(c2, posOf(p, ins), okv, how)
			}
		}
		// whole-struct stores
		for _, b := range fn.Blocks {
			for _, ins := range b.Instrs {
				if stt, ok := ins.(*ssa.Store); ok {
					if pt, ok := stt.Addr.Type().Underlying().(*types.Pointer); ok && types.Identical(pt.Elem(), inv.T) {
						nsites++
						record(fmt.Sprintf("%s#struct-copy", qname(fn)), posOf(p, ins), false, "whole-struct assignment of "+inv.T.Obj().Name()+" is not analysed")
					}
				}
			}
		}
	}
	if c != nil {
		c.Measured["invariant_write_sites:"+strings.ReplaceAll(inv.String(), " ", "")] = nsites
	}
	p.cache[key] = okAll
	return okAll
}
