package main

// Representation invariants of the form
//     (obj.g & MASK == MASK)  ⇒  obj.f != nil
// for a struct type T with a byte-sized flag field g and a pointer field f
// (CONNECT: will flag ⇒ will message).  The invariant is proven over every
// instruction of the package that can write g or f.

import (
	"fmt"
	"go/token"
	"go/types"
	"strings"

	"golang.org/x/tools/go/ssa"
)

type FlagInv struct {
	T    *types.Named
	G    int
	Mask uint64
	F    int
}

func (inv FlagInv) String() string {
	st := inv.T.Underlying().(*types.Struct)
	return fmt.Sprintf("%s.%s&%#x == %#x ⇒ %s.%s != nil", inv.T.Obj().Name(), st.Field(inv.G).Name(), inv.Mask, inv.Mask, inv.T.Obj().Name(), st.Field(inv.F).Name())
}

func (inv FlagInv) key() string {
	return fmt.Sprintf("%s|%d|%d|%d", inv.T.Obj().Name(), inv.G, inv.Mask, inv.F)
}

// hasLike: fn(x, m) returns (x & m) == m.
func hasLike(fn *ssa.Function) bool {
	if fn == nil || len(fn.Blocks) != 1 || len(fn.Params) != 2 {
		return false
	}
	ret, ok := terminator(fn.Blocks[0]).(*ssa.Return)
	if !ok || len(ret.Results) != 1 {
		return false
	}
	eq, ok := ret.Results[0].(*ssa.BinOp)
	if !ok || eq.Op != token.EQL {
		return false
	}
	and, ok := eq.X.(*ssa.BinOp)
	m := eq.Y
	if !ok || and.Op != token.AND {
		and, ok = eq.Y.(*ssa.BinOp)
		m = eq.X
		if !ok || and.Op != token.AND {
			return false
		}
	}
	if m != ssa.Value(fn.Params[1]) {
		return false
	}
	a, b := stripConvs(and.X), stripConvs(and.Y)
	return a == ssa.Value(fn.Params[0]) && b == ssa.Value(fn.Params[1]) || b == ssa.Value(fn.Params[0]) && a == ssa.Value(fn.Params[1])
}

// flagTest recognises cond as Has(load(&X.g), MASK) and returns X, g, MASK.
func flagTest(cond ssa.Value) (ld *ssa.UnOp, fa *ssa.FieldAddr, mask uint64, ok bool) {
	call, isCall := cond.(*ssa.Call)
	if !isCall || len(call.Call.Args) != 2 {
		return nil, nil, 0, false
	}
	sc := call.Call.StaticCallee()
	if !hasLike(sc) {
		return nil, nil, 0, false
	}
	k, isC := constInt(call.Call.Args[1])
	if !isC {
		return nil, nil, 0, false
	}
	l, isL := stripConvs(call.Call.Args[0]).(*ssa.UnOp)
	if !isL || l.Op != token.MUL {
		return nil, nil, 0, false
	}
	f, isF := l.X.(*ssa.FieldAddr)
	if !isF {
		return nil, nil, 0, false
	}
	return l, f, uint64(k), true
}

// guardOf: is block b dominated by the true edge of a flag test on object R?
func guardOf(pr *Prover, b *ssa.BasicBlock, R ssa.Value) (g int, mask uint64, ok bool) {
	rk := pr.key(stripNilChk(R))
	for _, dc := range domConds(b) {
		if !dc.truth {
			continue
		}
		ld, fa, m, isT := flagTest(dc.cond)
		if !isT || pr.key(stripNilChk(fa.X)) != rk {
			continue
		}
		// the flag must not have been rewritten since it was loaded
		if pr.verAt != nil && len(b.Instrs) > 0 {
			if v := pr.verAt(b.Instrs[0], classOf(fa)); v != "" && v != pr.loadVer[ld] {
				continue
			}
		}
		return fa.Field, m, true
	}
	return 0, 0, false
}

func reachesAvoiding(from, to *ssa.BasicBlock, avoid map[*ssa.BasicBlock]bool) bool {
	if avoid[from] {
		return false
	}
	seen := map[*ssa.BasicBlock]bool{from: true}
	work := []*ssa.BasicBlock{from}
	for len(work) > 0 {
		b := work[len(work)-1]
		work = work[:len(work)-1]
		if b == to {
			return true
		}
		for _, s := range b.Succs {
			if !seen[s] && !avoid[s] {
				seen[s] = true
				work = append(work, s)
			}
		}
	}
	return false
}

type invSite struct {
	fn   *ssa.Function
	ins  ssa.Instruction
	base ssa.Value
	what string
}

// ---------------------------------------------------------------------------------------------------------
// The invariant must hold whenever a renderer can run, i.e. at the exits of the functions the API exposes.  An
// unexported helper that is only ever called statically from mq functions may leave it broken for its caller to
// repair (a decoder split into stages: one reads the flags, the next allocates the will): a flag write in such a
// helper that is not repaired before the helper returns is *lifted* to every call site, where the call then counts
// as a flag write of the caller.  Conversely a call to a helper that stores f non-nil on all its paths counts as a
// store of f, and a call to a helper that re-establishes the invariant whatever it was on entry (it tests the
// flag and stores f on the true side) repairs everything written before it.

type invGW struct {
	ins    ssa.Instruction
	obj    ssa.Value // the *T whose flag is written
	maySet bool
	how    string
	lifted bool   // a call to a helper that may return with the invariant broken
	bits   bitSum // the bits the write may newly set, in terms of the enclosing function's parameters (all: unknown)
}

type invFn struct {
	fn      *ssa.Function
	pr      *Prover
	gwrites []invGW
}

type invSum struct{ storesF, establishes bool }

type invAn struct {
	p      *Prog
	inv    FlagInv
	fns    map[*ssa.Function]*invFn
	sums   map[string]invSum
	brk    map[string]int // 0 unknown, 1 no, 2 yes
	active map[string]bool
	gname  string
	fname  string
}

func (an *invAn) isField(a ssa.Value, idx int) (*ssa.FieldAddr, bool) {
	fa, ok := a.(*ssa.FieldAddr)
	if !ok || fa.Field != idx {
		return nil, false
	}
	pt, ok := fa.X.Type().Underlying().(*types.Pointer)
	if !ok || !types.Identical(pt.Elem(), an.inv.T) {
		return nil, false
	}
	return fa, true
}

func (an *invAn) isObjPtr(t types.Type) bool {
	pt, ok := t.Underlying().(*types.Pointer)
	return ok && types.Identical(pt.Elem(), an.inv.T)
}

// internal: fn is an unexported function that is only called statically from inside the package.
func (an *invAn) internal(fn *ssa.Function) bool {
	if fn == nil || fn.Blocks == nil || fn.Parent() != nil || token.IsExported(fn.Name()) || fn.Synthetic != "" {
		return false
	}
	sites := an.p.allEffects().callSitesOf[fn]
	if len(sites) == 0 {
		return false
	}
	for _, s := range sites {
		if s.Common().IsInvoke() || s.Common().StaticCallee() != fn {
			return false
		}
		if _, isCall := s.(*ssa.Call); !isCall {
			return false
		}
	}
	return true
}

func (an *invAn) fnOf(fn *ssa.Function) *invFn {
	if f, ok := an.fns[fn]; ok {
		return f
	}
	p, inv := an.p, an.inv
	f := &invFn{fn: fn}
	an.fns[fn] = f
	if fn.Blocks == nil {
		return f
	}
	f.pr = NewProver(p, fn)
	f.pr.assumeContracts()
	prv := f.pr
	for _, b := range fn.Blocks {
		for _, ins := range b.Instrs {
			fa, ok := ins.(*ssa.FieldAddr)
			if !ok {
				continue
			}
			if _, isG := an.isField(fa, inv.G); !isG {
				continue
			}
			for _, r := range *fa.Referrers() {
				switch x := r.(type) {
				case *ssa.DebugRef, *ssa.UnOp:
				case *ssa.Store:
					if x.Addr != ssa.Value(fa) {
						f.gwrites = append(f.gwrites, invGW{ins: x, obj: fa.X, maySet: true, how: "the address of the flag field is stored"})
						continue
					}
					isOld := func(v ssa.Value) bool {
						ld, ok := v.(*ssa.UnOp)
						if !ok || ld.Op != token.MUL {
							return false
						}
						ofa, ok := an.isField(ld.X, inv.G)
						if !ok || prv.key(stripNilChk(ofa.X)) != prv.key(stripNilChk(fa.X)) {
							return false
						}
						return prv.verAt == nil || prv.loadVer[ld] == prv.verAt(x, classOf(fa))
					}
					ms := p.maySet(x.Val, isOld, 0)
					if ms.pure() && ms.mask&inv.Mask == 0 {
						f.gwrites = append(f.gwrites, invGW{ins: x, obj: fa.X, how: fmt.Sprintf("store can newly set only bits %#x", ms.mask)})
					} else {
						f.gwrites = append(f.gwrites, invGW{ins: x, obj: fa.X, maySet: true, how: "store may set the flag", bits: ms})
					}
				case *ssa.Call:
					handled := false
					if sc := x.Call.StaticCallee(); sc != nil && sc.Blocks != nil {
						for j, a := range x.Call.Args {
							if a != ssa.Value(fa) {
								continue
							}
							sub, ok := p.paramWriteBits(sc, j, 0)
							if !ok {
								break
							}
							handled = true
							if !sub.writes {
								continue
							}
							set := p.substBits(sub.set, x.Call.Args)
							if set.pure() && set.mask&inv.Mask == 0 {
								f.gwrites = append(f.gwrites, invGW{ins: x, obj: fa.X, how: fmt.Sprintf("%s can newly set only bits %#x here", qname(sc), set.mask)})
							} else {
								f.gwrites = append(f.gwrites, invGW{ins: x, obj: fa.X, maySet: true, how: qname(sc) + " may set the flag here", bits: set})
							}
						}
					}
					if !handled {
						f.gwrites = append(f.gwrites, invGW{ins: x, obj: fa.X, maySet: true, how: "the flag field's address is handed to a call that may write anything"})
					}
				case *ssa.MakeInterface:
					for _, r2 := range *x.Referrers() {
						if ci, ok := r2.(ssa.CallInstruction); ok {
							f.gwrites = append(f.gwrites, invGW{ins: ci.(ssa.Instruction), obj: fa.X, maySet: true, how: "the flag field is decoded into through an interface"})
						} else if _, ok := r2.(*ssa.DebugRef); !ok {
							f.gwrites = append(f.gwrites, invGW{ins: r2, obj: fa.X, maySet: true, how: "the flag field's address escapes"})
						}
					}
				default:
					f.gwrites = append(f.gwrites, invGW{ins: r, obj: fa.X, maySet: true, how: fmt.Sprintf("the flag field's address is used by %T", r)})
				}
			}
		}
	}
	// calls to internal helpers that may return with the invariant broken for one of their arguments
	for _, b := range fn.Blocks {
		for _, ins := range b.Instrs {
			call, ok := ins.(*ssa.Call)
			if !ok {
				continue
			}
			h := call.Call.StaticCallee()
			if h == nil || h == fn || !an.internal(h) {
				continue
			}
			for k, a := range call.Call.Args {
				if k >= len(h.Params) || !an.isObjPtr(a.Type()) {
					continue
				}
				if set, breaks := an.breaks(h, k); breaks {
					ms := p.substBits(set, call.Call.Args)
					if ms.pure() && ms.mask&inv.Mask == 0 {
						f.gwrites = append(f.gwrites, invGW{ins: call, obj: a, lifted: true, how: fmt.Sprintf("%s can newly set only bits %#x here", qname(h), ms.mask)})
					} else {
						f.gwrites = append(f.gwrites, invGW{ins: call, obj: a, maySet: true, lifted: true, how: "calls " + qname(h) + ", which may return with the flag set and " + an.fname + " not yet stored"})
					}
				}
			}
		}
	}
	return f
}

// breaks: may the internal helper h return with the flag of its parameter j newly set and f nil?  set: the bits
// it may newly set, in terms of its own parameters.
func (an *invAn) breaks(h *ssa.Function, j int) (bitSum, bool) {
	key := fmt.Sprintf("%p|%d", h, j)
	switch an.brk[key] {
	case 1:
		return bitSum{}, false
	case 2:
		return bitSum{all: true}, true
	}
	if an.active["b"+key] {
		return bitSum{all: true}, true // recursion: assume the worst
	}
	an.active["b"+key] = true
	defer delete(an.active, "b"+key)
	f := an.fnOf(h)
	res := false
	set := bitSum{}
	for _, w := range f.gwrites {
		if !w.maySet || stripNilChk(w.obj) != ssa.Value(h.Params[j]) {
			continue
		}
		if ok, _ := an.post(f, w.ins, w.obj); !ok {
			res = true
			// the bits this write may set, when known in terms of the helper's parameters
			if w.bits.all || (w.bits.mask == 0 && len(w.bits.params) == 0) {
				set = bitSum{all: true}
			} else {
				set = set.union(w.bits)
			}
		}
	}
	if res {
		an.brk[key] = 2
		if set.all {
			return set, true
		}
		an.brk[key] = 0 // parameter-dependent: recomputed per call site (cheap), not cached as "all"
		return set, true
	}
	an.brk[key] = 1
	return bitSum{}, false
}

// summary of an internal or exported mq function h for its object parameter j.
func (an *invAn) summary(h *ssa.Function, j int) invSum {
	key := fmt.Sprintf("%p|%d", h, j)
	if v, ok := an.sums[key]; ok {
		return v
	}
	if an.active["s"+key] || h.Blocks == nil || j >= len(h.Params) {
		return invSum{}
	}
	an.active["s"+key] = true
	defer delete(an.active, "s"+key)
	f := an.fnOf(h)
	X := ssa.Value(h.Params[j])
	sum := invSum{}
	// storesF: a non-nil store of f (or a call that does) dominates every exit, none later may store nil
	pts := an.fpoints(f, X)
	all := true
	nret := 0
	for _, rb := range h.Blocks {
		if _, ok := terminator(rb).(*ssa.Return); !ok {
			continue
		}
		nret++
		ok := false
		for _, pt := range pts {
			if pt.block.Dominates(rb) && pt.valOK(rb) {
				later := false
				for _, o := range pts {
					if o.ins != pt.ins && (blocksReachableFrom(pt.block)[o.block] || o.block == pt.block && instrIndex(o.ins) > instrIndex(pt.ins)) {
						later = true
					}
				}
				if !later {
					ok = true
				}
			}
		}
		if !ok {
			all = false
		}
	}
	sum.storesF = all && nret > 0
	if ok, _ := an.post(f, nil, X); ok {
		sum.establishes = true
	}
	an.sums[key] = sum
	return sum
}

type invFPoint struct {
	ins   ssa.Instruction
	block *ssa.BasicBlock
	valOK func(r *ssa.BasicBlock) bool
}

// fpoints: the places in f where field F of object X receives a non-nil value: stores, and calls to mq functions
// that store it on all their paths.
func (an *invAn) fpoints(f *invFn, X ssa.Value) []invFPoint {
	prv := f.pr
	xk := prv.key(stripNilChk(X))
	var out []invFPoint
	for _, b := range f.fn.Blocks {
		for _, ins := range b.Instrs {
			switch x := ins.(type) {
			case *ssa.Store:
				ffa, ok := an.isField(x.Addr, an.inv.F)
				if !ok || prv.key(stripNilChk(ffa.X)) != xk {
					continue
				}
				stt := x
				out = append(out, invFPoint{ins: stt, block: b, valOK: func(r *ssa.BasicBlock) bool {
					if prv.NonNil(stt.Val, stt.Block(), 0) {
						return true
					}
					// dereferenced before the exit: a nil value would have panicked
					if refs := stt.Val.Referrers(); refs != nil {
						for _, rr := range *refs {
							switch d := rr.(type) {
							case *ssa.FieldAddr:
								if d.X == stt.Val && d.Block().Dominates(r) {
									return true
								}
							case *ssa.UnOp:
								if d.Op == token.MUL && d.X == stt.Val && d.Block().Dominates(r) {
									return true
								}
							}
						}
					}
					return false
				}})
			case *ssa.Call:
				h := x.Call.StaticCallee()
				if h == nil || h.Blocks == nil || h == f.fn || h.Pkg == nil || h.Pkg.Pkg != an.p.Pkg {
					continue
				}
				for k, a := range x.Call.Args {
					if k < len(h.Params) && an.isObjPtr(a.Type()) && prv.key(stripNilChk(a)) == xk && an.summary(h, k).storesF {
						out = append(out, invFPoint{ins: x, block: b, valOK: func(*ssa.BasicBlock) bool { return true }})
					}
				}
			}
		}
	}
	return out
}

// post: after instruction s (nil: from the function's entry, whatever the state was) the invariant holds for
// object X on every exit reachable from there.
func (an *invAn) post(f *invFn, s ssa.Instruction, X ssa.Value) (bool, string) {
	p, inv, fn, prv := an.p, an.inv, f.fn, f.pr
	xk := prv.key(stripNilChk(X))
	pts := an.fpoints(f, X)
	sBlock := fn.Blocks[0]
	if s != nil {
		sBlock = s.Block()
	}
	after := func(ins ssa.Instruction) bool { // ins comes after s
		if s == nil {
			return true
		}
		return sBlock.Dominates(ins.Block()) && (sBlock != ins.Block() || instrIndex(ins) > instrIndex(s))
	}
	// a later flag write between blocks from and rb (other than s itself)
	dirtyBetween := func(from *ssa.BasicBlock, fromIns ssa.Instruction, rb *ssa.BasicBlock) bool {
		for _, w := range f.gwrites {
			if w.ins == s || !w.maySet || prv.key(stripNilChk(w.obj)) != xk {
				continue
			}
			wb := w.ins.Block()
			afterFrom := wb == from && (fromIns == nil || instrIndex(w.ins) > instrIndex(fromIns)) || wb != from && blocksReachableFrom(from)[wb]
			if afterFrom && (wb == rb || blocksReachableFrom(wb)[rb]) {
				return true
			}
		}
		return false
	}
	for _, rb := range fn.Blocks {
		if _, ok := terminator(rb).(*ssa.Return); !ok {
			continue
		}
		if !(rb == sBlock || blocksReachableFrom(sBlock)[rb]) {
			continue
		}
		ok := false
		// (1) f is stored non-nil on every path to this exit
		for _, pt := range pts {
			if pt.block.Dominates(rb) && pt.valOK(rb) {
				later := false
				for _, o := range pts {
					if o.ins != pt.ins && (blocksReachableFrom(pt.block)[o.block] || o.block == pt.block && instrIndex(o.ins) > instrIndex(pt.ins)) {
						later = true
					}
				}
				if !later {
					ok = true
				}
			}
		}
		// (2) every path passes a test of the flag; its true side stores f non-nil
		if !ok {
			for _, tb := range fn.Blocks {
				iff, isIf := terminator(tb).(*ssa.If)
				if !isIf {
					continue
				}
				ld, tfa, m, isT := flagTest(iff.Cond)
				if !isT || m&inv.Mask != inv.Mask || tfa.Field != inv.G || prv.key(stripNilChk(tfa.X)) != xk {
					continue
				}
				if !after(ld) {
					continue // the flag is loaded before s
				}
				if s != nil && reachesAvoiding(sBlock, rb, map[*ssa.BasicBlock]bool{tb: true}) && sBlock != tb {
					continue
				}
				if s == nil && !tb.Dominates(rb) {
					continue
				}
				if dirtyBetween(tb, ld, rb) {
					continue
				}
				for _, pt := range pts {
					sb := pt.block
					if !(sb == tb.Succs[0] || blocksReachableFrom(tb.Succs[0])[sb]) || !pt.valOK(sb) {
						continue
					}
					if !reachesAvoiding(tb.Succs[0], rb, map[*ssa.BasicBlock]bool{sb: true}) || tb.Succs[0] == sb {
						ok = true
					}
				}
			}
		}
		// (3) a call on every path to this exit re-establishes the invariant whatever it finds
		if !ok {
			for _, b := range fn.Blocks {
				for _, ins := range b.Instrs {
					call, isCall := ins.(*ssa.Call)
					if !isCall || !after(call) || !b.Dominates(rb) {
						continue
					}
					h := call.Call.StaticCallee()
					if h == nil || h.Blocks == nil || h == fn || h.Pkg == nil || h.Pkg.Pkg != p.Pkg {
						continue
					}
					for k, a := range call.Call.Args {
						if k < len(h.Params) && an.isObjPtr(a.Type()) && prv.key(stripNilChk(a)) == xk && an.summary(h, k).establishes && !dirtyBetween(b, call, rb) {
							ok = true
						}
					}
				}
			}
		}
		if !ok {
			return false, "an exit at " + posOf(p, terminator(rb)) + " can be reached with the flag possibly set and " + an.fname + " possibly nil"
		}
	}
	return true, "every exit reachable from here re-establishes " + an.fname + " != nil whenever the flag is set"
}

// checkFlagInv proves inv over all writers; one obligation per writing site.
func (p *Prog) checkFlagInv(c *Check, rule string, inv FlagInv) bool {
	key := "inv:" + inv.key()
	if v, ok := p.cache[key]; ok && c == nil {
		return v.(bool)
	}
	okAll := true
	st := inv.T.Underlying().(*types.Struct)
	an := &invAn{p: p, inv: inv, fns: map[*ssa.Function]*invFn{}, sums: map[string]invSum{}, brk: map[string]int{}, active: map[string]bool{},
		gname: inv.T.Obj().Name() + "." + st.Field(inv.G).Name(), fname: inv.T.Obj().Name() + "." + st.Field(inv.F).Name()}
	gname, fname := an.gname, an.fname
	record := func(cons, pos string, ok bool, how string) {
		if c != nil {
			if ok {
				c.OK(rule, cons, pos, how)
			} else {
				c.Unk(rule, cons, pos, how)
			}
		}
		if !ok {
			okAll = false
		}
	}
	nsites := 0
	for _, fn := range p.AllFuncs() {
		f := an.fnOf(fn)
		for i, w := range f.gwrites {
			nsites++
			c2 := fmt.Sprintf("%s#%s-write%d", qname(fn), st.Field(inv.G).Name(), i+1)
			if !w.maySet {
				record(c2, posOf(p, w.ins), true, w.how+": cannot set "+fmt.Sprintf("%#x", inv.Mask))
				continue
			}
			ok, how := an.post(f, w.ins, w.obj)
			if !ok && an.internal(fn) {
				if prm, isP := stripNilChk(w.obj).(*ssa.Parameter); isP && paramIndex(fn, prm) >= 0 {
					// not repaired here: the obligation travels to every call site of this internal helper, where the
					// call is a flag write of the caller
					record(c2, posOf(p, w.ins), true, w.how+"; not re-established before "+qname(fn)+" returns — lifted to its "+fmt.Sprint(len(p.allEffects().callSitesOf[fn]))+" call site(s), each of which carries the obligation")
					continue
				}
			}
			record(c2, posOf(p, w.ins), ok, w.how+"; "+how)
		}
		if fn.Blocks == nil {
			continue
		}
		prv := f.pr
		// stores to f
		nf := 0
		for _, b := range fn.Blocks {
			for _, ins := range b.Instrs {
				stt, ok := ins.(*ssa.Store)
				if !ok {
					continue
				}
				_, isF := an.isField(stt.Addr, inv.F)
				if !isF {
					continue
				}
				nf++
				nsites++
				c2 := fmt.Sprintf("%s#%s-write%d", qname(fn), st.Field(inv.F).Name(), nf)
				okv := prv.NonNil(stt.Val, b, 0)
				how := "stores a non-nil value"
				if !okv {
					// dereferenced on every path to every exit
					okv = true
					for _, rb := range fn.Blocks {
						if _, isR := terminator(rb).(*ssa.Return); !isR || !(rb == b || blocksReachableFrom(b)[rb]) {
							continue
						}
						d := false
						if refs := stt.Val.Referrers(); refs != nil {
							for _, rr := range *refs {
								switch x := rr.(type) {
								case *ssa.FieldAddr:
									if x.X == stt.Val && x.Block().Dominates(rb) {
										d = true
									}
								case *ssa.UnOp:
									if x.Op == token.MUL && x.X == stt.Val && x.Block().Dominates(rb) {
										d = true
									}
								}
							}
						}
						if !d {
							okv = false
						}
					}
					how = "the stored pointer is dereferenced before every exit (a nil argument panics inside the setter: API precondition)"
				}
				if !okv {
					how = "may store nil into " + fname + " while " + gname + " may have the flag set"
				}
				record(c2, posOf(p, ins), okv, how)
			}
		}
		// whole-struct stores
		for _, b := range fn.Blocks {
			for _, ins := range b.Instrs {
				if stt, ok := ins.(*ssa.Store); ok {
					if pt, ok := stt.Addr.Type().Underlying().(*types.Pointer); ok && types.Identical(pt.Elem(), inv.T) {
						nsites++
						record(fmt.Sprintf("%s#struct-copy", qname(fn)), posOf(p, ins), false, "whole-struct assignment of "+inv.T.Obj().Name()+" is not analysed")
					}
				}
			}
		}
	}
	if c != nil {
		c.Measured["invariant_write_sites:"+strings.ReplaceAll(inv.String(), " ", "")] = nsites
	}
	p.cache[key] = okAll
	return okAll
}
