package main

// C17 — WellFormed decides exactly the documented rules and String agrees.

import (
	"fmt"
	"go/token"
	"go/types"
	"math"
	"sort"
	"strings"

	"golang.org/x/tools/go/ssa"
)

func init() {
	register(&PropertyCheck{ID: "C17", Level: "other", Run: checkC17, Canaries: []Canary{
		{Name: "subscribe-limited-to-1024-filters", Rule: "R17.1", Where: "Subscribe", Edits: []Edit{{"subscribe.go", "type Subscribe struct {\n\tfixed          bits\n\tpacketID       wuint16\n\tsubscriptionID *vbint\n\tUserProperties\n\tfilters []TopicFilter\n}\n\nfunc (p *Subscribe) String() string {\n\treturn withForm(p, fmt.Sprintf(\"%s p%v %s %v bytes\",\n\t\tfirstByte(p.fixed).String(),\n\t\tp.packetID,\n\t\tp.filterString(),\n\t\tp.width(),\n\t))\n}\n\nfunc (p *Subscribe) WellFormed() *Malformed {\n\tif len(p.filters) == 0 {\n\t\treturn newMalformed(p, \"filters\", \"no\")", "// maxFilters is the number of topic filters accepted in one\n// subscribe packet.\nconst maxFilters = 1024\n\ntype Subscribe struct {\n\tfixed          bits\n\tpacketID       wuint16\n\tsubscriptionID *vbint\n\tUserProperties\n\tfilters []TopicFilter\n}\n\nfunc (p *Subscribe) String() string {\n\treturn withForm(p, fmt.Sprintf(\"%s p%v %s %v bytes\",\n\t\tfirstByte(p.fixed).String(),\n\t\tp.packetID,\n\t\tp.filterString(),\n\t\tp.width(),\n\t))\n}\n\nfunc (p *Subscribe) WellFormed() *Malformed {\n\tif len(p.filters) == 0 {\n\t\treturn newMalformed(p, \"filters\", \"no\")\n\t}\n\tif len(p.filters) > maxFilters {\n\t\treturn newMalformed(p, \"filters\", \"too many\")"}}},
		{Name: "subscribe-limited-to-32-filters", Rule: "R17.1", Where: "Subscribe", Edits: []Edit{{"subscribe.go", "type Subscribe struct {\n\tfixed          bits\n\tpacketID       wuint16\n\tsubscriptionID *vbint\n\tUserProperties\n\tfilters []TopicFilter\n}\n\nfunc (p *Subscribe) String() string {\n\treturn withForm(p, fmt.Sprintf(\"%s p%v %s %v bytes\",\n\t\tfirstByte(p.fixed).String(),\n\t\tp.packetID,\n\t\tp.filterString(),\n\t\tp.width(),\n\t))\n}\n\nfunc (p *Subscribe) WellFormed() *Malformed {\n\tif len(p.filters) == 0 {\n\t\treturn newMalformed(p, \"filters\", \"no\")", "// maxFilters is the number of topic filters accepted in one\n// subscribe packet.\nconst maxFilters = 32\n\ntype Subscribe struct {\n\tfixed          bits\n\tpacketID       wuint16\n\tsubscriptionID *vbint\n\tUserProperties\n\tfilters []TopicFilter\n}\n\nfunc (p *Subscribe) String() string {\n\treturn withForm(p, fmt.Sprintf(\"%s p%v %s %v bytes\",\n\t\tfirstByte(p.fixed).String(),\n\t\tp.packetID,\n\t\tp.filterString(),\n\t\tp.width(),\n\t))\n}\n\nfunc (p *Subscribe) WellFormed() *Malformed {\n\tif len(p.filters) == 0 {\n\t\treturn newMalformed(p, \"filters\", \"no\")\n\t}\n\tif len(p.filters) > maxFilters {\n\t\treturn newMalformed(p, \"filters\", \"too many\")"}}},
		{Name: "subscribe-wellformed-rule-on-an-unlisted-field", Rule: "R17.1", Where: "(*Subscribe).WellFormed", Edits: []Edit{{"subscribe.go", "\tfor _, f := range p.filters {\n\t\tif err := f.WellFormed(); err != nil {", "\tfor _, up := range p.UserProperties {\n\t\tif len(up[0]) == 0 {\n\t\t\treturn newMalformed(p, \"user property\", \"empty key\")\n\t\t}\n\t}\n\tfor _, f := range p.filters {\n\t\tif err := f.WellFormed(); err != nil {"}}},
		{Name: "alias-conjunct-missing", Rule: "R17.1", Where: "(*Publish).WellFormed", Edits: []Edit{{"publish.go", "\tif len(p.topicName) == 0 && p.topicAlias == 0 {", "\tif len(p.topicName) == 0 {"}}},
		{Name: "qos2-arm-removed", Rule: "R17.1", Where: "(*Publish).WellFormed", Edits: []Edit{{"publish.go", "\tcase 1, 2:\n\t\tif p.packetID == 0 {\n\t\t\treturn newMalformed(p, \"packet ID\", \"empty\")", "\tcase 1:\n\t\tif p.packetID == 0 {\n\t\t\treturn newMalformed(p, \"packet ID\", \"empty\")"}}},
		{Name: "qos3-accepted", Rule: "R17.1", Where: "(*Publish).WellFormed", Edits: []Edit{{"publish.go", "\tcase 3:\n\t\treturn newMalformed(p, \"QoS\", \"invalid\")\n\t}\n\n\treturn nil", "\t}\n\n\treturn nil"}}},
		{Name: "filter-qos-test-weakened", Rule: "R17.1", Where: "(*TopicFilter).WellFormed", Edits: []Edit{{"topicfilter.go", "\tif c.options.Has(byte(OptQoS3)) {\n\t\treturn newMalformed(c, \"QoS\", \"invalid\")", "\tif c.options.Has(byte(OptQoS1)) {\n\t\treturn newMalformed(c, \"QoS\", \"invalid\")"}}},
		{Name: "subid-limit-checked-through-signed-accessor", Rule: "R17.1", Where: "(*Subscribe).WellFormed", Edits: []Edit{{"subscribe.go", "if v := p.subscriptionID; v != nil && *v > 268_435_455 {", "if p.SubscriptionID() > 268_435_455 {"}}},
		{Name: "subid-limit-off-by-one", Rule: "R17.1", Where: "(*Subscribe).WellFormed", Edits: []Edit{{"subscribe.go", "*v > 268_435_455 {", "*v > 268_435_456 {"}}},
		{Name: "adv4-E-only-the-first-four-filters-checked", Rule: "R17.1", Where: "(*Subscribe).WellFormed", Edits: []Edit{{"subscribe.go", "\tfor _, f := range p.filters {\n\t\tif err := f.WellFormed(); err != nil {", "\tfor i, f := range p.filters {\n\t\tif i == 4 {\n\t\t\tbreak\n\t\t}\n\t\tif err := f.WellFormed(); err != nil {"}}},
		{Name: "filters-checked-last-to-first", Silent: true, Edits: []Edit{{"subscribe.go", "\tfor _, f := range p.filters {\n\t\tif err := f.WellFormed(); err != nil {", "\tfor i := len(p.filters) - 1; i >= 0; i-- {\n\t\tf := p.filters[i]\n\t\tif err := f.WellFormed(); err != nil {"}}},
		{Name: "only-first-filter-checked", Rule: "R17.1", Where: "(*Subscribe).WellFormed", Edits: []Edit{{"subscribe.go", "\tfor _, f := range p.filters {\n\t\tif err := f.WellFormed(); err != nil {\n\t\t\treturn err\n\t\t}\n\t}\n\treturn nil", "\tfor _, f := range p.filters {\n\t\treturn f.WellFormed()\n\t}\n\treturn nil"}}},
		{Name: "string-skips-withform", Rule: "R17.2", Where: "(*Subscribe).String", Edits: []Edit{{"subscribe.go", "\treturn withForm(p, fmt.Sprintf(\"%s p%v %s %v bytes\",\n\t\tfirstByte(p.fixed).String(),\n\t\tp.packetID,\n\t\tp.filterString(),\n\t\tp.width(),\n\t))", "\treturn fmt.Sprintf(\"%s p%v %s %v bytes\",\n\t\tfirstByte(p.fixed).String(),\n\t\tp.packetID,\n\t\tp.filterString(),\n\t\tp.width(),\n\t)"}}},
		{Name: "withform-inverted", Rule: "R17.2", Where: "withForm", Edits: []Edit{{"errors.go", "\tif err := p.WellFormed(); err != nil {\n\t\treturn fmt.Sprintf(\"%s, malformed! %s %s\", v, err.reason, err.ref)\n\t}\n\treturn v", "\tif err := p.WellFormed(); err != nil {\n\t\treturn v\n\t}\n\treturn fmt.Sprintf(\"%s, malformed! %s %s\", v, \"\", \"\")"}}},
		{Name: "stricter-rule-behind-a-length-guard", Rule: "R17.3", Where: "(*TopicFilter).WellFormed#content-free", Edits: []Edit{{"topicfilter.go", "\tif c.options.Has(byte(OptQoS3)) {\n\t\treturn newMalformed(c, \"QoS\", \"invalid\")\n\t}\n\treturn nil", "\tif c.options.Has(byte(OptQoS3)) {\n\t\treturn newMalformed(c, \"QoS\", \"invalid\")\n\t}\n\tif len(c.filter) > 7 && string(c.filter[:7]) == \"$share/\" && c.options.Has(byte(OptNL)) {\n\t\treturn newMalformed(c, \"no local\", \"shared\")\n\t}\n\treturn nil"}}},
		{Name: "tests-reordered", Silent: true, Edits: []Edit{{"topicfilter.go", "\tif len(c.filter) == 0 {\n\t\treturn newMalformed(c, \"filter\", \"empty\")\n\t}\n\tif c.options.Has(byte(OptQoS3)) {\n\t\treturn newMalformed(c, \"QoS\", \"invalid\")\n\t}\n\treturn nil", "\tif c.options.Has(byte(OptQoS3)) {\n\t\treturn newMalformed(c, \"QoS\", \"invalid\")\n\t}\n\tif len(c.filter) == 0 {\n\t\treturn newMalformed(c, \"filter\", \"empty\")\n\t}\n\treturn nil"}}},
	}})
}

// accessorField: the receiver field an exported accessor returns (through
// value-preserving conversions only).
func (p *Prog) accessorField(typ, name string) (int, bool) {
	fn := p.Method(typ, name)
	if fn == nil || fn.Blocks == nil {
		return 0, false
	}
	res := -1
	for _, b := range fn.Blocks {
		ret, ok := terminator(b).(*ssa.Return)
		if !ok || len(ret.Results) != 1 {
			continue
		}
		ld, ok := stripConvs(ret.Results[0]).(*ssa.UnOp)
		if !ok || ld.Op != token.MUL {
			return 0, false
		}
		fa, ok := ld.X.(*ssa.FieldAddr)
		if !ok || fa.X != ssa.Value(fn.Params[0]) {
			return 0, false
		}
		if res >= 0 && res != fa.Field {
			return 0, false
		}
		res = fa.Field
	}
	return res, res >= 0
}

// headerField: the byte-sized field of packet type typ that its constructor
// initialises with the type code (the "first byte").
func (p *Prog) headerField(typ string) (field int, code int64, ok bool) {
	for _, fn := range p.Roots().Ctor {
		if fn.Signature.Results().Len() != 1 {
			continue
		}
		nt := namedOf(fn.Signature.Results().At(0).Type())
		if nt == nil || nt.Obj().Name() != typ {
			continue
		}
		for _, b := range fn.Blocks {
			for _, ins := range b.Instrs {
				st, isS := ins.(*ssa.Store)
				if !isS {
					continue
				}
				fa, isF := st.Addr.(*ssa.FieldAddr)
				if !isF {
					continue
				}
				if _, isA := fa.X.(*ssa.Alloc); !isA {
					continue
				}
				if k, isC := constInt(stripConvs(st.Val)); isC && k&0xF0 != 0 && k < 256 {
					if bt, isB := st.Val.Type().Underlying().(*types.Basic); isB && bt.Kind() == types.Uint8 {
						return fa.Field, k, true
					}
				}
			}
		}
	}
	return 0, 0, false
}

// assignment of abstract values to input paths
type symAssign map[string]sv

func (a symAssign) input(defaults func(path string, t types.Type) (sv, bool)) symInput {
	return func(path string, t types.Type) (sv, bool) {
		if v, ok := a[path]; ok {
			return v, true
		}
		return defaults(path, t)
	}
}

func defaultInput(path string, t types.Type) (sv, bool) {
	return zeroOf(t, path), true
}

// product enumerates the cartesian product of the given domains.
func product(keys []string, dom map[string][]sv, f func(symAssign) bool) bool {
	a := symAssign{}
	var rec func(i int) bool
	rec = func(i int) bool {
		if i == len(keys) {
			return f(a)
		}
		for _, v := range dom[keys[i]] {
			a[keys[i]] = v
			if !rec(i + 1) {
				return false
			}
		}
		return true
	}
	return rec(0)
}

func ints(vs ...int64) []sv {
	var out []sv
	for _, v := range vs {
		out = append(out, sv{k: 'i', i: v})
	}
	return out
}

// lenDomainFor: the representative lengths a predicate is evaluated on — 0, 1, 2 and the values around every
// constant that a length is compared with anywhere in the mq functions the predicate reaches (so that a guard such
// as `len(x) > 7` is evaluated on both sides, and whatever it guards is evaluated at all).
func (p *Prog) lenDomainFor(fn *ssa.Function) []int64 {
	key := "lendom:" + qname(fn)
	if v, ok := p.cache[key]; ok {
		return v.([]int64)
	}
	set := map[int64]bool{0: true, 1: true, 2: true}
	var fromLen func(v ssa.Value, d int) bool
	fromLen = func(v ssa.Value, d int) bool {
		if d > 4 {
			return false
		}
		switch x := v.(type) {
		case *ssa.Call:
			if bi, ok := x.Call.Value.(*ssa.Builtin); ok && bi.Name() == "len" {
				return true
			}
		case *ssa.Convert:
			return fromLen(x.X, d+1)
		case *ssa.ChangeType:
			return fromLen(x.X, d+1)
		case *ssa.BinOp:
			if x.Op == token.ADD || x.Op == token.SUB {
				return fromLen(x.X, d+1) || fromLen(x.Y, d+1)
			}
		}
		return false
	}
	for g := range p.Reach([]*ssa.Function{fn}) {
		for _, b := range g.Blocks {
			for _, ins := range b.Instrs {
				bo, ok := ins.(*ssa.BinOp)
				if !ok {
					continue
				}
				switch bo.Op {
				case token.LSS, token.LEQ, token.GTR, token.GEQ, token.EQL, token.NEQ:
				default:
					continue
				}
				for i, o := range []ssa.Value{bo.X, bo.Y} {
					k, isC := constInt(o)
					if !isC || k < 0 || k > 1<<20 {
						continue
					}
					if fromLen([]ssa.Value{bo.Y, bo.X}[i], 0) {
						for _, v := range []int64{k - 1, k, k + 1, k + 2} {
							if v >= 0 {
								set[v] = true
							}
						}
					}
				}
			}
		}
	}
	var out []int64
	for k := range set {
		out = append(out, k)
	}
	sort.Slice(out, func(i, j int) bool { return out[i] < out[j] })
	if len(out) > 24 {
		out = out[:24]
	}
	p.cache[key] = out
	return out
}

// cmpConstsFor: the values around every integer constant that a comparison in fn's call tree involves.
func (p *Prog) cmpConstsFor(fn *ssa.Function) []int64 {
	key := "cmpconsts:" + qname(fn)
	if v, ok := p.cache[key]; ok {
		return v.([]int64)
	}
	set := map[int64]bool{}
	for g := range p.Reach([]*ssa.Function{fn}) {
		for _, b := range g.Blocks {
			for _, ins := range b.Instrs {
				bo, ok := ins.(*ssa.BinOp)
				if !ok {
					continue
				}
				switch bo.Op {
				case token.LSS, token.LEQ, token.GTR, token.GEQ, token.EQL, token.NEQ:
				default:
					continue
				}
				for _, o := range []ssa.Value{bo.X, bo.Y} {
					if k, isC := constInt(o); isC && k > -(1<<40) && k < 1<<40 {
						set[k-1], set[k], set[k+1] = true, true, true
					}
				}
			}
		}
	}
	var out []int64
	for k := range set {
		out = append(out, k)
	}
	sort.Slice(out, func(i, j int) bool { return out[i] < out[j] })
	if len(out) > 24 {
		out = out[:24]
	}
	p.cache[key] = out
	return out
}

func lens(vs ...int64) []sv {
	var out []sv
	for _, v := range vs {
		out = append(out, sv{k: 's', i: v, b: v == 0})
	}
	return out
}

func allBytes() []sv {
	out := make([]sv, 256)
	for i := range out {
		out[i] = sv{k: 'i', i: int64(i)}
	}
	return out
}

func isNilResult(v sv) bool {
	return v.k == 'z' || v.k == 'p' && v.addr == ""
}

func fpath(recv int, fields ...int) string {
	s := fmt.Sprintf("P%d", recv)
	for _, f := range fields {
		s += fmt.Sprintf(".f%d", f)
	}
	return s
}

func checkC17(p *Prog, c *Check) {
	c.Rule("R17.1", "the decision functions Publish.WellFormed, Subscribe.WellFormed and TopicFilter.WellFormed agree with the documented rules on every assignment of the atoms they depend on (topic empty?, alias zero?, the two QoS bits, packet id zero?, number of filters, filter empty?, option bits, subscription identifier absent / at / above the limit)")
	c.Rule("R17.2", "Publish.String and Subscribe.String return, on every path, the suffixing helper applied to the same receiver; the helper returns its argument unchanged exactly when WellFormed() is nil and otherwise a constant format containing \"malformed!\"")
	c.Explanation = "The SSA form of each predicate is a decision function over the receiver's fields. The fields are identified through the exported accessors (TopicName, TopicAlias, PacketID, Filters, …) and the constructor's type code; every combination of abstract values of those atoms is evaluated through the function's decision tree and compared with the rule written here from the property text. The enumeration is over the atoms' finite abstract domain (e.g. all 256 values of a flag byte, lengths {0,1,2}, identifiers {0,1,max}), not over packets."
	c.Trusted = []string{"go/types + go/ssa (x/tools v0.29.0) faithful IR", "the rules as stated in the property", "abstract domains: a length is represented by 0, 1, 2; an integer by 0, 1, its maximum and the values around constants it is compared with"}
	c.NotDecided = []string{"that fields not mentioned in the rules have no influence beyond the one-at-a-time variation performed"}
	c.Rule("R17.3", "the documented rules speak of emptiness, counts, flags and identifiers only: nothing reachable from a WellFormed predicate looks at the content of a string or byte-slice (no element access, no comparison with a non-empty string, no range over a string, no library function of the content) — so a stricter rule hidden behind a length guard the abstract lengths do not reach is reported, not missed")
	checkPublishWF(p, c)
	checkTopicFilterWF(p, c)
	checkSubscribeWF(p, c)
	checkWellFormedContentFree(p, c)
	checkStringForm(p, c)
}

func checkPublishWF(p *Prog, c *Check) {
	cons := "(*Publish).WellFormed"
	fn := p.Method("Publish", "WellFormed")
	if fn == nil {
		c.Bad("anchor", cons, "-", "method not found")
		return
	}
	c.Fn(qname(fn))
	fTopic, ok1 := p.accessorField("Publish", "TopicName")
	fAlias, ok2 := p.accessorField("Publish", "TopicAlias")
	fID, ok3 := p.accessorField("Publish", "PacketID")
	fFixed, _, ok4 := p.headerField("Publish")
	if !(ok1 && ok2 && ok3 && ok4) {
		c.Unk("R17.1", cons, p.Pos(fn.Pos()), "cannot identify the fields behind TopicName/TopicAlias/PacketID or the header byte")
		return
	}
	keys := []string{fpath(0, fTopic), fpath(0, fAlias), fpath(0, fID), fpath(0, fFixed)}
	dom := map[string][]sv{
		keys[0]: lens(p.lenDomainFor(fn)...),
		keys[1]: ints(0, 1, 65535),
		keys[2]: ints(0, 1, 65535),
		keys[3]: allBytes(),
	}
	n := 0
	bad := ""
	extra := map[string]types.Type{}
	product(keys, dom, func(a symAssign) bool {
		n++
		ctx := p.newSym(a.input(defaultInput))
		ctx.opaqueNonNil["newMalformed"] = true
		rs, ok := ctx.evalPure(fn, []sv{{k: 'p', addr: "P0"}}, nil, 0)
		if !ok {
			bad = "cannot evaluate the predicate: " + ctx.why
			return false
		}
		for k, t := range ctx.seen {
			known := false
			for _, kk := range keys {
				if kk == k {
					known = true
				}
			}
			if !known {
				extra[k] = t
			}
		}
		topicEmpty := a[keys[0]].i == 0
		alias0 := a[keys[1]].i == 0
		id0 := a[keys[2]].i == 0
		q := (a[keys[3]].i >> 1) & 3
		want := topicEmpty && alias0 || (q == 1 || q == 2) && id0 || q == 3
		got := !isNilResult(rs[0])
		if got != want {
			bad = fmt.Sprintf("topic empty=%v, alias=%d, QoS bits=%d, packet id=%d: WellFormed reports error=%v, the rule says %v", topicEmpty, a[keys[1]].i, q, a[keys[2]].i, got, want)
			return false
		}
		return true
	})
	c.Measured["publish_wellformed_assignments"] = n
	switch {
	case bad != "":
		c.Bad("R17.1", cons, p.Pos(fn.Pos()), bad)
	case len(extra) > 0:
		var ks []string
		for k := range extra {
			ks = append(ks, k)
		}
		c.Unk("R17.1", cons, p.Pos(fn.Pos()), "the predicate also reads "+strings.Join(ks, ", ")+", which the documented rule does not mention")
	default:
		c.OK("R17.1", cons, p.Pos(fn.Pos()), fmt.Sprintf("error ⇔ (topic empty ∧ alias = 0) ∨ (QoS ∈ {1,2} ∧ id = 0) ∨ QoS = 3 on all %d assignments of the atoms", n))
	}
}

func topicFilterFields(p *Prog) (fFilter, fOpt int, ok bool) {
	a, ok1 := p.accessorField("TopicFilter", "Filter")
	b, ok2 := p.accessorField("TopicFilter", "Options")
	return a, b, ok1 && ok2
}

func checkTopicFilterWF(p *Prog, c *Check) {
	cons := "(*TopicFilter).WellFormed"
	fn := p.Method("TopicFilter", "WellFormed")
	if fn == nil {
		c.Bad("anchor", cons, "-", "method not found")
		return
	}
	c.Fn(qname(fn))
	fF, fO, ok := topicFilterFields(p)
	if !ok {
		c.Unk("R17.1", cons, p.Pos(fn.Pos()), "cannot identify the fields behind Filter/Options")
		return
	}
	keys := []string{fpath(0, fF), fpath(0, fO)}
	dom := map[string][]sv{keys[0]: lens(p.lenDomainFor(fn)...), keys[1]: allBytes()}
	n := 0
	bad := ""
	extraTF := map[string]bool{}
	product(keys, dom, func(a symAssign) bool {
		n++
		ctx := p.newSym(a.input(defaultInput))
		ctx.opaqueNonNil["newMalformed"] = true
		rs, ok := ctx.evalPure(fn, []sv{{k: 'p', addr: "P0"}}, nil, 0)
		if !ok {
			bad = "cannot evaluate the predicate: " + ctx.why
			return false
		}
		for k := range ctx.seen {
			if strings.HasPrefix(k, "P0.f") && k != keys[0] && k != keys[1] && !strings.HasPrefix(k, keys[0]+"[") {
				extraTF[k] = true
			}
		}
		want := a[keys[0]].i == 0 || a[keys[1]].i&3 == 3
		if got := !isNilResult(rs[0]); got != want {
			bad = fmt.Sprintf("filter length %d, options %#02x: WellFormed reports error=%v, the rule says %v", a[keys[0]].i, a[keys[1]].i, got, want)
			return false
		}
		return true
	})
	if bad == "" && len(extraTF) > 0 {
		var ks []string
		for k := range extraTF {
			ks = append(ks, k)
		}
		sort.Strings(ks)
		c.Unk("R17.1", cons, p.Pos(fn.Pos()), "the predicate also reads "+strings.Join(ks, ", ")+", which the documented rule does not mention")
	} else if bad != "" {
		c.Bad("R17.1", cons, p.Pos(fn.Pos()), bad)
	} else {
		c.OK("R17.1", cons, p.Pos(fn.Pos()), fmt.Sprintf("error ⇔ filter empty ∨ (options & 3) = 3 on all %d assignments (lengths %v × 256 option bytes)", n, p.lenDomainFor(fn)))
	}
}

func checkSubscribeWF(p *Prog, c *Check) {
	cons := "(*Subscribe).WellFormed"
	fn := p.Method("Subscribe", "WellFormed")
	if fn == nil {
		c.Bad("anchor", cons, "-", "method not found")
		return
	}
	c.Fn(qname(fn))
	fFilters, ok1 := p.accessorField("Subscribe", "Filters")
	fF, fO, ok2 := topicFilterFields(p)
	// the subscription identifier: the pointer field SetSubscriptionID writes
	fSub := -1
	if set := p.Method("Subscribe", "SetSubscriptionID"); set != nil {
		for _, b := range set.Blocks {
			for _, ins := range b.Instrs {
				if st, ok := ins.(*ssa.Store); ok {
					if fa, ok := st.Addr.(*ssa.FieldAddr); ok && fa.X == ssa.Value(set.Params[0]) {
						fSub = fa.Field
					}
				}
			}
		}
	}
	if !ok1 || !ok2 || fSub < 0 {
		c.Unk("R17.1", cons, p.Pos(fn.Pos()), "cannot identify the fields behind Filters / SetSubscriptionID / Filter / Options")
		return
	}
	const limit = 268435455
	n := 0
	bad := ""
	extraSub := map[string]bool{}
	// numbers of filters: 0–3 with every combination of the atoms, and — with all filters but the last valid — 4, 5 and
	// the neighbourhood of every constant the predicate (or what it calls) compares anything with (a rule such as "at most 32 filters"
	// shows at 33)
	nfs := []int64{0, 1, 2, 3, 4, 5}
	for _, k := range p.cmpConstsFor(fn) {
		if k > 5 && k <= 5000 {
			nfs = append(nfs, k)
		}
	}
	if !thoroughMode && len(nfs) > 16 {
		nfs = nfs[:16]
	}
	for _, nf := range nfs {
		// the identifier cell is unsigned: bit patterns above the int range are legal contents (SetSubscriptionID(-1))
		subs := []int64{-1, 0, 1, limit, limit + 1, 1 << 31, 1<<32 - 1}
		if p.U.Sizes.Sizeof(types.Typ[types.Uint]) == 8 {
			subs = append(subs, math.MinInt64, -2) // 2^63 and 2^64-2 as bit patterns
		}
		for subIdx, sub := range subs { // index 0 (-1): absent
			keys := []string{}
			dom := map[string][]sv{}
			for k := int64(0); k < nf; k++ {
				kf := fmt.Sprintf("%s[%d].f%d", fpath(0, fFilters), k, fF)
				ko := fmt.Sprintf("%s[%d].f%d", fpath(0, fFilters), k, fO)
				keys = append(keys, kf, ko)
				dom[kf] = lens(0, 1)
				if nf == 1 {
					dom[kf] = lens(p.lenDomainFor(fn)...)
				}
				if nf == 1 {
					dom[ko] = allBytes()
				} else {
					dom[ko] = ints(0, 1, 2, 3, 0xFC, 0xFF)
				}
				if nf > 3 {
					dom[kf], dom[ko] = lens(1), ints(1)
					if k == nf-1 {
						// … except the last one: a predicate that stops looking after the first few filters
						dom[kf], dom[ko] = lens(0, 1), ints(1, 3)
					}
				}
			}
			product(keys, dom, func(a symAssign) bool {
				n++
				a2 := symAssign{}
				for k, v := range a {
					a2[k] = v
				}
				a2[fpath(0, fFilters)] = sv{k: 's', i: nf, b: nf == 0, addr: fpath(0, fFilters)}
				if subIdx == 0 {
					a2[fpath(0, fSub)] = sv{k: 'p'}
				} else {
					a2[fpath(0, fSub)] = sv{k: 'p', addr: "SUB"}
					a2["SUB"] = sv{k: 'i', i: sub}
				}
				ctx := p.newSym(a2.input(defaultInput))
				ctx.opaqueNonNil["newMalformed"] = true
				rs, ok := ctx.evalPure(fn, []sv{{k: 'p', addr: "P0"}}, nil, 0)
				if !ok {
					bad = "cannot evaluate the predicate: " + ctx.why
					return false
				}
				for k := range ctx.seen {
					if strings.HasPrefix(k, "P0.f") && !strings.HasPrefix(k, fpath(0, fFilters)) && k != fpath(0, fSub) {
						extraSub[k] = true
					}
				}
				want := nf == 0 || (subIdx != 0 && uint64(sub) > limit)
				for k := int64(0); k < nf; k++ {
					if a[keys[2*k]].i == 0 || a[keys[2*k+1]].i&3 == 3 {
						want = true
					}
				}
				if got := !isNilResult(rs[0]); got != want {
					bad = fmt.Sprintf("%d filter(s), subscription id %d (-1 = absent), %v: WellFormed reports error=%v, the rule says %v", nf, sub, a, got, want)
					return false
				}
				return true
			})
			if bad != "" {
				break
			}
		}
		if bad != "" {
			break
		}
	}
	c.Measured["subscribe_wellformed_assignments"] = n
	if bad == "" && len(extraSub) > 0 {
		var ks []string
		for k := range extraSub {
			ks = append(ks, k)
		}
		sort.Strings(ks)
		c.Unk("R17.1", cons, p.Pos(fn.Pos()), "the predicate also reads "+strings.Join(ks, ", ")+", which the documented rule does not mention: a rule on a field that is never varied here would go unnoticed")
	} else if bad != "" {
		c.Bad("R17.1", cons, p.Pos(fn.Pos()), bad)
	} else {
		c.OK("R17.1", cons, p.Pos(fn.Pos()), fmt.Sprintf("error ⇔ no filter ∨ id > 268 435 455 ∨ some filter empty or requesting QoS 3, on all %d assignments (0–3 filters, id absent/0/1/limit/limit+1/2^31/2^32-1/2^63/2^64-2)", n))
	}
}

// R17.2
func checkStringForm(p *Prog, c *Check) {
	// the suffixing helper: a function(h, v string) string that invokes WellFormed on h
	var helper *ssa.Function
	for _, fn := range p.AllFuncs() {
		if fn.Signature.Recv() != nil || fn.Parent() != nil || len(fn.Params) != 2 || fn.Signature.Results().Len() != 1 {
			continue
		}
		for _, b := range fn.Blocks {
			for _, ins := range b.Instrs {
				if call, ok := ins.(*ssa.Call); ok && call.Call.IsInvoke() && call.Call.Value == ssa.Value(fn.Params[0]) && call.Call.Method.Name() == "WellFormed" {
					helper = fn
				}
			}
		}
	}
	// verdict form: helper(verdict, v string) string that tests its first parameter against nil; String then
	// passes receiver.WellFormed() for it
	verdictForm := false
	if helper == nil {
		for _, typ := range []string{"Publish", "Subscribe"} {
			fn := p.Method(typ, "String")
			wfm := p.Method(typ, "WellFormed")
			if fn == nil || wfm == nil {
				continue
			}
			for _, b := range fn.Blocks {
				ret, isR := terminator(b).(*ssa.Return)
				if !isR || len(ret.Results) != 1 {
					continue
				}
				call, isCall := ret.Results[0].(*ssa.Call)
				if !isCall || len(call.Call.Args) != 2 {
					continue
				}
				h := call.Call.StaticCallee()
				if h == nil || h.Blocks == nil || h.Signature.Recv() != nil || len(h.Params) != 2 {
					continue
				}
				if a0, ok := stripIface(call.Call.Args[0]).(*ssa.Call); ok && a0.Call.StaticCallee() == wfm {
					if nn, _ := errEdges(h.Params[0]); len(nn) > 0 {
						helper, verdictForm = h, true
					}
				}
			}
		}
	}
	if helper == nil {
		c.Bad("R17.2", "suffix helper", "-", "no helper that calls WellFormed on its first argument (or is handed its verdict) and returns a string")
		return
	}
	c.Fn(qname(helper))
	hc := qname(helper)
	// shape of the helper
	var wf ssa.Value
	for _, b := range helper.Blocks {
		for _, ins := range b.Instrs {
			if call, ok := ins.(*ssa.Call); ok && call.Call.IsInvoke() && call.Call.Method.Name() == "WellFormed" {
				wf = call
			}
		}
	}
	if verdictForm {
		wf = helper.Params[0]
	}
	nonNil, isNil := errEdges(wf)
	okH := len(nonNil) > 0
	for _, b := range helper.Blocks {
		ret, ok := terminator(b).(*ssa.Return)
		if !ok {
			continue
		}
		r := ret.Results[0]
		switch {
		case dominatedByAny(isNil, b):
			if r != ssa.Value(helper.Params[1]) {
				okH = false
				c.Bad("R17.2", hc, posOf(p, ret), "on the well-formed side the helper does not return its argument unchanged")
			}
		case dominatedByAny(nonNil, b):
			call, isCall := r.(*ssa.Call)
			fc := (*FmtCall)(nil)
			if isCall {
				fc = AsFmtCall(call)
			}
			if fc == nil {
				// concatenation form: v + ", malformed! " + …  (leftmost operand the original text, a constant
				// operand containing the mark)
				var ops []ssa.Value
				var flat func(v ssa.Value)
				flat = func(v ssa.Value) {
					if bo, ok := v.(*ssa.BinOp); ok && bo.Op == token.ADD {
						flat(bo.X)
						flat(bo.Y)
						return
					}
					ops = append(ops, v)
				}
				flat(r)
				mark := false
				for _, o := range ops {
					if cst, ok := o.(*ssa.Const); ok && cst.Value != nil && strings.Contains(cst.Value.ExactString(), "malformed!") {
						mark = true
					}
				}
				if len(ops) >= 2 && ops[0] == ssa.Value(helper.Params[1]) && mark {
					continue
				}
			}
			if fc == nil || !fc.ConstF || !strings.Contains(fc.Format, "malformed!") {
				okH = false
				c.Bad("R17.2", hc, posOf(p, ret), "on the malformed side the helper does not return a constant format containing \"malformed!\"")
			} else if len(fc.Args) == 0 || stripIface(fc.Args[0]) != ssa.Value(helper.Params[1]) || !strings.HasPrefix(fc.Format, "%s") {
				okH = false
				c.Bad("R17.2", hc, posOf(p, ret), "the malformed rendering does not start with the original text")
			}
		default:
			okH = false
			c.Bad("R17.2", hc, posOf(p, ret), "a return that is on neither side of the WellFormed test")
		}
	}
	if okH {
		c.OK("R17.2", hc, p.Pos(helper.Pos()), "returns its argument unchanged iff WellFormed() == nil, otherwise the argument followed by \", malformed! …\"")
	}
	// String of the two packet types
	for _, typ := range []string{"Publish", "Subscribe"} {
		fn := p.Method(typ, "String")
		cons := "(*" + typ + ").String"
		if fn == nil {
			c.Bad("anchor", cons, "-", "method not found")
			continue
		}
		c.Fn(qname(fn))
		ok := true
		for _, b := range fn.Blocks {
			ret, isR := terminator(b).(*ssa.Return)
			if !isR {
				continue
			}
			call, isCall := ret.Results[0].(*ssa.Call)
			if !isCall || call.Call.StaticCallee() != helper {
				ok = false
				c.Bad("R17.2", cons, posOf(p, ret), "String does not return through the suffixing helper: the \"malformed!\" mark can be missing")
				continue
			}
			if verdictForm {
				a0, isC := stripIface(call.Call.Args[0]).(*ssa.Call)
				if !isC || a0.Call.StaticCallee() != p.Method(typ, "WellFormed") || len(a0.Call.Args) == 0 || !isRecvOf(p, fn, a0.Call.Args[0]) {
					ok = false
					c.Bad("R17.2", cons, posOf(p, ret), "the helper is not handed the receiver's own WellFormed() verdict")
				}
				continue
			}
			mi, isMI := call.Call.Args[0].(*ssa.MakeInterface)
			if !isMI || !isRecvOf(p, fn, mi.X) {
				ok = false
				c.Bad("R17.2", cons, posOf(p, ret), "the helper is applied to something other than the receiver")
			}
		}
		if ok {
			c.OK("R17.2", cons, p.Pos(fn.Pos()), "every return is "+qname(helper)+"(receiver, text)")
		}
	}
}

func stripIface(v ssa.Value) ssa.Value {
	for {
		switch x := v.(type) {
		case *ssa.MakeInterface:
			v = x.X
		case *ssa.ChangeInterface:
			v = x.X
		default:
			return v
		}
	}
}

// checkWellFormedContentFree (R17.3): see the rule text.
func checkWellFormedContentFree(p *Prog, c *Check) {
	isText := func(t types.Type) bool {
		switch u := t.Underlying().(type) {
		case *types.Basic:
			return u.Info()&types.IsString != 0
		case *types.Slice:
			b, ok := u.Elem().Underlying().(*types.Basic)
			return ok && (b.Kind() == types.Uint8 || b.Kind() == types.Int32)
		}
		return false
	}
	for _, tn := range []string{"Publish", "Subscribe", "TopicFilter"} {
		fn := p.Method(tn, "WellFormed")
		if fn == nil {
			continue
		}
		cons := "(*" + tn + ").WellFormed#content-free"
		bad := ""
		nfn := 0
		for _, g := range sortedFuncs(p.Reach([]*ssa.Function{fn})) {
			if g.Blocks == nil {
				continue
			}
			nfn++
			for _, b := range g.Blocks {
				for _, ins := range b.Instrs {
					why := ""
					switch x := ins.(type) {
					case *ssa.BinOp:
						switch x.Op {
						case token.EQL, token.NEQ, token.LSS, token.LEQ, token.GTR, token.GEQ:
							if bt, ok := x.X.Type().Underlying().(*types.Basic); ok && bt.Info()&types.IsString != 0 {
								emptyConst := func(v ssa.Value) bool {
									cst, ok := v.(*ssa.Const)
									return ok && cst.Value != nil && cst.Value.ExactString() == `""`
								}
								if !emptyConst(x.X) && !emptyConst(x.Y) {
									why = "compares string contents"
								}
							}
						}
					case *ssa.IndexAddr:
						if isText(x.X.Type()) {
							why = "reads an element of a string / byte slice"
						}
					case *ssa.Index:
						if isText(x.X.Type()) {
							why = "reads an element of a string"
						}
					case *ssa.Lookup:
						if isText(x.X.Type()) {
							why = "indexes a string"
						}
					case *ssa.Range:
						if isText(x.X.Type()) {
							why = "ranges over a string"
						}
					case *ssa.Call:
						sc := x.Call.StaticCallee()
						if sc != nil && sc.Blocks == nil && !strings.HasPrefix(fullName(sc), "fmt.") && !strings.HasPrefix(fullName(sc), "errors.") {
							for _, a := range x.Call.Args {
								if _, isC := a.(*ssa.Const); !isC && isText(a.Type()) {
									why = "passes a string / byte slice to " + fullName(sc)
								}
							}
						}
					}
					if why != "" && bad == "" {
						bad = fmt.Sprintf("%s %s at %s: the outcome can depend on the content of a field, which the documented rule does not", qname(g), why, posOf(p, ins))
					}
				}
			}
		}
		if bad != "" {
			c.Bad("R17.3", cons, p.Pos(fn.Pos()), bad)
		} else {
			c.OK("R17.3", cons, p.Pos(fn.Pos()), fmt.Sprintf("%d function(s) reachable, none looks at the content of a string or byte slice", nfn))
		}
	}
}
