package main

import "golang.org/x/tools/go/ssa"

// C07 — fragmentation independence.
// R7.1: every read of the stream inside package mq is a full read.

func init() {
	register(&PropertyCheck{ID: "C07", Level: "proof", Run: checkC07, Canaries: []Canary{
		{Name: "body-bare-read", Rule: "R7.1", Where: "ReadRemaining", Edits: []Edit{{"packet.go", "io.ReadFull(r, data)", "r.Read(data)"}}},
		{Name: "vbi-bare-read", Rule: "R7.1", Where: "(*vbint).ReadFrom", Edits: []Edit{{"wiretypes.go", "if _, err := io.ReadFull(r, data); err != nil {\n\t\t\treturn i, err", "if _, err := r.Read(data); err != nil {\n\t\t\treturn i, err"}}},
		{Name: "first-byte-bare-read", Rule: "R7.1", Where: "(*bits).ReadFrom", Edits: []Edit{{"wiretypes.go", "if n, err := io.ReadFull(r, data); err != nil {", "if n, err := r.Read(data); err != nil {"}}},
		{Name: "readatleast-short", Rule: "R7.1", Where: "ReadRemaining", Edits: []Edit{{"packet.go", "io.ReadFull(r, data)", "io.ReadAtLeast(r, data, 1)"}}},
		{Name: "bufio-wrap", Rule: "R7.1", Where: "ReadPacket", Edits: []Edit{
			{"packet.go", "\tvar fh fixedHeader\n", "\tr = bufio.NewReader(r)\n\tvar fh fixedHeader\n"},
			{"packet.go", "import (\n", "import (\n\t\"bufio\"\n"}}},
		{Name: "readatleast-full-is-fine", Silent: true, Edits: []Edit{{"packet.go", "io.ReadFull(r, data)", "io.ReadAtLeast(r, data, len(data))"}}},
	}})
}

func checkC07(p *Prog, c *Check) {
	c.Rule("R7.1", "every invocation of Read on a stream reader inside package mq is made by io.ReadFull (or io.ReadAtLeast with min == len(buf)); the reader is otherwise only handed to mq functions that obey the same rule")
	c.Explanation = "All uses of io.Reader-typed values in every function of package mq are enumerated from the SSA form; each is a full-read primitive, a hand-over to another analysed mq function, or a violation. With full reads only, the bytes placed in each buffer are a function of the stream content alone (io.ReadFull contract), independent of chunking, (0,nil) reads and (n,io.EOF)."
	c.Trusted = []string{"go/types + go/ssa (x/tools v0.29.0) build a faithful IR", "io.ReadFull / io.ReadAtLeast contract as documented", "caller-supplied io.Reader obeys the io.Reader contract"}
	c.Assumptions = []string{"the reader passed to ReadPacket obeys the io.Reader contract", "decoding after the read depends on the bytes only (C06 R6.5, C13 R13.2)"}
	c.NotDecided = []string{"a hand-written fill loop equivalent to io.ReadFull is reported as a violation (undecidable loop semantics are not guessed)"}
	rp, msg := p.readPacketAnchor()
	if rp == nil {
		c.Bad("anchor", "ReadPacket", "-", msg)
		return
	}
	onPath := p.Reach([]*ssa.Function{rp})
	reads, onPathReads := 0, 0
	for _, fn := range p.AllFuncs() {
		uses := p.ReaderUses(fn)
		if len(uses) == 0 {
			continue
		}
		c.Fn(qname(fn))
		for _, u := range uses {
			c.Sites++
			pos := posOf(p, u.Ins)
			switch u.Kind {
			case FullRead:
				reads++
				if onPath[fn] {
					onPathReads++
				}
				c.OK("R7.1", u.Construct(), pos, "full read: "+u.Call.String())
			case BareRead:
				reads++
				if onPath[fn] {
					onPathReads++
				}
				c.Bad("R7.1", u.Construct(), pos, "bare Read on the stream: the byte count is not driven to len(buf), so a short read or (n, io.EOF) changes the result")
			case PassMQ:
				c.OK("R7.1", u.Construct(), pos, "reader handed to "+qname(u.Callee[0])+", which is analysed by the same rule")
			case OtherUse:
				c.Unk("R7.1", u.Construct(), pos, "reader escapes the full-read discipline: "+u.What)
			}
		}
	}
	c.Measured["read_sites"] = reads
	c.Measured["read_sites_on_ReadPacket_path"] = onPathReads
	c.Floor("read sites reachable from ReadPacket", onPathReads, 2, "a frame needs at least a header read and a body read")
}
