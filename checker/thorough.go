package main

// The thorough tier: the quick analysis with deeper abstract domains, plus
//  (a) the same analysis with GOARCH=386 (32-bit int/uint change the no-wrap
//      reasoning and the accumulator bound),
//  (b) call resolution re-run with plain CHA (over-approximation) — reported,
//      never a verdict of its own,
//  (c) a seeded self-test: every canary edit is applied to the CURRENT source of
//      /repo (not the frozen fixture); it measures the checker on today's tree.

import (
	"fmt"
	"strings"
)

// thoroughMode widens the abstract domains of the evaluator-based checks.
var thoroughMode bool

func init() {
	thoroughHooks = append(thoroughHooks, thorough386, thoroughCHA, thoroughSelfTest)
}

// the GOARCH=386 variant of the repository is loaded and built once per run
var prog386 struct {
	repo string
	p    *Prog
	err  string
	done bool
}

func load386(repo string) (*Prog, string) {
	if prog386.done && prog386.repo == repo {
		return prog386.p, prog386.err
	}
	prog386.done, prog386.repo, prog386.p, prog386.err = true, repo, nil, ""
	u32, err := LoadUniverse(repo, "386")
	if err != nil {
		prog386.err = "cannot load the package for GOARCH=386: " + err.Error()
		return nil, prog386.err
	}
	src, err := u32.RepoSource()
	if err != nil {
		prog386.err = err.Error()
		return nil, prog386.err
	}
	p32, err := u32.Build("repo/386", src)
	if err != nil {
		prog386.err = err.Error()
		return nil, prog386.err
	}
	prog386.p = p32
	return p32, ""
}

// arch386Quick: properties whose reasoning depends on the width of int/uint (no-wrap arithmetic, the accumulator
// bound, loop classification over word-sized counters); they are re-decided for GOARCH=386 in the quick tier too.
var arch386Quick = map[string]bool{"C04": true, "C05": true, "C06": true, "C09": true, "C15": true, "C19": true}

func thorough386(u *Universe, repo string, pc *PropertyCheck, c *Check, verif string) {
	p32, why := load386(repo)
	if p32 == nil {
		c.Unk("thorough", "GOARCH=386 load", "-", why)
		return
	}
	c32 := NewCheck(pc.ID, p32)
	pc.Run(p32, c32)
	n, bad := 0, 0
	for _, o := range c32.Obls {
		n++
		o.Construct = "[386] " + o.Construct
		if o.Status != Discharged {
			bad++
		}
		c.Obls = append(c.Obls, o)
	}
	c.Measured["obligations_386"] = n
	c.Measured["undischarged_386"] = bad
	c.Notes = append(c.Notes, fmt.Sprintf("GOARCH=386: %d obligations re-decided with 32-bit int/uint, %d not discharged", n, bad))
}

func thoroughCHA(u *Universe, repo string, pc *PropertyCheck, c *Check, verif string) {
	src, err := u.RepoSource()
	if err != nil {
		return
	}
	pc2, err := u.Build("repo/cha", src)
	if err != nil {
		return
	}
	pc2.cache["cgmode"] = "cha"
	cc := NewCheck(pc.ID, pc2)
	pc.Run(pc2, cc)
	var extra []string
	bad := 0
	for _, o := range cc.Obls {
		if o.Status != Discharged {
			bad++
			if len(extra) < 8 {
				extra = append(extra, o.Rule+" "+o.Construct)
			}
		}
	}
	c.Measured["obligations_under_CHA"] = len(cc.Obls)
	c.Measured["undischarged_under_CHA"] = bad
	note := fmt.Sprintf("call resolution re-run with plain CHA (over-approximation, informational): %d obligations, %d not discharged", len(cc.Obls), bad)
	if bad > 0 {
		note += " — " + strings.Join(extra, "; ")
	}
	c.Notes = append(c.Notes, note)
}

func thoroughSelfTest(u *Universe, repo string, pc *PropertyCheck, c *Check, verif string) {
	src, err := u.RepoSource()
	if err != nil {
		return
	}
	saved := thoroughMode
	thoroughMode = false
	defer func() { thoroughMode = saved }()
	killed, silentOK, skipped, missed := 0, 0, 0, 0
	for _, cn := range pc.Canaries {
		res := runOne(u, pc, cn, src, "selftest:")
		if strings.HasPrefix(res.Reported, "not applicable") || strings.HasPrefix(res.Reported, "does not compile") {
			res.Expect += " (skipped: " + res.Reported + ")"
			res.OK = true
			skipped++
		} else if cn.Silent {
			if res.OK {
				silentOK++
			} else {
				missed++
			}
		} else if res.OK {
			killed++
		} else {
			missed++
		}
		c.SelfTest = append(c.SelfTest, res)
	}
	c.Measured["selftest_killed"] = killed
	c.Measured["selftest_silent_ok"] = silentOK
	c.Measured["selftest_skipped"] = skipped
	c.Measured["selftest_missed"] = missed
	c.Notes = append(c.Notes, fmt.Sprintf("seeded self-test on the current tree: %d breaking variants reported, %d behaviour-preserving variants left alone, %d not applicable to today's source, %d missed", killed, silentOK, skipped, missed))
}
