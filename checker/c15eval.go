package main

// C15, evaluation layer: the variable-byte-integer codec evaluated on boundary values and byte sequences.
//
// The shape rules of c15.go (R15.1–R15.3) recognise the codec as it is written today (mod/div encoder, multiplier
// accumulator in the decoders).  A codec written in another way (shift loop, shared state machine, …) is not of
// that shape; instead of reporting it, the functions themselves — their SSA form — are evaluated by the abstract
// evaluator (symeval.go) against the encoding MQTT v5.0 §1.5.5 defines:
//
//   - the encoder and width() on a set of values: every value up to 300, the neighbourhood of every size boundary
//     (2^7, 2^14, 2^21, 2^28), the neighbourhood of every integer constant that occurs in the codec's functions,
//     and a spread of values over the whole range;
//   - both decoders on the encodings of those values (followed by bytes that must not be touched) and on a set of
//     byte sequences: all sequences of up to four bytes over {00, 01, 7f, 80, 81, ff}, the five-byte sequences
//     whose first four bytes carry the continuation bit, and all of them cut short.
//
// This decides the same clauses as the shape rules, for the values listed, whatever the shape; it is also run when
// the shape is recognised (an evaluation that disagrees with the specification is a defect whatever the shape).

import (
	"fmt"
	"go/token"
	"sort"

	"golang.org/x/tools/go/ssa"
)

const vbiMax = 268435455

type vbiEval struct {
	p                   *Prog
	tn                  string
	enc, width, dec, rd *ssa.Function
	vals                []int64
	seqs                [][]int64
	maxStored           int64
}

// intConstantsOf: the integer constants that occur in fn (operands of its instructions).
func intConstantsOf(fn *ssa.Function) []int64 {
	var out []int64
	if fn == nil {
		return nil
	}
	for _, b := range fn.Blocks {
		for _, ins := range b.Instrs {
			for _, op := range ins.Operands(nil) {
				if *op == nil {
					continue
				}
				if k, ok := constInt(*op); ok {
					out = append(out, k)
				}
			}
		}
	}
	return out
}

func (p *Prog) newVBIEval(tn string) *vbiEval {
	e := &vbiEval{p: p, tn: tn, enc: p.Method(tn, "fill"), width: p.Method(tn, "width"), dec: p.Method(tn, "UnmarshalBinary"), rd: p.Method(tn, "ReadFrom")}
	set := map[int64]bool{}
	add := func(v int64) {
		if v >= 0 && v <= vbiMax {
			set[v] = true
		}
	}
	for v := int64(0); v <= 300; v++ {
		add(v)
	}
	for _, k := range []uint{7, 14, 21, 28} {
		for d := int64(-3); d <= 3; d++ {
			add(int64(1)<<k + d)
		}
	}
	for _, fn := range []*ssa.Function{e.enc, e.width, e.dec, e.rd} {
		for _, k := range intConstantsOf(fn) {
			for d := int64(-2); d <= 2; d++ {
				add(k + d)
			}
		}
		// helpers one call away (putByte, a shared step function)
		if fn != nil {
			for _, b := range fn.Blocks {
				for _, ins := range b.Instrs {
					if call, ok := ins.(*ssa.Call); ok {
						if sc := call.Call.StaticCallee(); sc != nil && p.inMQ(sc) {
							for _, k := range intConstantsOf(sc) {
								for d := int64(-2); d <= 2; d++ {
									add(k + d)
								}
							}
						}
					}
				}
			}
		}
	}
	// a spread over the whole range: every group pattern of {00, 01, 40, 7f} in the four groups, and a fixed
	// pseudo-random walk
	groups := []int64{0, 1, 0x40, 0x7f}
	for _, a := range groups {
		for _, b := range groups {
			for _, c := range groups {
				for _, d := range groups {
					add(a | b<<7 | c<<14 | d<<21)
				}
			}
		}
	}
	x := uint64(0x9E3779B97F4A7C15)
	for i := 0; i < 600; i++ {
		x ^= x << 13
		x ^= x >> 7
		x ^= x << 17
		add(int64(x % (vbiMax + 1)))
	}
	for v := range set {
		e.vals = append(e.vals, v)
	}
	sort.Slice(e.vals, func(i, j int) bool { return e.vals[i] < e.vals[j] })
	// byte sequences
	alpha := []int64{0x00, 0x01, 0x7f, 0x80, 0x81, 0xff}
	var gen func(prefix []int64, n int)
	gen = func(prefix []int64, n int) {
		if n == 0 {
			e.seqs = append(e.seqs, append([]int64(nil), prefix...))
			return
		}
		for _, a := range alpha {
			gen(append(prefix, a), n-1)
		}
	}
	for n := 1; n <= 4; n++ {
		gen(nil, n)
	}
	cont := []int64{0x80, 0x81, 0xff}
	for _, a := range cont {
		for _, b := range cont {
			for _, c := range cont {
				for _, d := range cont {
					for _, f := range alpha {
						e.seqs = append(e.seqs, []int64{a, b, c, d, f})
						e.seqs = append(e.seqs, []int64{a, b, c, d, f, 0x00})
					}
				}
			}
		}
	}
	return e
}

// specDecodeVBI: what MQTT v5.0 §1.5.5 says about the bytes at the start of seq: (value, bytes used, true), or
// rejection — the sequence ends on a continuation byte, or a fifth byte would be needed.
func specDecodeVBI(seq []int64) (int64, int, bool) {
	var v int64
	for i := 0; i < len(seq); i++ {
		if i == 4 {
			return 0, 0, false
		}
		v |= (seq[i] & 0x7f) << (7 * uint(i))
		if seq[i]&0x80 == 0 {
			return v, i + 1, true
		}
	}
	return 0, 0, false
}

func fmtSeq(seq []int64) string {
	s := ""
	for i, b := range seq {
		if i > 0 {
			s += " "
		}
		s += fmt.Sprintf("%02x", b)
	}
	return s
}

func (e *vbiEval) ctx() *symCtx {
	c := e.p.newSym(e.p.globalInput())
	c.opaqueNonNil["unmarshalErr"] = true
	c.opaqueNonNil["newMalformed"] = true
	c.limit = 20000
	return c
}

// encoder: (bad, undecided).  For every value: the bytes written at offset 1 of a seven-byte buffer are the
// specified encoding, nothing else in the buffer is touched, the result is the number of bytes; the dry run (nil
// buffer) and width() give the same number.
func (e *vbiEval) encoder() (string, string) {
	if e.enc == nil || len(e.enc.Params) != 3 {
		return "", "no encoder fill(buffer, offset) on " + e.tn
	}
	for _, v := range e.vals {
		want := specVBI(v)
		c := e.ctx()
		for k := 0; k < 7; k++ {
			c.mem[fmt.Sprintf("BUF[%d]", k)] = sv{k: 'i', i: 0x55}
		}
		rs, ok := c.evalPure(e.enc, []sv{{k: 'i', i: v}, {k: 's', i: 7, addr: "BUF"}, {k: 'i', i: 1}}, nil, 0)
		if !ok || len(rs) != 1 || rs[0].k != 'i' {
			return "", fmt.Sprintf("cannot evaluate %s on %d: %s", qname(e.enc), v, c.why)
		}
		if rs[0].i != int64(len(want)) {
			return fmt.Sprintf("%s reports %d byte(s) for the value %d; its encoding has %d", qname(e.enc), rs[0].i, v, len(want)), ""
		}
		var got []int64
		for k := 1; k <= len(want); k++ {
			cell := c.mem[fmt.Sprintf("BUF[%d]", k)]
			if cell.k != 'i' {
				return "", fmt.Sprintf("%s on %d: byte %d of the output is not determined", qname(e.enc), v, k-1)
			}
			got = append(got, cell.i&0xff)
		}
		for k := range want {
			if got[k] != want[k] {
				return fmt.Sprintf("%s writes %s for the value %d; MQTT v5.0 §1.5.5 defines %s", qname(e.enc), fmtSeq(got), v, fmtSeq(want)), ""
			}
		}
		for _, k := range []int{0, len(want) + 1} {
			if cell := c.mem[fmt.Sprintf("BUF[%d]", k)]; cell.k != 'i' || cell.i != 0x55 {
				return fmt.Sprintf("%s on the value %d writes outside its %d byte(s) (buffer index %d)", qname(e.enc), v, len(want), k), ""
			}
		}
		// dry run
		c = e.ctx()
		rs, ok = c.evalPure(e.enc, []sv{{k: 'i', i: v}, {k: 's', i: 0, b: true}, {k: 'i', i: 0}}, nil, 0)
		if !ok || len(rs) != 1 || rs[0].k != 'i' {
			return "", fmt.Sprintf("cannot evaluate the dry run of %s on %d: %s", qname(e.enc), v, c.why)
		}
		if rs[0].i != int64(len(want)) {
			return fmt.Sprintf("the dry run of %s gives %d for the value %d; its encoding has %d byte(s)", qname(e.enc), rs[0].i, v, len(want)), ""
		}
		// as a property (identifier byte, then the integer): the subscription identifier is written this way
		if fp := e.p.Method(e.tn, "fillProp"); fp != nil && len(fp.Params) == 4 && v > 0 {
			c = e.ctx()
			for k := 0; k < 8; k++ {
				c.mem[fmt.Sprintf("BUF[%d]", k)] = sv{k: 'i', i: 0x55}
			}
			rs, ok = c.evalPure(fp, []sv{{k: 'i', i: v}, {k: 's', i: 8, addr: "BUF"}, {k: 'i', i: 1}, {k: 'i', i: 0x0B}}, nil, 0)
			if !ok || len(rs) != 1 || rs[0].k != 'i' {
				return "", fmt.Sprintf("cannot evaluate %s on %d: %s", qname(fp), v, c.why)
			}
			wantP := append([]int64{0x0B}, want...)
			if rs[0].i != int64(len(wantP)) {
				return fmt.Sprintf("%s reports %d byte(s) for the value %d; identifier and encoding have %d", qname(fp), rs[0].i, v, len(wantP)), ""
			}
			var gotP []int64
			for k := 1; k <= len(wantP); k++ {
				cell := c.mem[fmt.Sprintf("BUF[%d]", k)]
				if cell.k != 'i' {
					return "", fmt.Sprintf("%s on %d: byte %d of the output is not determined", qname(fp), v, k-1)
				}
				gotP = append(gotP, cell.i&0xff)
			}
			for k := range wantP {
				if gotP[k] != wantP[k] {
					return fmt.Sprintf("%s writes %s for the value %d; identifier 0b followed by the encoding MQTT v5.0 §1.5.5 defines is %s", qname(fp), fmtSeq(gotP), v, fmtSeq(wantP)), ""
				}
			}
			for _, k := range []int{0, len(wantP) + 1} {
				if cell := c.mem[fmt.Sprintf("BUF[%d]", k)]; cell.k != 'i' || cell.i != 0x55 {
					return fmt.Sprintf("%s on the value %d writes outside its %d byte(s)", qname(fp), v, len(wantP)), ""
				}
			}
			// the dry run agrees
			c = e.ctx()
			rs, ok = c.evalPure(fp, []sv{{k: 'i', i: v}, {k: 's', i: 0, b: true}, {k: 'i', i: 0}, {k: 'i', i: 0x0B}}, nil, 0)
			if !ok || len(rs) != 1 || rs[0].k != 'i' {
				return "", fmt.Sprintf("cannot evaluate the dry run of %s on %d: %s", qname(fp), v, c.why)
			}
			if rs[0].i != int64(len(wantP)) {
				return fmt.Sprintf("the dry run of %s gives %d for the value %d; identifier and encoding have %d byte(s)", qname(fp), rs[0].i, v, len(wantP)), ""
			}
		}
		if e.width != nil && len(e.width.Params) == 1 {
			c = e.ctx()
			rs, ok = c.evalPure(e.width, []sv{{k: 'i', i: v}}, nil, 0)
			if !ok || len(rs) != 1 || rs[0].k != 'i' {
				return "", fmt.Sprintf("cannot evaluate %s on %d: %s", qname(e.width), v, c.why)
			}
			if rs[0].i != int64(len(want)) {
				return fmt.Sprintf("%s gives %d for the value %d; its encoding has %d byte(s): the sequential reader advances by another number of bytes than the integer occupies", qname(e.width), rs[0].i, v, len(want)), ""
			}
		}
	}
	return "", ""
}

type vbiOutcome struct {
	ok    bool  // accepted
	val   int64 // decoded value
	used  int64 // streaming decoder: bytes taken from the stream; in-memory: -1
	count int64 // streaming decoder: the count it returns
}

// memDecode evaluates the in-memory decoder on seq (receiver preset to a value that must not survive).
func (e *vbiEval) memDecode(seq []int64) (vbiOutcome, string) {
	o, unk, _ := e.memDecodeSteps(seq)
	return o, unk
}

func (e *vbiEval) memDecodeSteps(seq []int64) (vbiOutcome, string, int) {
	c := e.ctx()
	c.mem["V"] = sv{k: 'i', i: 0x155555}
	for k, b := range seq {
		c.mem[fmt.Sprintf("DATA[%d]", k)] = sv{k: 'i', i: b}
	}
	rs, ok := c.evalPure(e.dec, []sv{{k: 'p', addr: "V"}, {k: 's', i: int64(len(seq)), addr: "DATA"}}, nil, 0)
	if !ok || len(rs) != 1 {
		return vbiOutcome{}, fmt.Sprintf("cannot evaluate %s on %s: %s", qname(e.dec), fmtSeq(seq), c.why), c.steps
	}
	if !isNilResult(rs[0]) {
		return vbiOutcome{used: -1}, "", c.steps
	}
	v := c.mem["V"]
	if v.k != 'i' {
		return vbiOutcome{}, fmt.Sprintf("%s on %s: the decoded value is not determined", qname(e.dec), fmtSeq(seq)), c.steps
	}
	return vbiOutcome{ok: true, val: v.i, used: -1}, "", c.steps
}

// streamDecode evaluates the streaming decoder on a stream that holds seq and then ends.
func (e *vbiEval) streamDecode(seq []int64) (vbiOutcome, string) {
	c := e.ctx()
	c.mem["V"] = sv{k: 'i', i: 0x155555}
	pos := 0
	c.hook = func(c *symCtx, callee *ssa.Function, args []sv) ([]sv, bool, bool) {
		switch fullName(callee) {
		case "io.ReadFull", "io.ReadAtLeast":
			if len(args) < 2 || args[0].k != 'I' || len(args[0].tup) != 1 || args[0].tup[0].addr != "R:stream" || args[1].k != 's' {
				return nil, true, c.fail("%s on something else than the stream", fullName(callee))
			}
			n := int(args[1].i)
			eof := sv{k: 'I', tup: []sv{{k: 'p', addr: "R:eof"}}}
			got := 0
			for got < n && pos < len(seq) {
				c.mem[fmt.Sprintf("%s[%d]", args[1].addr, args[1].off+int64(got))] = sv{k: 'i', i: seq[pos]}
				pos++
				got++
			}
			if got < n {
				return []sv{{k: 'i', i: int64(got)}, eof}, true, true
			}
			return []sv{{k: 'i', i: int64(got)}, {k: 'z'}}, true, true
		}
		return nil, false, true
	}
	rs, ok := c.evalPure(e.rd, []sv{{k: 'p', addr: "V"}, {k: 'I', tup: []sv{{k: 'p', addr: "R:stream"}}}}, nil, 0)
	if !ok || len(rs) != 2 {
		return vbiOutcome{}, fmt.Sprintf("cannot evaluate %s on the stream %s: %s", qname(e.rd), fmtSeq(seq), c.why)
	}
	out := vbiOutcome{used: int64(pos)}
	if rs[0].k == 'i' {
		out.count = rs[0].i
	} else {
		out.count = -1
	}
	if !isNilResult(rs[1]) {
		return out, ""
	}
	v := c.mem["V"]
	if v.k != 'i' {
		return vbiOutcome{}, fmt.Sprintf("%s on the stream %s: the decoded value is not determined", qname(e.rd), fmtSeq(seq))
	}
	out.ok, out.val = true, v.i
	return out, ""
}

// decoder evaluates one decoder (stream = the streaming one) against the specification: (bad, undecided).
func (e *vbiEval) decoder(stream bool) (string, string) {
	fn := e.dec
	if stream {
		fn = e.rd
	}
	if fn == nil {
		return "", "decoder not found on " + e.tn
	}
	run := func(seq []int64) (vbiOutcome, string) {
		if stream {
			return e.streamDecode(seq)
		}
		return e.memDecode(seq)
	}
	check := func(seq []int64) (string, string) {
		got, unk := run(seq)
		if unk != "" {
			return "", unk
		}
		if got.ok && got.val > e.maxStored {
			e.maxStored = got.val
		}
		wv, wn, wok := specDecodeVBI(seq)
		switch {
		case wok && !got.ok:
			return fmt.Sprintf("%s rejects %s, the encoding of %d", qname(fn), fmtSeq(seq[:wn]), wv), ""
		case !wok && got.ok:
			why := "ends on a continuation byte"
			if len(seq) > 4 {
				why = "continues beyond four bytes"
			}
			return fmt.Sprintf("%s accepts %s as %d although the integer %s", qname(fn), fmtSeq(seq), got.val, why), ""
		case wok && got.val != wv:
			return fmt.Sprintf("%s decodes %s as %d; MQTT v5.0 §1.5.5 defines %d", qname(fn), fmtSeq(seq[:wn]), got.val, wv), ""
		case wok && stream && got.used != int64(wn):
			return fmt.Sprintf("%s takes %d byte(s) from the stream for %s, an integer of %d byte(s): the header is over- or under-read", qname(fn), got.used, fmtSeq(seq[:wn]), wn), ""
		case wok && stream && got.count != int64(wn):
			return fmt.Sprintf("%s reports %d byte(s) read for %s, an integer of %d byte(s)", qname(fn), got.count, fmtSeq(seq[:wn]), wn), ""
		case !wok && stream && len(seq) > 4 && got.used > 5:
			return fmt.Sprintf("%s takes %d byte(s) from the stream before it rejects %s", qname(fn), got.used, fmtSeq(seq)), ""
		}
		return "", ""
	}
	for _, v := range e.vals {
		enc := specVBI(v)
		for _, tail := range [][]int64{nil, {0xff, 0xff}, {0x00}} {
			if bad, unk := check(append(append([]int64(nil), enc...), tail...)); bad != "" || unk != "" {
				return bad, unk
			}
		}
	}
	for _, s := range e.seqs {
		if bad, unk := check(s); bad != "" || unk != "" {
			return bad, unk
		}
	}
	return "", ""
}

// vbiEvalRes: what the evaluation found, per function of the codec.
type vbiEvalRes struct {
	tn                  string
	enc, width, dec, rd *ssa.Function
	bad, unk            map[*ssa.Function]string
	nvals, nseqs        int
	maxStored           int64 // the largest value either decoder stored on an accepted sequence
	boundedWork         map[*ssa.Function]bool
}

func (r *vbiEvalRes) ok(fn *ssa.Function) bool {
	if r == nil || fn == nil {
		return false
	}
	_, evaluated := r.bad[fn]
	return evaluated && r.bad[fn] == "" && r.unk[fn] == ""
}

// vbiEval: the cached evaluation of the codec of wire type tn.
func (p *Prog) vbiEval(tn string) *vbiEvalRes {
	key := "vbieval:" + tn
	if v, ok := p.cache[key]; ok {
		r, _ := v.(*vbiEvalRes)
		return r
	}
	p.cache[key] = (*vbiEvalRes)(nil)
	e := p.newVBIEval(tn)
	r := &vbiEvalRes{tn: tn, enc: e.enc, width: e.width, dec: e.dec, rd: e.rd, bad: map[*ssa.Function]string{}, unk: map[*ssa.Function]string{}, boundedWork: map[*ssa.Function]bool{}}
	r.nvals, r.nseqs = len(e.vals), len(e.seqs)+3*len(e.vals)
	bad, unk := e.encoder()
	if e.enc != nil {
		r.bad[e.enc], r.unk[e.enc] = bad, unk
	}
	if e.width != nil && e.enc != nil {
		r.bad[e.width], r.unk[e.width] = bad, unk
	}
	if e.dec != nil {
		r.bad[e.dec], r.unk[e.dec] = e.decoder(false)
	}
	if e.rd != nil {
		r.bad[e.rd], r.unk[e.rd] = e.decoder(true)
	}
	r.maxStored = e.maxStored
	// the work on an endless run of continuation bytes is the work on five of them: the decoders give up at the
	// fifth byte however long the input is
	long := make([]int64, 64)
	for i := range long {
		long[i] = 0xff
	}
	if r.ok(e.dec) {
		_, _, s5 := e.memDecodeSteps(long[:5])
		o, unk, s64 := e.memDecodeSteps(long)
		r.boundedWork[e.dec] = unk == "" && !o.ok && s5 == s64
	}
	if r.ok(e.rd) {
		o, unk := e.streamDecode(long)
		r.boundedWork[e.rd] = unk == "" && !o.ok && o.used <= 5
	}
	p.cache[key] = r
	return r
}

// vbiEvalFor: the evaluation result of the codec fn belongs to (a method of a variable-byte-integer wire type).
func (p *Prog) vbiEvalFor(fn *ssa.Function) *vbiEvalRes {
	if fn == nil || fn.Signature.Recv() == nil {
		return nil
	}
	nt := namedOf(fn.Signature.Recv().Type())
	if nt == nil || nt.Obj().Pkg() != p.Pkg || p.wireKindOf(nt) != "vbi" {
		return nil
	}
	r := p.vbiEval(nt.Obj().Name())
	if r == nil {
		return nil
	}
	if _, has := r.bad[fn]; !has {
		return nil
	}
	return r
}

// checkVBIByEvaluation records R15.6 and returns, per function, whether the evaluation found it to agree with the
// specification (used where the shape rules do not recognise the function).
func checkVBIByEvaluation(p *Prog, c *Check, tn string) map[*ssa.Function]bool {
	r := p.vbiEval(tn)
	okFn := map[*ssa.Function]bool{}
	if r == nil {
		c.Unk("R15.6", "codec of "+tn, "-", "the evaluation did not complete")
		return okFn
	}
	note := fmt.Sprintf("%d values, %d byte sequences", r.nvals, r.nseqs)
	c.Measured["vbi_values_evaluated"] = r.nvals
	c.Measured["vbi_sequences_evaluated"] = r.nseqs
	rec := func(fn *ssa.Function, what string) {
		if fn == nil {
			c.Unk("R15.6", what+" of "+tn, "-", "not found")
			return
		}
		c.Fn(qname(fn))
		cons := qname(fn) + "#evaluated"
		pos := p.Pos(fn.Pos())
		switch {
		case r.bad[fn] != "":
			c.Bad("R15.6", cons, pos, r.bad[fn])
		case r.unk[fn] != "":
			c.Unk("R15.6", cons, pos, r.unk[fn])
		default:
			c.OK("R15.6", cons, pos, what+" agrees with MQTT v5.0 §1.5.5 on "+note)
			okFn[fn] = true
		}
	}
	rec(r.enc, "the encoder (and width())")
	if okFn[r.enc] && r.width != nil {
		okFn[r.width] = true
	}
	rec(r.dec, "the in-memory decoder")
	rec(r.rd, "the streaming decoder")
	return okFn
}

var _ = token.ADD
