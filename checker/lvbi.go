package main

// L-vbi — geometric-accumulator loop summary.
//
// A loop of the shape
//     m ← c0; acc ← 0
//     loop: acc' = acc + (x & M)·m ; if m > B → error exit ; … ; m ← m·R
// yields, on every non-error exit, acc' <= M·Σ{c0·R^k : c0·R^k <= B}.  All
// constants are read off the SSA; the arithmetic is done here.  This bounds the
// value the streaming length reader stores, hence the size of the frame buffer.

import (
	"fmt"
	"go/token"
	"math/big"

	"golang.org/x/tools/go/ssa"
)

type geoLoop struct {
	Fn          *ssa.Function
	Acc         *ssa.Phi
	AccNew      *ssa.BinOp
	Mult        *ssa.Phi
	R, M, B     int64
	C0          int64
	Guard       *ssa.If
	GuardStrict bool // m > B (true) or m >= B (false)
	Bound       *big.Int
	ByteVal     ssa.Value // x before masking
}

func maskOf(v ssa.Value) (ssa.Value, int64, bool) {
	bo, ok := v.(*ssa.BinOp)
	if !ok {
		// `uint(b & 127)`: the mask is applied before a conversion that does not narrow; the masked value is
		// non-negative, so the widened value is the same number
		if in, isB := stripConvsSafe(v).(*ssa.BinOp); isB && in.Op == token.AND && in != v {
			if x, m, ok := maskOf(in); ok {
				return x, m, true
			}
		}
		return nil, 0, false
	}
	switch bo.Op {
	case token.AND:
		if k, ok := constInt(bo.Y); ok && k >= 0 {
			return bo.X, k, true
		}
		if k, ok := constInt(bo.X); ok && k >= 0 {
			return bo.Y, k, true
		}
	case token.REM:
		if k, ok := constInt(bo.Y); ok && k > 0 {
			return bo.X, k - 1, true
		}
	}
	return nil, 0, false
}

// findGeoLoop recognises the accumulator loop in fn that produces value v (the
// accumulated sum as stored or returned).
func findGeoLoop(fn *ssa.Function, v ssa.Value) (*geoLoop, string) {
	v = stripConvsSafe(v)
	add, ok := v.(*ssa.BinOp)
	if !ok || add.Op != token.ADD {
		// the value may be the accumulator phi's successor seen through a phi at the exit
		return nil, "stored value is not `acc + term`"
	}
	var acc *ssa.Phi
	var term ssa.Value
	if p, ok := add.X.(*ssa.Phi); ok {
		acc, term = p, add.Y
	} else if p, ok := add.Y.(*ssa.Phi); ok {
		acc, term = p, add.X
	} else {
		return nil, "no accumulator phi"
	}
	// acc = phi[0, add]
	okAcc := len(acc.Edges) == 2
	seen0, seenNew := false, false
	for _, e := range acc.Edges {
		if k, ok := constInt(e); ok && k == 0 {
			seen0 = true
		} else if e == ssa.Value(add) {
			seenNew = true
		}
	}
	if !okAcc || !seen0 || !seenNew {
		return nil, "accumulator is not phi[0, acc+term]"
	}
	mul, ok := term.(*ssa.BinOp)
	if !ok || mul.Op != token.MUL {
		return nil, "term is not a product"
	}
	var mphi *ssa.Phi
	var masked ssa.Value
	if p, ok := mul.Y.(*ssa.Phi); ok {
		mphi, masked = p, mul.X
	} else if p, ok := mul.X.(*ssa.Phi); ok {
		mphi, masked = p, mul.Y
	} else {
		return nil, "no multiplier phi"
	}
	x, M, ok := maskOf(masked)
	if !ok {
		return nil, "term is not (x & mask)·m"
	}
	g := &geoLoop{Fn: fn, Acc: acc, AccNew: add, Mult: mphi, M: M, ByteVal: stripConvs(x)}
	if len(mphi.Edges) != 2 {
		return nil, "multiplier phi has more than two edges"
	}
	haveC0, haveStep := false, false
	for _, e := range mphi.Edges {
		if k, ok := constInt(e); ok && k >= 1 {
			g.C0, haveC0 = k, true
			continue
		}
		if bo, ok := e.(*ssa.BinOp); ok {
			switch bo.Op {
			case token.MUL:
				if bo.X == ssa.Value(mphi) {
					if k, ok := constInt(bo.Y); ok && k >= 2 {
						g.R, haveStep = k, true
					}
				} else if bo.Y == ssa.Value(mphi) {
					if k, ok := constInt(bo.X); ok && k >= 2 {
						g.R, haveStep = k, true
					}
				}
			case token.SHL:
				if bo.X == ssa.Value(mphi) {
					if k, ok := constInt(bo.Y); ok && k >= 1 && k < 30 {
						g.R, haveStep = 1<<uint(k), true
					}
				}
			}
		}
	}
	if !haveC0 || !haveStep {
		return nil, "multiplier is not phi[c0, m·R]"
	}
	// guard: If (m > B) in the loop whose true edge leaves the loop towards an error
	lp := loopContaining(fn, add.Block())
	if lp == nil {
		return nil, "accumulation is not inside a loop"
	}
	for b := range lp.Blocks {
		iff, ok := terminator(b).(*ssa.If)
		if !ok {
			continue
		}
		bo, ok := iff.Cond.(*ssa.BinOp)
		if !ok || bo.X != ssa.Value(mphi) {
			continue
		}
		k, ok := constInt(bo.Y)
		if !ok {
			continue
		}
		if (bo.Op == token.GTR || bo.Op == token.GEQ) && !lp.Has(b.Succs[0]) {
			g.Guard = iff
			g.B = k
			g.GuardStrict = bo.Op == token.GTR
			if !g.GuardStrict {
				g.B = k - 1
			}
		}
	}
	if g.Guard == nil {
		return nil, "no `multiplier > bound` guard leaving the loop: the accumulated value is unbounded"
	}
	// the guard's exit must end in a non-nil error
	errIdx := errorResultIndex(fn.Signature)
	for _, r := range returnsReachable(g.Guard.Block().Succs[0]) {
		if errIdx >= 0 && isNilConst(r.Results[errIdx]) {
			return nil, "the guard's exit can return success"
		}
	}
	// bound
	sum := new(big.Int)
	p := big.NewInt(g.C0)
	for p.Cmp(big.NewInt(g.B)) <= 0 {
		sum.Add(sum, p)
		p = new(big.Int).Mul(p, big.NewInt(g.R))
	}
	g.Bound = sum.Mul(sum, big.NewInt(g.M))
	return g, ""
}

// lvbiBound: v is (a conversion of) a load of a cell written only by a
// function that stores a guarded geometric accumulation through its first
// parameter.  Returns the bound and a description.
func (p *Prog) lvbiRange(v ssa.Value) (*big.Int, string, bool) {
	ld, ok := stripConvs(v).(*ssa.UnOp)
	if !ok || ld.Op != token.MUL {
		return nil, "", false
	}
	cls, lbase, ok := classOfAddr(ld.X)
	if !ok || cls.alloc != nil {
		return nil, "", false
	}
	var writer *ssa.Function
	for _, f := range p.AllFuncs() {
		for _, b := range f.Blocks {
			for _, ins := range b.Instrs {
				switch x := ins.(type) {
				case *ssa.Store:
					if k, sb, ok := classOfAddr(x.Addr); ok && k.same(cls) && (!storeIntoPrivateTemp(x) || sb == lbase) {
						return nil, "", false
					}
				case *ssa.Call:
					for _, a := range x.Common().Args {
						if k, _, ok := classOfAddr(a); ok && k.same(cls) {
							callees, ext := p.CG().Callees(x)
							if ext || len(callees) != 1 || (writer != nil && writer != callees[0]) {
								return nil, "", false
							}
							writer = callees[0]
						}
					}
				}
			}
		}
	}
	if writer == nil {
		return big.NewInt(0), "the cell is never written (zero)", true
	}
	g, why := p.geoSummary(writer)
	if g == nil {
		// a streaming decoder of another shape: the largest value it stored on any evaluated stream (C15 R15.6);
		// the evaluated streams include ff ff ff 7f, the largest sequence the specification accepts
		if r := p.vbiEvalFor(writer); r != nil && writer == r.rd && r.ok(writer) && r.boundedWork[writer] {
			return big.NewInt(r.maxStored), fmt.Sprintf("by evaluation (C15 R15.6): %s is written only by %s, which agrees with MQTT v5.0 §1.5.5 on %d byte sequences and stores at most %d", cls.name, qname(writer), r.nseqs, r.maxStored), true
		}
		return nil, why, false
	}
	return g.Bound, fmt.Sprintf("L-vbi: %s is written only by %s, whose loop accumulates (x & %d)·m with m ← m·%d from %d and leaves with an error once m > %d, so the stored value is <= %s", cls.name, qname(writer), g.M, g.R, g.C0, g.B, g.Bound), true
}

// geoSummary: the value fn stores through its first parameter is a guarded
// geometric accumulation.
func (p *Prog) geoSummary(fn *ssa.Function) (*geoLoop, string) {
	if len(fn.Params) == 0 {
		return nil, "no receiver"
	}
	var g *geoLoop
	n := 0
	why := "no store through the receiver"
	for _, b := range fn.Blocks {
		for _, ins := range b.Instrs {
			st, ok := ins.(*ssa.Store)
			if !ok || st.Addr != ssa.Value(fn.Params[0]) {
				continue
			}
			n++
			gl, w := findGeoLoop(fn, st.Val)
			if gl == nil {
				return nil, w
			}
			// the guard must dominate the store (the current multiplier passed the test)
			if !gl.Guard.Block().Dominates(b) {
				return nil, "the size guard does not dominate the store of the result"
			}
			g = gl
		}
	}
	if n != 1 || g == nil {
		return nil, why
	}
	return g, ""
}

func (p *Prog) lvbiBound(v ssa.Value) (string, bool) {
	_, s, ok := p.lvbiRange(v)
	return s, ok && s != ""
}
