package main

import (
	"os"
	"runtime/pprof"
)

func startProf() func() {
	if f := os.Getenv("MQV_PROF"); f != "" {
		w, _ := os.Create(f)
		pprof.StartCPUProfile(w)
		return func() { pprof.StopCPUProfile(); w.Close() }
	}
	return func() {}
}
