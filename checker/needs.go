package main

// Field needs: a function dereferences `recv.f` (a pointer field of its
// receiver object, possibly reached through a captured receiver or a bound
// method value) without checking it.  Instead of failing locally, the
// requirement "recv.f != nil while I run" is pushed to where the function (or
// the closure that embodies it) is put to use, and must be proven there.

import (
	"fmt"
	"go/token"
	"go/types"
	"sort"
	"strings"

	"golang.org/x/tools/go/ssa"
)

type fieldNeeds struct {
	assumed    map[*ssa.Function]map[string]bool // fn -> field keys assumed non-nil on its receiver object
	resultNeed map[*ssa.Function]map[string]bool // fn returns closures that need the field of fn's receiver
	names      map[string]string
	failed     map[string]string                    // construct -> reason (unresolvable shapes found while propagating)
	guarded    map[*ssa.Function]map[string]FlagInv // derefs that sit behind a test of a flag of the same object
	useInv     bool
}

func newFieldNeeds() *fieldNeeds {
	return &fieldNeeds{assumed: map[*ssa.Function]map[string]bool{}, resultNeed: map[*ssa.Function]map[string]bool{}, names: map[string]string{}, failed: map[string]string{}, guarded: map[*ssa.Function]map[string]FlagInv{}}
}

func fieldNeedKey(fa *ssa.FieldAddr) string {
	pt := fa.X.Type().Underlying().(*types.Pointer)
	return fmt.Sprintf("%s.%d", typeStr(pt.Elem()), fa.Field)
}

func fieldNeedName(fa *ssa.FieldAddr) string {
	pt := fa.X.Type().Underlying().(*types.Pointer)
	st := pt.Elem().Underlying().(*types.Struct)
	return typeStr(pt.Elem()) + "." + st.Field(fa.Field).Name()
}

func stripNilChk(v ssa.Value) ssa.Value {
	for {
		if c, ok := v.(*ssa.Call); ok {
			if bi, ok := c.Call.Value.(*ssa.Builtin); ok && bi.Name() == "ssa:wrapnilchk" {
				v = c.Call.Args[0]
				continue
			}
		}
		return v
	}
}

// recvBase: is v "the receiver object" of fn — its receiver parameter, the
// receiver bound into a method value, or the enclosing method's receiver seen
// through a captured variable?
func recvBase(p *Prog, fn *ssa.Function, v ssa.Value) (string, bool) {
	v = stripNilChk(v)
	if fn.Signature.Recv() != nil && len(fn.Params) > 0 && v == ssa.Value(fn.Params[0]) {
		return "recv", true
	}
	if strings.HasSuffix(fn.Name(), "$bound") && len(fn.FreeVars) == 1 && v == ssa.Value(fn.FreeVars[0]) {
		return "bound", true
	}
	if ld, ok := v.(*ssa.UnOp); ok && ld.Op == token.MUL {
		if fv, ok := ld.X.(*ssa.FreeVar); ok {
			if _, ok := capturedRecv(p, fn, fv); ok {
				return "captured", true
			}
		}
		// the function's own variable cell holding its receiver (it is a cell
		// because a closure captures it)
		if al, ok := ld.X.(*ssa.Alloc); ok {
			n := 0
			var stored ssa.Value
			okc := true
			for _, r := range *al.Referrers() {
				switch x := r.(type) {
				case *ssa.Store:
					if x.Addr != ssa.Value(al) {
						okc = false
					}
					n++
					stored = x.Val
				case *ssa.UnOp, *ssa.DebugRef, *ssa.MakeClosure:
				default:
					okc = false
				}
			}
			if okc && n == 1 {
				if k, ok := recvBase(p, fn, stored); ok {
					return k, true
				}
			}
		}
	}
	return "", false
}

// capturedRecv: free variable fv of closure fn is a cell that the enclosing
// function stores its own receiver object into, exactly once.
func capturedRecv(p *Prog, fn *ssa.Function, fv *ssa.FreeVar) (*ssa.Function, bool) {
	par := fn.Parent()
	if par == nil {
		return nil, false
	}
	k := -1
	for i, f := range fn.FreeVars {
		if f == fv {
			k = i
		}
	}
	found := false
	for _, b := range par.Blocks {
		for _, ins := range b.Instrs {
			mc, ok := ins.(*ssa.MakeClosure)
			if !ok || mc.Fn != ssa.Value(fn) {
				continue
			}
			cell, ok := mc.Bindings[k].(*ssa.Alloc)
			if !ok {
				return nil, false
			}
			n := 0
			for _, r := range *cell.Referrers() {
				if st, ok := r.(*ssa.Store); ok && st.Addr == ssa.Value(cell) {
					n++
					if _, ok := recvBase(p, par, st.Val); !ok {
						return nil, false
					}
				}
			}
			if n != 1 {
				return nil, false
			}
			found = true
		}
	}
	return par, found
}

// note records that fn dereferences subj = load(&R.f) unchecked, R being its
// receiver object.  Returns true if this is new.  When the dereference sits
// behind a test of a flag of the same object (and invariants are enabled) it
// is recorded as guarded: it then rests on the type's representation invariant
// instead of on the callers.
func (fnn *fieldNeeds) note(p *Prog, pr *Prover, fn *ssa.Function, at ssa.Instruction, subj ssa.Value) bool {
	ld, ok := subj.(*ssa.UnOp)
	if !ok || ld.Op != token.MUL {
		return false
	}
	fa, ok := ld.X.(*ssa.FieldAddr)
	if !ok {
		return false
	}
	if _, ok := recvBase(p, fn, fa.X); !ok {
		return false
	}
	k := fieldNeedKey(fa)
	if fnn.useInv {
		if g, mask, ok := guardOf(pr, at.Block(), fa.X); ok {
			if nt, ok := fa.X.Type().Underlying().(*types.Pointer).Elem().(*types.Named); ok {
				if fnn.guarded[fn] == nil {
					fnn.guarded[fn] = map[string]FlagInv{}
				}
				if _, had := fnn.guarded[fn][k]; had {
					return false
				}
				fnn.guarded[fn][k] = FlagInv{T: nt, G: g, Mask: mask, F: fa.Field}
				fnn.names[k] = fieldNeedName(fa)
				return true
			}
		}
	}
	return fnn.add(fn, k, fieldNeedName(fa))
}

func (fnn *fieldNeeds) add(fn *ssa.Function, k, name string) bool {
	if fnn.assumed[fn] == nil {
		fnn.assumed[fn] = map[string]bool{}
	}
	if fnn.assumed[fn][k] {
		return false
	}
	fnn.assumed[fn][k] = true
	if name != "" {
		fnn.names[k] = name
	}
	return true
}

func (fnn *fieldNeeds) addResult(fn *ssa.Function, k string) bool {
	if fnn.resultNeed[fn] == nil {
		fnn.resultNeed[fn] = map[string]bool{}
	}
	if fnn.resultNeed[fn][k] {
		return false
	}
	fnn.resultNeed[fn][k] = true
	return true
}

// provableFieldNonNil: at instruction `at` of pr.fn, is field k of object A
// non-nil?  Uses a load or store of that very field whose "no write since"
// version is the version current at `at`.
func provableFieldNonNil(pr *Prover, at ssa.Instruction, A ssa.Value, k string) bool {
	A = stripNilChk(A)
	akey := pr.key(A)
	var cls aclass
	var have bool
	type cand struct {
		ld *ssa.UnOp
		st *ssa.Store
	}
	var cands []cand
	for _, b := range pr.fn.Blocks {
		for _, ins := range b.Instrs {
			switch x := ins.(type) {
			case *ssa.UnOp:
				if x.Op != token.MUL {
					continue
				}
				if fa, ok := x.X.(*ssa.FieldAddr); ok && fieldNeedKey(fa) == k && pr.key(stripNilChk(fa.X)) == akey {
					cls, have = classOf(fa), true
					cands = append(cands, cand{ld: x})
				}
			case *ssa.Store:
				if fa, ok := x.Addr.(*ssa.FieldAddr); ok && fieldNeedKey(fa) == k && pr.key(stripNilChk(fa.X)) == akey {
					cands = append(cands, cand{st: x})
				}
			}
		}
	}
	if !have || pr.verAt == nil {
		return false
	}
	ver := pr.verAt(at, cls)
	if ver == "" {
		return false
	}
	for _, cd := range cands {
		if cd.ld != nil && pr.loadVer[cd.ld] == ver && cd.ld.Block().Dominates(at.Block()) && pr.NonNil(cd.ld, at.Block(), 0) {
			return true
		}
		if cd.st != nil && strings.HasPrefix(ver, "Sb") {
			var bi, idx int
			fmt.Sscanf(ver, "Sb%d.%d", &bi, &idx)
			if pr.fn.Blocks[bi].Instrs[idx] == ssa.Instruction(cd.st) && pr.NonNil(cd.st.Val, at.Block(), 0) {
				return true
			}
		}
	}
	return false
}

// calleesWriteField: may a call write the field class?
func calleesWriteField(p *Prog, site ssa.CallInstruction, k string) bool {
	callees, ext := p.CG().Callees(site)
	if ext && len(callees) == 0 {
		return false // foreign code cannot reach an unexported field
	}
	for _, cal := range callees {
		ws := p.writeClasses(cal)
		if ws.anything {
			return true
		}
		for _, c := range ws.classes {
			if c.kind == 'f' && fmt.Sprintf("%s.%d", c.owner, c.field) == k {
				return true
			}
			if c.kind == 'd' || c.kind == 'e' {
				// a write through a pointer to the field's type, or of an aggregate containing the struct
				parts := strings.Split(k, ".")
				_ = parts
			}
		}
	}
	return false
}

type needSite struct {
	fn   *ssa.Function
	at   ssa.Instruction
	A    ssa.Value
	k    string
	what string
	call ssa.CallInstruction // the consuming call whose callees must not write the field (may be nil)
}

// sitesFor enumerates where the need (F, k) has to hold, or reports a shape
// that cannot be resolved.
func (fnn *fieldNeeds) sitesFor(p *Prog, reach map[*ssa.Function]bool, F *ssa.Function, k string, result bool) (sites []needSite, inherit []*ssa.Function, resultOf []*ssa.Function, bad []string) {
	if result {
		// closures returned by F: every call site of F
		for _, Q := range sortedFuncs(reach) {
			for _, ci := range p.Calls(Q) {
				call, ok := ci.Site.(*ssa.Call)
				if !ok {
					continue
				}
				hit := false
				for _, cal := range ci.Callees {
					if cal == F {
						hit = true
					}
				}
				if !hit {
					continue
				}
				if call.Call.StaticCallee() != F {
					bad = append(bad, fmt.Sprintf("%s is called dynamically at %s", qname(F), p.Pos(call.Pos())))
					continue
				}
				A := call.Call.Args[0]
				for _, r := range *call.Referrers() {
					switch x := r.(type) {
					case *ssa.DebugRef:
					case ssa.CallInstruction:
						sites = append(sites, needSite{fn: Q, at: x, A: A, k: k, what: "result of " + qname(F) + " consumed by a call", call: x})
					default:
						bad = append(bad, fmt.Sprintf("the closures returned by %s are used by %T at %s, not handed straight to a call", qname(F), r, posOf(p, r)))
					}
				}
			}
		}
		return
	}
	switch {
	case F.Parent() != nil:
		P := F.Parent()
		for _, b := range P.Blocks {
			for _, ins := range b.Instrs {
				mc, ok := ins.(*ssa.MakeClosure)
				if !ok || mc.Fn != ssa.Value(F) {
					continue
				}
				for _, r := range *mc.Referrers() {
					switch x := r.(type) {
					case *ssa.DebugRef:
					case ssa.CallInstruction:
						if x.Common().Value == ssa.Value(mc) {
							// called inside P: P must guarantee it at this very call
							var A ssa.Value
							if P.Signature.Recv() != nil && len(P.Params) > 0 {
								A = P.Params[0]
							}
							if A != nil {
								sites = append(sites, needSite{fn: P, at: x.(ssa.Instruction), A: A, k: k, what: "closure " + qname(F) + " called here"})
							} else {
								inherit = append(inherit, P)
							}
							continue
						}
						// handed to a function that does nothing with it but call it (synchronously): P must
						// guarantee the need at this call, and the callee must not write the field first
						if sc := x.Common().StaticCallee(); sc != nil && !x.Common().IsInvoke() {
							onlyCalled := false
							for ai, a := range x.Common().Args {
								if a != ssa.Value(mc) || ai >= len(sc.Params) {
									continue
								}
								onlyCalled = true
								if refs := sc.Params[ai].Referrers(); refs != nil {
									for _, pr := range *refs {
										switch y := pr.(type) {
										case *ssa.DebugRef:
										case ssa.CallInstruction:
											if y.Common().Value != ssa.Value(sc.Params[ai]) {
												onlyCalled = false
											}
										default:
											onlyCalled = false
										}
									}
								}
							}
							if _, isCall := x.(*ssa.Call); onlyCalled && isCall {
								var A ssa.Value
								if P.Signature.Recv() != nil && len(P.Params) > 0 {
									A = P.Params[0]
								}
								if A != nil {
									sites = append(sites, needSite{fn: P, at: x.(ssa.Instruction), A: A, k: k, what: "closure " + qname(F) + " handed to " + qname(sc) + ", which only calls it", call: x})
									continue
								}
							}
						}
						bad = append(bad, fmt.Sprintf("closure %s is passed on at %s", qname(F), posOf(p, r)))
					case *ssa.MapUpdate:
						// stored in a map literal that P returns
						returned := false
						if mm, ok := x.Map.(*ssa.MakeMap); ok {
							for _, r2 := range *mm.Referrers() {
								if _, ok := r2.(*ssa.Return); ok {
									returned = true
								}
							}
						}
						if returned {
							resultOf = append(resultOf, P)
						} else {
							bad = append(bad, fmt.Sprintf("closure %s is stored in a map that is not returned directly (%s)", qname(F), posOf(p, r)))
						}
					case *ssa.Return:
						resultOf = append(resultOf, P)
					default:
						bad = append(bad, fmt.Sprintf("closure %s escapes through %T at %s", qname(F), r, posOf(p, r)))
					}
				}
			}
		}
	case strings.HasSuffix(F.Name(), "$bound"):
		for _, Q := range sortedFuncs(reach) {
			for _, b := range Q.Blocks {
				for _, ins := range b.Instrs {
					mc, ok := ins.(*ssa.MakeClosure)
					if !ok || mc.Fn != ssa.Value(F) {
						continue
					}
					for _, r := range *mc.Referrers() {
						switch x := r.(type) {
						case *ssa.DebugRef:
						case ssa.CallInstruction:
							sites = append(sites, needSite{fn: Q, at: x, A: mc.Bindings[0], k: k, what: "method value " + qname(F) + " consumed by a call", call: x})
						default:
							bad = append(bad, fmt.Sprintf("method value %s is kept by %T at %s", qname(F), r, posOf(p, r)))
						}
					}
				}
			}
		}
	default:
		n := 0
		for _, Q := range sortedFuncs(reach) {
			for _, ci := range p.Calls(Q) {
				hit := false
				for _, cal := range ci.Callees {
					if cal == F {
						hit = true
					}
				}
				if !hit {
					continue
				}
				n++
				cc := ci.Site.Common()
				if cc.StaticCallee() != F {
					bad = append(bad, fmt.Sprintf("%s is called dynamically at %s", qname(F), p.Pos(ci.Site.Pos())))
					continue
				}
				sites = append(sites, needSite{fn: Q, at: ci.Site.(ssa.Instruction), A: cc.Args[0], k: k, what: "call of " + qname(F)})
			}
		}
		if F.Object() != nil && F.Object().Exported() {
			bad = append(bad, fmt.Sprintf("%s is exported: callers outside the package cannot be held to the requirement", qname(F)))
		}
	}
	return
}

// propagate pushes needs that cannot be proven locally to the functions that
// can be asked to guarantee them.  Returns true if anything was added.
func (fnn *fieldNeeds) propagate(p *Prog, reach map[*ssa.Function]bool, cfg safetyCfg) bool {
	changed := false
	type item struct {
		F      *ssa.Function
		k      string
		result bool
	}
	var items []item
	for F, ks := range fnn.assumed {
		for k := range ks {
			items = append(items, item{F, k, false})
		}
	}
	for F, ks := range fnn.resultNeed {
		for k := range ks {
			items = append(items, item{F, k, true})
		}
	}
	for _, it := range items {
		sites, inherit, resultOf, _ := fnn.sitesFor(p, reach, it.F, it.k, it.result)
		for _, P := range inherit {
			if fnn.add(P, it.k, "") {
				changed = true
			}
		}
		for _, P := range resultOf {
			if fnn.addResult(P, it.k) {
				changed = true
			}
		}
		for _, s := range sites {
			pr := p.newSafetyProver(s.fn, cfg, fnn)
			if provableFieldNonNil(pr, s.at, s.A, s.k) {
				continue
			}
			if fnn.useInv {
				if g, mask, ok := guardOf(pr, s.at.Block(), s.A); ok {
					if nt, ok := s.A.Type().Underlying().(*types.Pointer).Elem().(*types.Named); ok {
						if fnn.guarded[s.fn] == nil {
							fnn.guarded[s.fn] = map[string]FlagInv{}
						}
						if _, had := fnn.guarded[s.fn][s.k]; !had {
							var fidx int
							fmt.Sscanf(s.k[strings.LastIndex(s.k, ".")+1:], "%d", &fidx)
							fnn.guarded[s.fn][s.k] = FlagInv{T: nt, G: g, Mask: mask, F: fidx}
							changed = true
						}
						continue
					}
				}
			}
			// not provable here: may the enclosing function pass the duty up?
			if s.call == nil {
				if _, ok := recvBase(p, s.fn, s.A); ok && closedCallSites(s.fn) {
					if fnn.add(s.fn, s.k, "") {
						changed = true
					}
				}
			}
		}
	}
	return changed
}

// resolve emits one obligation per place where a need must hold.
func (fnn *fieldNeeds) invariants() []FlagInv {
	seen := map[string]bool{}
	var out []FlagInv
	for _, m := range fnn.guarded {
		for _, inv := range m {
			if !seen[inv.key()] {
				seen[inv.key()] = true
				out = append(out, inv)
			}
		}
	}
	sort.Slice(out, func(i, j int) bool { return out[i].key() < out[j].key() })
	return out
}

func (fnn *fieldNeeds) resolve(p *Prog, c *Check, cfg safetyCfg, reach map[*ssa.Function]bool) {
	// dereferences behind a flag test rest on the representation invariant
	var gfns []*ssa.Function
	for fn := range fnn.guarded {
		gfns = append(gfns, fn)
	}
	sort.Slice(gfns, func(i, j int) bool { return qname(gfns[i]) < qname(gfns[j]) })
	for _, fn := range gfns {
		for k, inv := range fnn.guarded[fn] {
			cons := fmt.Sprintf("%s dereferences %s behind the flag test", qname(fn), fnn.names[k])
			if p.checkFlagInv(nil, "", inv) {
				c.OK(cfg.rule, cons, p.Pos(fn.Pos()), "non-nil by the representation invariant "+inv.String()+" (proven over all writers); no write to either field on the read-only path")
			} else {
				c.Unk(cfg.rule, cons, p.Pos(fn.Pos()), "relies on "+inv.String()+", which is not established by all writers")
			}
		}
	}
	type item struct {
		F      *ssa.Function
		k      string
		result bool
	}
	var items []item
	for F, ks := range fnn.assumed {
		for k := range ks {
			items = append(items, item{F, k, false})
		}
	}
	for F, ks := range fnn.resultNeed {
		for k := range ks {
			items = append(items, item{F, k, true})
		}
	}
	sort.Slice(items, func(i, j int) bool {
		if qname(items[i].F) != qname(items[j].F) {
			return qname(items[i].F) < qname(items[j].F)
		}
		if items[i].k != items[j].k {
			return items[i].k < items[j].k
		}
		return !items[i].result && items[j].result
	})
	for _, it := range items {
		name := fnn.names[it.k]
		if name == "" {
			name = it.k
		}
		kind := "needs"
		if it.result {
			kind = "returns closures needing"
		}
		base := fmt.Sprintf("%s %s %s != nil", qname(it.F), kind, name)
		sites, _, _, bad := fnn.sitesFor(p, reach, it.F, it.k, it.result)
		for i, b := range bad {
			c.Unk(cfg.rule, fmt.Sprintf("%s#shape%d", base, i+1), p.Pos(it.F.Pos()), "unchecked dereference of "+name+" whose guarantee cannot be located: "+b)
		}
		for i, s := range sites {
			cons := fmt.Sprintf("%s@%s#%d", base, qname(s.fn), i+1)
			pr := p.newSafetyProver(s.fn, cfg, fnn)
			ok := provableFieldNonNil(pr, s.at, s.A, s.k)
			if !ok && fnn.useInv {
				if inv, has := fnn.guarded[s.fn][s.k]; has {
					if g, mask, isG := guardOf(pr, s.at.Block(), s.A); isG && g == inv.G && mask == inv.Mask {
						if p.checkFlagInv(nil, "", inv) {
							c.OK(cfg.rule, cons, posOf(p, s.at), s.what+": behind a test of the flag; "+name+" != nil follows from the representation invariant "+inv.String())
						} else {
							c.Unk(cfg.rule, cons, posOf(p, s.at), s.what+": behind a test of the flag, but the representation invariant "+inv.String()+" is not established by all writers")
						}
						continue
					}
				}
			}
			if !ok && s.call == nil && fnn.assumed[s.fn][s.k] {
				if _, isRecv := recvBase(p, s.fn, s.A); isRecv {
					c.OK(cfg.rule, cons, posOf(p, s.at), s.what+": guaranteed by the caller's own requirement on "+name+" (resolved at its call sites)")
					continue
				}
			}
			if ok && s.call != nil && calleesWriteField(p, s.call, s.k) {
				c.Unk(cfg.rule, cons, posOf(p, s.at), s.what+": "+name+" is non-nil here but the consuming call may overwrite it while the closure is in use")
				continue
			}
			if ok {
				c.OK(cfg.rule, cons, posOf(p, s.at), s.what+": "+name+" is non-nil here (dominating store/check with no intervening write)")
			} else {
				c.Unk(cfg.rule, cons, posOf(p, s.at), s.what+": cannot prove "+name+" non-nil at this point, and the callee dereferences it without a check")
			}
		}
	}
}
