package main

import (
	"fmt"

	"golang.org/x/tools/go/ssa"
)

// Fixed-width and length-prefixed wire codecs decided by evaluation (R1.4 / R3.7 when the encoding/binary shape is
// not there: `data[i] = byte(v >> 8); data[i+1] = byte(v)` ↔ `wuint16(data[0])<<8 | wuint16(data[1])`).  The SSA
// form of fill and UnmarshalBinary is evaluated on concrete values — zero, every single bit, every single bit
// cleared, all ones and a few mixed patterns — and compared with big endian as the specification (§1.5.2, §1.5.3)
// defines it.  Nothing is executed; the evaluator is the one of the co-simulation.

func beBytes(v int64, w int) []int64 {
	out := make([]int64, w)
	for k := 0; k < w; k++ {
		out[k] = (v >> uint(8*(w-1-k))) & 0xff
	}
	return out
}

func intCodecValues(w int) []int64 {
	mask := int64(1)<<uint(8*w) - 1
	vals := []int64{0, mask, 0x1234 & mask, 0x12345678 & mask, 0xFEDCBA98 & mask, 0x00FF00FF & mask, 0x80000001 & mask, 0x0100 & mask, 0x00010000 & mask}
	for k := 0; k < 8*w; k++ {
		vals = append(vals, int64(1)<<uint(k), mask&^(int64(1)<<uint(k)))
	}
	return vals
}

// intCodecByEvaluation: bad names a value the codec gets wrong, unk why it could not be evaluated.
func (p *Prog) intCodecByEvaluation(enc, dec *ssa.Function, w int) (bad, unk string, n int) {
	if enc == nil || dec == nil || len(enc.Params) != 3 || len(dec.Params) != 2 {
		return "", "fill / UnmarshalBinary of an unexpected signature", 0
	}
	vals := intCodecValues(w)
	// … and every constant either side compares anything with (a codec that singles out one value), with its neighbours
	for _, fn := range []*ssa.Function{enc, dec} {
		for _, k := range p.cmpConstsFor(fn) {
			if k >= 0 && k < int64(1)<<uint(8*w) {
				vals = append(vals, k)
			}
		}
	}
	for _, v := range vals {
		want := beBytes(v, w)
		// encoder: offset 2 of a ten-byte buffer
		ctx := p.newSym(p.globalInput())
		for k := 0; k < 10; k++ {
			ctx.mem[fmt.Sprintf("BUF[%d]", k)] = sv{k: 'i', i: 0x55}
		}
		rs, ok := ctx.evalPure(enc, []sv{{k: 'i', i: v}, {k: 's', i: 10, addr: "BUF"}, {k: 'i', i: 2}}, nil, 0)
		if !ok || len(rs) != 1 || rs[0].k != 'i' {
			return "", "cannot evaluate " + qname(enc) + ": " + ctx.why, n
		}
		if rs[0].i != int64(w) {
			return fmt.Sprintf("fill(%#x) reports %d byte(s), the type is %d wide", v, rs[0].i, w), "", n
		}
		for k := 0; k < 10; k++ {
			cell := ctx.mem[fmt.Sprintf("BUF[%d]", k)]
			if cell.k != 'i' {
				return "", qname(enc) + ": an output byte is not determined", n
			}
			exp := int64(0x55)
			if k >= 2 && k < 2+w {
				exp = want[k-2]
			}
			if cell.i&0xff != exp {
				return fmt.Sprintf("fill(%#x) at offset 2 leaves byte %d of the buffer %#02x; big endian wants %#02x", v, k, cell.i&0xff, exp), "", n
			}
		}
		// decoder: exactly w bytes, and w bytes followed by two more
		for _, extra := range []int{0, 2} {
			ctx := p.newSym(p.globalInput())
			ctx.opaqueNonNil["unmarshalErr"] = true
			ctx.opaqueNonNil["newMalformed"] = true
			mask := int64(1)<<uint(8*w) - 1
			ctx.mem["V"] = sv{k: 'i', i: ^v & mask}
			for k := 0; k < w; k++ {
				ctx.mem[fmt.Sprintf("DATA[%d]", k)] = sv{k: 'i', i: want[k]}
			}
			for k := 0; k < extra; k++ {
				ctx.mem[fmt.Sprintf("DATA[%d]", w+k)] = sv{k: 'i', i: 0xAA}
			}
			rs, ok := ctx.evalPure(dec, []sv{{k: 'p', addr: "V"}, {k: 's', i: int64(w + extra), addr: "DATA"}}, nil, 0)
			if !ok || len(rs) != 1 {
				return "", "cannot evaluate " + qname(dec) + ": " + ctx.why, n
			}
			if !isNilResult(rs[0]) {
				return fmt.Sprintf("the decoder rejects % x (%d byte(s) of input)", want, w+extra), "", n
			}
			if got := ctx.mem["V"]; got.k != 'i' || got.i&mask != v {
				return fmt.Sprintf("the decoder reads % x as %v; big endian is %#x", want, got, v), "", n
			}
		}
		n++
	}
	return "", "", n
}

// lpCodecByEvaluation: the two-byte length prefix and the bytes behind it, both ways, for lengths around the byte
// boundary of the prefix.
func (p *Prog) lpCodecByEvaluation(enc, dec *ssa.Function) (bad, unk string, n int) {
	if enc == nil || dec == nil || len(enc.Params) != 3 || len(dec.Params) != 2 {
		return "", "fill / UnmarshalBinary of an unexpected signature", 0
	}
	content := func(k int64) int64 { return (k*7 + 3) & 0xff }
	for _, L := range []int64{0, 1, 2, 255, 256, 257, 0x0F01} {
		ctx := p.newSym(p.globalInput())
		for k := int64(0); k < L; k++ {
			ctx.mem[fmt.Sprintf("VAL[%d]", k)] = sv{k: 'i', i: content(k)}
		}
		for k := int64(0); k < L+6; k++ {
			ctx.mem[fmt.Sprintf("BUF[%d]", k)] = sv{k: 'i', i: 0x55}
		}
		rs, ok := ctx.evalPure(enc, []sv{{k: 's', i: L, addr: "VAL"}, {k: 's', i: L + 6, addr: "BUF"}, {k: 'i', i: 2}}, nil, 0)
		if !ok || len(rs) != 1 || rs[0].k != 'i' {
			return "", "cannot evaluate " + qname(enc) + ": " + ctx.why, n
		}
		if rs[0].i != L+2 {
			return fmt.Sprintf("fill of a %d-byte value reports %d byte(s), not %d", L, rs[0].i, L+2), "", n
		}
		for k := int64(0); k < L+6; k++ {
			cell := ctx.mem[fmt.Sprintf("BUF[%d]", k)]
			if cell.k != 'i' {
				return "", qname(enc) + ": an output byte is not determined", n
			}
			exp := int64(0x55)
			switch {
			case k == 2:
				exp = L >> 8
			case k == 3:
				exp = L & 0xff
			case k >= 4 && k < 4+L:
				exp = content(k - 4)
			}
			if cell.i&0xff != exp {
				return fmt.Sprintf("fill of a %d-byte value at offset 2 leaves byte %d of the buffer %#02x; the format wants %#02x", L, k, cell.i&0xff, exp), "", n
			}
		}
		ctx = p.newSym(p.globalInput())
		ctx.opaqueNonNil["unmarshalErr"] = true
		ctx.opaqueNonNil["newMalformed"] = true
		ctx.mem["V"] = sv{k: 's', i: 0, b: true}
		ctx.mem["DATA[0]"] = sv{k: 'i', i: L >> 8}
		ctx.mem["DATA[1]"] = sv{k: 'i', i: L & 0xff}
		for k := int64(0); k < L; k++ {
			ctx.mem[fmt.Sprintf("DATA[%d]", 2+k)] = sv{k: 'i', i: content(k)}
		}
		ctx.mem[fmt.Sprintf("DATA[%d]", 2+L)] = sv{k: 'i', i: 0xAA}
		rs, ok = ctx.evalPure(dec, []sv{{k: 'p', addr: "V"}, {k: 's', i: L + 3, addr: "DATA"}}, nil, 0)
		if !ok || len(rs) != 1 {
			return "", "cannot evaluate " + qname(dec) + ": " + ctx.why, n
		}
		if !isNilResult(rs[0]) {
			return fmt.Sprintf("the decoder rejects a %d-byte value followed by one more byte", L), "", n
		}
		got := ctx.mem["V"]
		if got.k != 's' || got.i != L {
			return fmt.Sprintf("a value announced as %d byte(s) decodes to %v", L, got), "", n
		}
		for k := int64(0); k < L; k++ {
			cell := ctx.mem[fmt.Sprintf("%s[%d]", got.addr, got.off+k)]
			if cell.k != 'i' || cell.i&0xff != content(k) {
				return fmt.Sprintf("byte %d of a %d-byte value decodes to %v, not %#02x", k, L, cell, content(k)), "", n
			}
		}
		if L > 0 && (got.addr == "DATA" || got.addr == "") {
			return fmt.Sprintf("the decoded %d-byte value is not a copy", L), "", n
		}
		n++
	}
	return "", "", n
}
