package main

import (
	"fmt"

	"golang.org/x/tools/go/ssa"
)

// Fixed-width and length-prefixed wire codecs decided by evaluation (R1.4 / R3.7 when the encoding/binary shape is
// not there: `data[i] = byte(v >> 8); data[i+1] = byte(v)` ↔ `wuint16(data[0])<<8 | wuint16(data[1])`).  The SSA
// form of fill and UnmarshalBinary is evaluated on concrete values — zero, every single bit, every single bit
// cleared, all ones and a few mixed patterns — and compared with big endian as the specification (§1.5.2, §1.5.3)
// defines it.  Nothing is executed; the evaluator is the one of the co-simulation.

func beBytes(v int64, w int) []int64 {
	out := make([]int64, w)
	for k := 0; k < w; k++ {
		out[k] = (v >> uint(8*(w-1-k))) & 0xff
	}
	return out
}

func intCodecValues(w int) []int64 {
	mask := int64(1)<<uint(8*w) - 1
	vals := []int64{0, mask, 0x1234 & mask, 0x12345678 & mask, 0xFEDCBA98 & mask, 0x00FF00FF & mask, 0x80000001 & mask, 0x0100 & mask, 0x00010000 & mask}
	for k := 0; k < 8*w; k++ {
		vals = append(vals, int64(1)<<uint(k), mask&^(int64(1)<<uint(k)))
	}
	return vals
}

// intCodecByEvaluation: bad names a value the codec gets wrong, unk why it could not be evaluated.
func (p *Prog) intCodecByEvaluation(enc, dec *ssa.Function, w int) (bad, unk string, n int) {
	if enc == nil || dec == nil || len(enc.Params) != 3 || len(dec.Params) != 2 {
		return "", "fill / UnmarshalBinary of an unexpected signature", 0
	}
	vals := intCodecValues(w)
	// … and every constant either side compares anything with (a codec that singles out one value), with its neighbours
	for _, fn := range []*ssa.Function{enc, dec} {
		for _, k := range p.cmpConstsFor(fn) {
			if k >= 0 && k < int64(1)<<uint(8*w) {
				vals = append(vals, k)
			}
		}
	}
	for _, v := range vals {
		want := beBytes(v, w)
		// encoder: offset 2 of a ten-byte buffer
		ctx := p.newSym(p.globalInput())
		for k := 0; k < 10; k++ {
			ctx.mem[fmt.Sprintf("BUF[%d]", k)] = sv{k: 'i', i: 0x55}
		}
		rs, ok := ctx.evalPure(enc, []sv{{k: 'i', i: v}, {k: 's', i: 10, addr: "BUF"}, {k: 'i', i: 2}}, nil, 0)
		if !ok || len(rs) != 1 || rs[0].k != 'i' {
			return "", "cannot evaluate " + qname(enc) + ": " + ctx.why, n
		}
		if rs[0].i != int64(w) {
			return fmt.Sprintf("fill(%#x) reports %d byte(s), the type is %d wide", v, rs[0].i, w), "", n
		}
		for k := 0; k < 10; k++ {
			cell := ctx.mem[fmt.Sprintf("BUF[%d]", k)]
			if cell.k != 'i' {
				return "", qname(enc) + ": an output byte is not determined", n
			}
			exp := int64(0x55)
			if k >= 2 && k < 2+w {
				exp = want[k-2]
			}
			if cell.i&0xff != exp {
				return fmt.Sprintf("fill(%#x) at offset 2 leaves byte %d of the buffer %#02x; big endian wants %#02x", v, k, cell.i&0xff, exp), "", n
			}
		}
		// decoder: exactly w bytes, and w bytes followed by two more
		for _, extra := range []int{0, 2} {
			ctx := p.newSym(p.globalInput())
			ctx.opaqueNonNil["unmarshalErr"] = true
			ctx.opaqueNonNil["newMalformed"] = true
			mask := int64(1)<<uint(8*w) - 1
			ctx.mem["V"] = sv{k: 'i', i: ^v & mask}
			for k := 0; k < w; k++ {
				ctx.mem[fmt.Sprintf("DATA[%d]", k)] = sv{k: 'i', i: want[k]}
			}
			for k := 0; k < extra; k++ {
				ctx.mem[fmt.Sprintf("DATA[%d]", w+k)] = sv{k: 'i', i: 0xAA}
			}
			rs, ok := ctx.evalPure(dec, []sv{{k: 'p', addr: "V"}, {k: 's', i: int64(w + extra), addr: "DATA"}}, nil, 0)
			if !ok || len(rs) != 1 {
				return "", "cannot evaluate " + qname(dec) + ": " + ctx.why, n
			}
			if !isNilResult(rs[0]) {
				return fmt.Sprintf("the decoder rejects % x (%d byte(s) of input)", want, w+extra), "", n
			}
			if got := ctx.mem["V"]; got.k != 'i' || got.i&mask != v {
				return fmt.Sprintf("the decoder reads % x as %v; big endian is %#x", want, got, v), "", n
			}
		}
		n++
	}
	return "", "", n
}

// lpCodecByEvaluation: the two-byte length prefix and the bytes behind it, both ways, for lengths around the byte
// boundary of the prefix.
func (p *Prog) lpCodecByEvaluation(enc, dec *ssa.Function) (bad, unk string, n int) {
	if enc == nil || dec == nil || len(enc.Params) != 3 || len(dec.Params) != 2 {
		return "", "fill / UnmarshalBinary of an unexpected signature", 0
	}
	content := func(k int64) int64 { return (k*7 + 3) & 0xff }
	for _, L := range []int64{0, 1, 2, 255, 256, 257, 0x0F01} {
		ctx := p.newSym(p.globalInput())
		for k := int64(0); k < L; k++ {
			ctx.mem[fmt.Sprintf("VAL[%d]", k)] = sv{k: 'i', i: content(k)}
		}
		for k := int64(0); k < L+6; k++ {
			ctx.mem[fmt.Sprintf("BUF[%d]", k)] = sv{k: 'i', i: 0x55}
		}
		rs, ok := ctx.evalPure(enc, []sv{{k: 's', i: L, addr: "VAL"}, {k: 's', i: L + 6, addr: "BUF"}, {k: 'i', i: 2}}, nil, 0)
		if !ok || len(rs) != 1 || rs[0].k != 'i' {
			return "", "cannot evaluate " + qname(enc) + ": " + ctx.why, n
		}
		if rs[0].i != L+2 {
			return fmt.Sprintf("fill of a %d-byte value reports %d byte(s), not %d", L, rs[0].i, L+2), "", n
		}
		for k := int64(0); k < L+6; k++ {
			cell := ctx.mem[fmt.Sprintf("BUF[%d]", k)]
			if cell.k != 'i' {
				return "", qname(enc) + ": an output byte is not determined", n
			}
			exp := int64(0x55)
			switch {
			case k == 2:
				exp = L >> 8
			case k == 3:
				exp = L & 0xff
			case k >= 4 && k < 4+L:
				exp = content(k - 4)
			}
			if cell.i&0xff != exp {
				return fmt.Sprintf("fill of a %d-byte value at offset 2 leaves byte %d of the buffer %#02x; the format wants %#02x", L, k, cell.i&0xff, exp), "", n
			}
		}
		ctx = p.newSym(p.globalInput())
		ctx.opaqueNonNil["unmarshalErr"] = true
		ctx.opaqueNonNil["newMalformed"] = true
		ctx.mem["V"] = sv{k: 's', i: 0, b: true}
		ctx.mem["DATA[0]"] = sv{k: 'i', i: L >> 8}
		ctx.mem["DATA[1]"] = sv{k: 'i', i: L & 0xff}
		for k := int64(0); k < L; k++ {
			ctx.mem[fmt.Sprintf("DATA[%d]", 2+k)] = sv{k: 'i', i: content(k)}
		}
		ctx.mem[fmt.Sprintf("DATA[%d]", 2+L)] = sv{k: 'i', i: 0xAA}
		rs, ok = ctx.evalPure(dec, []sv{{k: 'p', addr: "V"}, {k: 's', i: L + 3, addr: "DATA"}}, nil, 0)
		if !ok || len(rs) != 1 {
			return "", "cannot evaluate " + qname(dec) + ": " + ctx.why, n
		}
		if !isNilResult(rs[0]) {
			return fmt.Sprintf("the decoder rejects a %d-byte value followed by one more byte", L), "", n
		}
		got := ctx.mem["V"]
		if got.k != 's' || got.i != L {
			return fmt.Sprintf("a value announced as %d byte(s) decodes to %v", L, got), "", n
		}
		for k := int64(0); k < L; k++ {
			cell := ctx.mem[fmt.Sprintf("%s[%d]", got.addr, got.off+k)]
			if cell.k != 'i' || cell.i&0xff != content(k) {
				return fmt.Sprintf("byte %d of a %d-byte value decodes to %v, not %#02x", k, L, cell, content(k)), "", n
			}
		}
		if L > 0 && (got.addr == "DATA" || got.addr == "") {
			return fmt.Sprintf("the decoded %d-byte value is not a copy", L), "", n
		}
		n++
	}
	return "", "", n
}

// fillPropWriters: the functions that write into the buffer themselves among fillProp and the fill-family functions
// of the library it reaches by static calls.  The co-simulation takes a fillProp event for "identifier, then the
// value as fill encodes it": that holds when the only writers are fill methods of wire types (R1.4 pairs those with
// the decoders).  A property writer with a body of its own (`fillTagged`) is an encoding nothing compares with fill.
func (p *Prog) fillPropWriters(fp *ssa.Function) []*ssa.Function {
	var out []*ssa.Function
	seen := map[*ssa.Function]bool{}
	var visit func(fn *ssa.Function, depth int)
	visit = func(fn *ssa.Function, depth int) {
		if fn == nil || seen[fn] || depth > 4 || len(fn.Blocks) == 0 {
			return
		}
		seen[fn] = true
		if isWirePrimitive(fn) && fn.Name() == "fill" {
			out = append(out, fn) // a wire type's own encoder: however it puts its bytes down (helpers included), R1.4 pairs it with the decoder
			return
		}
		buf, _, _, _ := emissionsOf(p, fn)
		if buf != nil && writesBufferDirectly(fn, buf) {
			out = append(out, fn)
		}
		for _, b := range fn.Blocks {
			for _, ins := range b.Instrs {
				if call, ok := ins.(*ssa.Call); ok {
					if sc := call.Call.StaticCallee(); sc != nil && p.inMQ(sc) && isFillFamily(sc) {
						visit(sc, depth+1)
					}
				}
			}
		}
	}
	visit(fp, 0)
	return out
}

// lpFillPropByEvaluation: fillProp of a length-prefixed type writes the identifier and then exactly what fill
// writes, for lengths on both sides of the prefix's byte boundary; nothing for the empty value.
func (p *Prog) lpFillPropByEvaluation(fill, fp *ssa.Function) (bad, unk string, n int) {
	if fill == nil || fp == nil || len(fill.Params) != 3 || len(fp.Params) != 4 {
		return "", "fill / fillProp of an unexpected signature", 0
	}
	content := func(k int64) int64 { return (k*5 + 1) & 0xff }
	run := func(fn *ssa.Function, L int64, args func(val, buf sv) []sv) ([]int64, int64, string) {
		ctx := p.newSym(p.globalInput())
		for k := int64(0); k < L; k++ {
			ctx.mem[fmt.Sprintf("VAL[%d]", k)] = sv{k: 'i', i: content(k)}
		}
		for k := int64(0); k < L+8; k++ {
			ctx.mem[fmt.Sprintf("BUF[%d]", k)] = sv{k: 'i', i: 0x55}
		}
		rs, ok := ctx.evalPure(fn, args(sv{k: 's', i: L, addr: "VAL", b: L == 0}, sv{k: 's', i: L + 8, addr: "BUF"}), nil, 0)
		if !ok || len(rs) != 1 || rs[0].k != 'i' {
			return nil, 0, "cannot evaluate " + qname(fn) + ": " + ctx.why
		}
		out := make([]int64, L+8)
		for k := int64(0); k < L+8; k++ {
			cell := ctx.mem[fmt.Sprintf("BUF[%d]", k)]
			if cell.k != 'i' {
				return nil, 0, qname(fn) + ": an output byte is not determined"
			}
			out[k] = cell.i & 0xff
		}
		return out, rs[0].i, ""
	}
	for _, L := range []int64{0, 1, 2, 255, 256, 300, 3841} {
		fb, fw, why := run(fill, L, func(val, buf sv) []sv { return []sv{val, buf, {k: 'i', i: 2}} })
		if why != "" {
			return "", why, n
		}
		pb, pw, why := run(fp, L, func(val, buf sv) []sv { return []sv{val, buf, {k: 'i', i: 1}, {k: 'i', i: 0x08}} })
		if why != "" {
			return "", why, n
		}
		if L == 0 {
			if pw != 0 {
				continue
			}
			for k := range pb {
				if pb[k] != 0x55 {
					return fmt.Sprintf("fillProp of the empty value reports 0 bytes but writes at buffer index %d", k), "", n
				}
			}
			n++
			continue
		}
		if pw != fw+1 {
			return fmt.Sprintf("fillProp of a %d-byte value reports %d byte(s); the identifier and the %d byte(s) fill writes make %d", L, pw, fw, fw+1), "", n
		}
		if pb[1] != 0x08 {
			return fmt.Sprintf("fillProp of a %d-byte value does not write the identifier first (byte %#02x)", L, pb[1]), "", n
		}
		for k := int64(0); k < fw; k++ {
			if pb[2+k] != fb[2+k] {
				return fmt.Sprintf("fillProp of a %d-byte value writes %#02x at byte %d after the identifier; fill writes %#02x there", L, pb[2+k], k, fb[2+k]), "", n
			}
		}
		if pb[0] != 0x55 || pb[2+fw] != 0x55 {
			return fmt.Sprintf("fillProp of a %d-byte value writes outside its %d byte(s)", L, pw), "", n
		}
		n++
	}
	return "", "", n
}
